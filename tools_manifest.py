#!/usr/bin/env python3
"""Generates MANIFEST.json from the table below and validates it (and any evidence files) against the schemas."""
import json, sys, os, glob
CHECKS = {
 "C12": dict(cat="model_checking", tech="explicit-state BFS over real FileManager.Feed calls in lock-step with a reference model; state key = private tables",
   text="Every sequence of Feed calls within the bound (item alphabet of 24, lists<=2 x 2 calls quick; lists<=3 x 2 calls and lists<=2 x 3 calls thorough) is executed on the real FileManager; after each call BuildResponse is compared with a reference model written from the property text. Exhaustive within the bound, deduplicated on the manager's complete private state.",
   note="Trusted: the 60-line reference model; the overlay export file (reflection dump of private fields). Fresh-name spelling and named patches for never-submitted names are not judged.", ref="§3 C12"),
}
NA = {}
def main():
    props=[json.loads(l) for l in open('/verif/properties.jsonl')]
    checks=[]
    for p in props:
        i=p['id']
        if i in CHECKS:
            c=CHECKS[i]
            checks.append({"property_id":i,"quick_cmd":f"./check {i} quick","thorough_cmd":f"./check {i} thorough",
              "evidence_file":f"/verif/evidence/{i}.json","replay_cmd_template":f"./check {i} quick -replay {{path}}",
              "engine":c.get("engine","vcheck"),"level_claimed":{"category":c["cat"],"text":c["text"],"design_ref":c["ref"]},
              "level_note":c["note"],"technique":c["tech"]})
    na=[{"property_id":p['id'],"reason":NA.get(p['id'],"check not built yet in this round (planned, see DESIGN.md §3); no claim is made")} for p in props if p['id'] not in CHECKS]
    m={"version":1,"setup_cmd":"./setup.sh",
       "hooks":{"guard":"verif","enable":"go build -tags verif -overlay <json>: instrumentation lives in /verif/overlays/*_verif.go (//go:build verif) and is injected at build time; no hook is committed to /repo","baseline_off_cmd":"cd /repo && for m in . ./tests/fieldmask ./tests/unknown_fields; do (cd $m && GOFLAGS=-mod=mod go test -vet=off -count=1 ./...) || exit 1; done","source_commits":[],"add_only":True},
       "engines":[{"name":"vcheck","path":"/verif/check","serves_properties":sorted(CHECKS),"kind_free_text":"per-property Go harness rebuilt against /repo's working tree (module replace + -overlay), exhaustive bounded enumeration with reference models"}],
       "checks":checks,"not_applicable":na,
       "notes":"All checks: ./check <id> <tier>. Fix commits in /repo are listed in known_findings.json under 'fixed'."}
    json.dump(m,open('/verif/MANIFEST.json','w'),indent=1)
    import jsonschema
    jsonschema.validate(m,json.load(open('/root/.vp/MANIFEST.schema.json')))
    es=json.load(open('/root/.vp/EVIDENCE.schema.json'))
    for f in glob.glob('/verif/evidence/*.json'):
        jsonschema.validate(json.load(open(f)),es)
        print("evidence ok",f)
    print("manifest ok:",len(checks),"checks,",len(na),"not_applicable")
main()
