#!/usr/bin/env python3
"""Generates MANIFEST.json from the table below and validates it (and any evidence files) against the schemas."""
import json, sys, os, glob
CHECKS = {
 "C12": dict(cat="model_checking", tech="explicit-state BFS over real FileManager.Feed calls in lock-step with a reference model; state key = private tables",
   text="Every sequence of Feed calls within the bound (item alphabet of 24, lists<=2 x 2 calls quick; lists<=3 x 2 calls and lists<=2 x 3 calls thorough) is executed on the real FileManager; after each call BuildResponse is compared with a reference model written from the property text. Exhaustive within the bound, deduplicated on the manager's complete private state.",
   note="Trusted: the 60-line reference model; the overlay export file (reflection dump of private fields). Fresh-name spelling and named patches for never-submitted names are not judged.", ref="§3 C12"),

 "C19": dict(cat="model_checking", tech="stateless schedule exploration (CHESS-style preemption-bounded DFS + unbounded state-pruned DFS) of the real OnFinished, mechanically rewritten onto a controlled scheduler; all failing-job subsets",
   text="generator.go of the working tree is rewritten mechanically (channels, select, go, sync -> modelled package) and the real dispatcher/worker code is executed under a scheduler that owns every interleaving and select tie-break. For every scenario (jobs 0..4 quick / 0..5 thorough, concurrency 1..3/1..4, every assignment of ok/post-process-fails/write-fails per job, post-processor nil/present) all schedules with <=2 (thorough 3) preemptions and, with state-key pruning, all schedules without bound are executed and judged: no deadlock, no work after return, nil iff every job written once with its own content, executed failure => injected error returned.",
   note="Scheduling points only at sync operations, goroutine start and environment calls; plain memory between them is atomic (data races are looked for by a separate free-running -race pass, which is sampling and does not decide). Trusted: the rewriter (go/ast) and the modelled semantics of channels/select/WaitGroup in overlays/verifvs.", ref="§2.4, §3 C19"),
 "C20": dict(cat="model_checking", tech="exhaustive enumeration of option lists (all singles x forms, all ordered pairs, triples) on the real HandleOptions in lock-step with a reference table built from struct tags + README",
   text="Every documented option name x {bare,=true,=false,=garbage,...}, every ordered pair of option atoms (garbage in either position) and every ordered triple over the prefix-related / mutually constrained names (thorough: over all atoms, 4.1M lists) is handled by the real CodeUtils.HandleOptions on a fresh CodeUtils and by a reference model; the complete observable configuration (all feature flags, template, naming style, initialisms, package prefix, import replacements) must match, invalid values/combinations must be rejected, README defaults must equal code defaults; Arguments.Targets() adaptation for nested structs.",
   note="Reference semantics for the 6 value options and the documented implications are hand-written from the README. Combinations the code rejects without the README calling them invalid are not judged.", ref="§3 C20"),

 "C03": dict(cat="exploration", tech="bounded-exhaustive input enumeration on the real parser: all byte strings / token sequences up to a length, all 1- and 2-deviation layouts of a document universe, compared with the model AST",
   text="Totality: every string over a 16-byte alphabet up to length 5 (thorough 6), every sequence of <=3 (4) tokens from a 50-token alphabet, every prefix / token deletion / duplication of the document universe, 22 pumping families to 64 KiB. Faithfulness: ~400 documents covering every definition kind and optional part, each under the baseline layout and every single layout deviation (each token boundary x 9 fillers, each separator slot x {; none}, each quote, each integer spelling), thorough: all pairs of deviations on the 60 smallest documents; AST compared field by field with the AST prescribed by the property.",
   note="Bytes >= 0x80 and control characters are outside the alphabets. The only timed oracle is 20 s for <= 64 KiB (observed < 0.1 s). Comments and throws requiredness are not compared.", ref="§3 C03"),

 "C17": dict(cat="exploration", tech="bounded-exhaustive round trip parse -> DumpIDL -> parse on a document universe incl. every string <=3 (4) over a 9-symbol alphabet at every literal position",
   text="For every document of the C03 universe, the valid multi-file interplay program, every literal position (17 positions incl. annotations on every node kind, include and cpp_include paths) x every string of length <=3 (thorough 4) over {a \" ' & < # \\ ; space} x both quote styles, doubles at the int64 boundary, argument/throws lists of every length pair 0..3 x 0..3: the dumped text must parse, the re-parsed AST must equal the original field by field (comments excluded, double may become an equal integer), and semantic validity must be preserved.",
   note="Sources the parser rejects are outside the universe. The trimmer binary's -r mode is covered by C16. One recorded finding (odd backslashes before a double quote).", ref="§3 C17"),

 "C14": dict(cat="model_checking", tech="exhaustive enumeration of path lists (all orders/groupings) against a reference trie, plus all strings <=6 (7) over a 13-symbol alphabet and a depth-2 JSON document grammar, on the real fieldmask library",
   text="(a) every list of <=2 (thorough: also triples) valid paths over three descriptors (struct/list/set/string-map/int-map/other-map fields, ids 63/64/65 and a negative id), white and black, every permutation and a regrouping: NewFieldMask must succeed for clean lists, every type-appropriate query to depth 4 must equal the reference trie, answers must not depend on order/grouping, JSON round trip must preserve every answer and JSON text must be stable; (b) 5.2M (thorough 68M) arbitrary strings through NewFieldMask/GetPath/PathInMask: no panic; (c) ~80k JSON documents with wrong-typed/missing members through UnmarshalJSON/Unmarshal and follow-up use: no panic.",
   note="Lists mixing '*' with a specific child (or a path end) at one position are only checked for panics (the property exempts them from order independence). '.*' with a continuation on a struct and by-id spelling of negative ids are outside the valid-path grammar. JSON stability across map-iteration orders is part of C07's engine, not of this check.", ref="§3 C14, App. A.2"),

 "C02": dict(cat="exploration", tech="bounded-exhaustive generate-compile-run: every field shape x requiredness x small total value domain, executed on the real generated Read/Write and compared with an independent schema-driven binary codec; exhaustive single-field perturbations",
   text="The type-kernel program (one struct per leaf class / container-of-leaf / container-in-container shape x {default, required, optional}, declared defaults of every base type, union, exception, recursive struct, synthesized args/result of 9 methods; 435 roots quick) is generated by the thriftgo built from the working tree under the default configuration and 7 (thorough 35) presentation-only option sets, compiled, and driven through a reflection driver: for every value of each root's domain (25k vectors) Write's bytes must be well-formed and decode under the reference codec to the value, Read of the reference encoding must yield the value on fields, getters, IsSet and struct tags, options must not change a byte; every unknown-field insertion (11 wire types x every position), every retagging, deletion of the field and field reordering is applied to the reference encodings; unions with 0/2 members must be refused.",
   note="Trusted: internal/refsem codec (written from the protocol specification), the reflection driver, apache/thrift v0.13.0 TBinaryProtocol. A configuration whose generated code does not compile only costs coverage here (it is C01's subject).", ref="§3 C02"),

 "C01": dict(cat="exploration", tech="bounded-exhaustive generate-and-type-check: program universe (type kernels, every identifier of a 70-name alphabet at every name position, colliding name pairs, include/namespace/service structures) x every documented option alone, naming styles, templates, both backends; go/types over all generated packages plus go build + go vet",
   text="~1900 (thorough ~7000) (program, configuration) pairs are generated by the thriftgo built from the working tree; for every accepted pair every written .go file must parse and all generated packages of the pair must type-check together against the pinned runtime libraries (go/types with export data of the real dependencies: redeclarations, missing/unused imports, unused variables/labels, unresolved selectors, two package names in one directory), and the kernel/structure items are additionally built and vetted with the real toolchain. Thorough adds the wide kernel under every option and all unordered pairs of boolean options on the interplay program.",
   note="A rejected pair (exit != 0) is never a violation here (C04's subject). code_ref* options are not exercised (need an idl-ref.yaml and a referenced module); streaming code is generated only for IDLs without streaming annotations (kitex is not in the module cache). Nine recorded findings.", ref="§3 C01"),

 "C18": dict(cat="exploration", tech="bounded-exhaustive generate-compile-run: all ordered pairs of each struct's value domain through the real generated DeepEqual vs a reference structural equality; all element lists <=3 for the set-uniqueness check",
   text="With gen_deep_equal (also combined with value_type_in_container and validate_set=false; thorough: 7 configurations) every single-field kernel (every field shape x {default, optional}) and nested/multi-field structs are generated, compiled and driven: for all ordered pairs of the value domain DeepEqual must equal the reference equality (pairs differing in one leaf at any depth, nil vs empty, optional presence, map size, equal-size maps with different keys, struct-typed map keys), copies must be equal, nil receivers/arguments must not panic, and Write of a set must fail exactly when two elements are equal.",
   note="NaN, -0.0 and (unset optional binary vs set empty binary) are not judged. Trusted: the reflection driver and the 60-line reference equality.", ref="§3 C18"),
}
NA = {}
def main():
    props=[json.loads(l) for l in open('/verif/properties.jsonl')]
    checks=[]
    for p in props:
        i=p['id']
        if i in CHECKS:
            c=CHECKS[i]
            checks.append({"property_id":i,"quick_cmd":f"./check {i} quick","thorough_cmd":f"./check {i} thorough",
              "evidence_file":f"/verif/evidence/{i}.json","replay_cmd_template":f"./check {i} quick -replay {{path}}",
              "engine":c.get("engine","vcheck"),"level_claimed":{"category":c["cat"],"text":c["text"],"design_ref":c["ref"]},
              "level_note":c["note"],"technique":c["tech"]})
    na=[{"property_id":p['id'],"reason":NA.get(p['id'],"check not built yet in this round (planned, see DESIGN.md §3); no claim is made")} for p in props if p['id'] not in CHECKS]
    m={"version":1,"setup_cmd":"./setup.sh",
       "hooks":{"guard":"verif","enable":"go build -tags verif -overlay <json>: instrumentation lives in /verif/overlays/*_verif.go (//go:build verif) and is injected at build time; no hook is committed to /repo","baseline_off_cmd":"cd /repo && for m in . ./tests/fieldmask ./tests/unknown_fields; do (cd $m && GOFLAGS=-mod=mod go test -vet=off -count=1 ./...) || exit 1; done","source_commits":[],"add_only":True},
       "engines":[{"name":"vcheck","path":"/verif/check","serves_properties":sorted(CHECKS),"kind_free_text":"per-property Go harness rebuilt against /repo's working tree (module replace + -overlay), exhaustive bounded enumeration with reference models"}],
       "checks":checks,"not_applicable":na,
       "notes":"All checks: ./check <id> <tier>. Fix commits in /repo are listed in known_findings.json under 'fixed'."}
    json.dump(m,open('/verif/MANIFEST.json','w'),indent=1)
    import jsonschema
    jsonschema.validate(m,json.load(open('/root/.vp/MANIFEST.schema.json')))
    es=json.load(open('/root/.vp/EVIDENCE.schema.json'))
    for f in glob.glob('/verif/evidence/*.json'):
        jsonschema.validate(json.load(open(f)),es)
        print("evidence ok",f)
    print("manifest ok:",len(checks),"checks,",len(na),"not_applicable")
main()
