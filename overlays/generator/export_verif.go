//go:build verif

// Injected with `go build -overlay` by /verif; never part of the repository.
// Only exports private state, adds no behaviour.
package generator

import (
	"fmt"
	"github.com/cloudwego/thriftgo/generator/backend"
	"reflect"
	"sort"
	"strings"
)

// VerifState renders every private table of the manager canonically (by
// reflection, so a field added later is part of the key automatically). Feed
// and BuildResponse depend on nothing else, so equal strings mean equal futures.
func (fm *FileManager) VerifState() string {
	var sb strings.Builder
	v := reflect.ValueOf(fm).Elem()
	for i := 0; i < v.NumField(); i++ {
		f := v.Field(i)
		if f.Kind() == reflect.Func || f.Kind() == reflect.Interface || v.Type().Field(i).Name == "log" {
			continue
		}
		sb.WriteString(v.Type().Field(i).Name)
		sb.WriteByte('=')
		verifDump(&sb, f)
		sb.WriteByte(';')
	}
	return sb.String()
}

func verifDump(sb *strings.Builder, v reflect.Value) {
	switch v.Kind() {
	case reflect.Ptr, reflect.Interface:
		if v.IsNil() {
			sb.WriteString("nil")
			return
		}
		sb.WriteByte('&')
		verifDump(sb, v.Elem())
	case reflect.Struct:
		sb.WriteByte('{')
		for i := 0; i < v.NumField(); i++ {
			verifDump(sb, v.Field(i))
			sb.WriteByte(',')
		}
		sb.WriteByte('}')
	case reflect.Slice, reflect.Array:
		sb.WriteByte('[')
		for i := 0; i < v.Len(); i++ {
			verifDump(sb, v.Index(i))
			sb.WriteByte(',')
		}
		sb.WriteByte(']')
	case reflect.Map:
		var ents []string
		it := v.MapRange()
		for it.Next() {
			var e strings.Builder
			verifDump(&e, it.Key())
			e.WriteByte(':')
			verifDump(&e, it.Value())
			ents = append(ents, e.String())
		}
		sort.Strings(ents)
		sb.WriteString("map[" + strings.Join(ents, ",") + "]")
	case reflect.String:
		fmt.Fprintf(sb, "%q", v.String())
	case reflect.Bool:
		fmt.Fprintf(sb, "%v", v.Bool())
	case reflect.Int, reflect.Int8, reflect.Int16, reflect.Int32, reflect.Int64:
		fmt.Fprintf(sb, "%d", v.Int())
	case reflect.Uint, reflect.Uint8, reflect.Uint16, reflect.Uint32, reflect.Uint64:
		fmt.Fprintf(sb, "%d", v.Uint())
	case reflect.Func, reflect.Chan, reflect.UnsafePointer:
		sb.WriteString("?")
	default:
		fmt.Fprintf(sb, "%v", v)
	}
}

// VerifOnFinished builds the private asyncPostProcess with a chosen
// concurrency and job list and runs its OnFinished (C19 harness entry).
func VerifOnFinished(pp backend.PostProcessor, concurrency int, paths, contents []string, f func(path string, content []byte) error) error {
	p := newAsyncPostProcess(pp)
	p.concurrency = concurrency
	for i := range paths {
		p.Add(paths[i], contents[i])
	}
	return p.OnFinished(f)
}

// VerifSetLog gives a zero Generator a no-op logger so that Persist can be called directly.
func VerifSetLog(g *Generator) { g.log = backend.DummyLogFunc() }
