// Package verifvs is a cooperative, fully controlled model of Go's channels,
// select, WaitGroup, Mutex and goroutine spawn. It is injected into the
// thriftgo module as a *virtual package* with `go build -overlay` (it is never
// part of the repository); /verif's rewriter turns the channel/select/go/sync
// constructs of generator.go into calls of this package so that the real
// dispatcher/worker code runs under a scheduler that owns every interleaving.
//
// Exactly one modelled thread runs at a time. Before every synchronisation
// operation the thread publishes the operation and yields; the scheduler
// computes which operations are enabled from the modelled objects (a blocked
// thread is never run, so "nothing enabled, someone unfinished" is deadlock,
// detected without timers) and asks the explorer which alternative to take.
package verifvs

import (
	"fmt"
	"hash/fnv"
	"runtime"
	"sort"
	"strings"
	"time"
)

// Alt is one enabled alternative at a decision point.
type Alt struct {
	Tid     int // thread to run
	Case    int // select case index (0 for plain ops, -1 for default)
	Partner int // rendezvous partner thread id, -1 if none
}

// PointInfo describes one decision point of an execution.
type PointInfo struct {
	Alts           []Alt
	RunningEnabled bool // alternatives of the previously running thread come first
	NRunning       int  // how many leading alternatives belong to the running thread
	Key            string
}

type caseOp struct {
	send bool
	ch   *chanCore
	val  any
}

type opKind int

const (
	opStart opKind = iota
	opChan         // plain send/recv or select
	opWait         // WaitGroup.Wait
	opLock         // Mutex.Lock
	opStep         // always enabled (Add, Done, Unlock, Close, Point)
	opDone         // completed by a rendezvous partner
)

type op struct {
	kind       opKind
	cases      []caseOp
	hasDefault bool
	wg         *WaitGroup
	mu         *Mutex
	label      string
}

type completion struct {
	cas int
	val any
	ok  bool
}

type thread struct {
	id      int
	resume  chan Alt
	pending *op
	comp    *completion
	done    bool
	nops    int
	obs     uint64
	panicV  any
	nobj    int
}

// Exec is one controlled execution.
type Exec struct {
	threads  []*thread
	running  *thread
	yield    chan struct{}
	chans    []*chanCore
	wgs      []*WaitGroup
	mus      []*Mutex
	abort    bool
	Points   []PointInfo
	Choices  []int
	Deadlock bool
	Blocked  []string // descriptions of blocked threads at deadlock
	Panics   []string
	Hung     bool
	Aborted  bool
	EnvKey   func() string
	Trace    []string
	wantKeys bool
}

var cur *Exec

// Chooser picks an alternative index at a decision point; returning -1 aborts
// the execution (used for state pruning).
type Chooser func(x *Exec, p *PointInfo) int

// Run executes main as thread 0 under the chooser and returns when every
// thread has finished, a deadlock is reached, or the chooser aborts.
func Run(main func(), envKey func() string, wantKeys bool, choose Chooser) *Exec {
	x := &Exec{yield: make(chan struct{}), EnvKey: envKey, wantKeys: wantKeys}
	cur = x
	x.spawn(main)
	for {
		p := x.decisionPoint()
		if len(p.Alts) == 0 {
			all := true
			for _, t := range x.threads {
				if !t.done {
					all = false
					x.Blocked = append(x.Blocked, fmt.Sprintf("T%d:%s", t.id, t.pending.describe()))
				}
			}
			if !all {
				x.Deadlock = true
				x.kill()
			}
			break
		}
		x.Points = append(x.Points, p)
		c := choose(x, &x.Points[len(x.Points)-1])
		if c < 0 {
			x.Points = x.Points[:len(x.Points)-1]
			x.Aborted = true
			x.kill()
			break
		}
		if c >= len(p.Alts) {
			panic(fmt.Sprintf("verifvs: replay divergence: choice %d of %d at point %d", c, len(p.Alts), len(x.Points)-1))
		}
		x.Choices = append(x.Choices, c)
		a := p.Alts[c]
		t := x.threads[a.Tid]
		x.running = t
		x.Trace = append(x.Trace, fmt.Sprintf("T%d:%s/%d", t.id, t.pending.describe(), a.Case))
		t.resume <- a
		if !x.waitYield() {
			x.Hung = true
			break
		}
	}
	cur = nil
	return x
}

func (x *Exec) waitYield() bool {
	select {
	case <-x.yield:
		return true
	default:
	}
	tm := time.NewTimer(120 * time.Second)
	defer tm.Stop()
	select {
	case <-x.yield:
		return true
	case <-tm.C:
		return false
	}
}

// kill unwinds every unfinished thread (Goexit; modelled operations become
// no-ops while aborting so deferred calls cannot block).
func (x *Exec) kill() {
	x.abort = true
	for _, t := range x.threads {
		if !t.done {
			t.resume <- Alt{Tid: t.id}
			x.waitYield()
		}
	}
}

func (x *Exec) spawn(f func()) *thread {
	t := &thread{id: len(x.threads), resume: make(chan Alt), pending: &op{kind: opStart}}
	x.threads = append(x.threads, t)
	go func() {
		<-t.resume
		defer func() {
			if r := recover(); r != nil {
				t.panicV = r
				x.Panics = append(x.Panics, fmt.Sprintf("T%d: %v", t.id, r))
			}
			t.done = true
			t.pending = nil
			x.yield <- struct{}{}
		}()
		if x.abort {
			return
		}
		t.nops++
		f()
	}()
	return t
}

// point publishes the operation, yields and returns the alternative chosen.
func (x *Exec) point(o *op) Alt {
	t := x.running
	t.pending = o
	x.yield <- struct{}{}
	a := <-t.resume
	if x.abort {
		runtime.Goexit()
	}
	t.nops++
	t.pending = nil
	return a
}

func (t *thread) observe(v any) {
	h := fnv.New64a()
	fmt.Fprintf(h, "%d|%T|%v", t.obs, v, v)
	t.obs = h.Sum64()
}

func (o *op) describe() string {
	if o == nil {
		return "-"
	}
	switch o.kind {
	case opStart:
		return "start"
	case opWait:
		return fmt.Sprintf("wait(wg%s)", o.wg.id)
	case opLock:
		return fmt.Sprintf("lock(mu%s)", o.mu.id)
	case opStep:
		return o.label
	case opDone:
		return "completed"
	}
	var sb strings.Builder
	if len(o.cases) != 1 || o.hasDefault {
		sb.WriteString("select{")
	}
	for i, c := range o.cases {
		if i > 0 {
			sb.WriteByte(',')
		}
		id := "nil"
		if c.ch != nil {
			id = c.ch.id
		}
		if c.send {
			fmt.Fprintf(&sb, "send(ch%s,%v)", id, c.val)
		} else {
			fmt.Fprintf(&sb, "recv(ch%s)", id)
		}
	}
	if o.hasDefault {
		sb.WriteString(",default")
	}
	if len(o.cases) != 1 || o.hasDefault {
		sb.WriteString("}")
	}
	return sb.String()
}

// partners lists threads (other than t) with a pending, not yet completed
// channel operation of the given direction on ch.
func (x *Exec) partners(t *thread, ch *chanCore, send bool) []int {
	var r []int
	for _, u := range x.threads {
		if u == t || u.done || u.pending == nil || u.pending.kind != opChan || u.comp != nil {
			continue
		}
		for _, c := range u.pending.cases {
			if c.ch == ch && c.send == send {
				r = append(r, u.id)
				break
			}
		}
	}
	return r
}

func (x *Exec) altsOf(t *thread) []Alt {
	o := t.pending
	if t.done || o == nil {
		return nil
	}
	if t.comp != nil {
		return []Alt{{Tid: t.id, Case: t.comp.cas, Partner: -1}}
	}
	switch o.kind {
	case opStart, opStep:
		return []Alt{{Tid: t.id, Partner: -1}}
	case opWait:
		if o.wg.n == 0 {
			return []Alt{{Tid: t.id, Partner: -1}}
		}
		return nil
	case opLock:
		if !o.mu.locked {
			return []Alt{{Tid: t.id, Partner: -1}}
		}
		return nil
	}
	var r []Alt
	for i, c := range o.cases {
		if c.ch == nil {
			continue
		}
		if c.send {
			switch {
			case c.ch.closed:
				r = append(r, Alt{t.id, i, -1}) // will panic, as in Go
			case len(c.ch.buf) < c.ch.cap:
				r = append(r, Alt{t.id, i, -1})
			case c.ch.cap == 0:
				for _, p := range x.partners(t, c.ch, false) {
					r = append(r, Alt{t.id, i, p})
				}
			}
		} else {
			switch {
			case len(c.ch.buf) > 0:
				r = append(r, Alt{t.id, i, -1})
			case c.ch.cap == 0 && len(x.partners(t, c.ch, true)) > 0:
				for _, p := range x.partners(t, c.ch, true) {
					r = append(r, Alt{t.id, i, p})
				}
			case c.ch.closed:
				r = append(r, Alt{t.id, i, -1})
			}
		}
	}
	if len(r) == 0 && o.hasDefault {
		r = append(r, Alt{t.id, -1, -1})
	}
	return r
}

func (x *Exec) decisionPoint() PointInfo {
	var p PointInfo
	if x.running != nil && !x.running.done {
		a := x.altsOf(x.running)
		p.Alts = append(p.Alts, a...)
		p.NRunning = len(a)
		p.RunningEnabled = len(a) > 0
	}
	for _, t := range x.threads {
		if t == x.running {
			continue
		}
		p.Alts = append(p.Alts, x.altsOf(t)...)
	}
	if x.wantKeys {
		p.Key = x.stateKey()
	}
	return p
}

// stateKey: per thread (done, operations executed, hash of everything it
// observed, pending operation incl. values it is about to send), every
// channel's contents, every WaitGroup counter, every mutex, which thread ran
// last (it decides what counts as a preemption only, but is kept so that keys
// are usable by the bounded search too), and the environment's own key.
func (x *Exec) stateKey() string {
	var sb strings.Builder
	for _, t := range x.threads {
		fmt.Fprintf(&sb, "T%d:%v,%d,%x,%s", t.id, t.done, t.nops, t.obs, t.pending.describe())
		if t.comp != nil {
			fmt.Fprintf(&sb, "c(%d,%v,%v)", t.comp.cas, t.comp.val, t.comp.ok)
		}
		sb.WriteByte(';')
	}
	for _, c := range x.chans {
		fmt.Fprintf(&sb, "ch%s:%d,%v,%v;", c.id, c.cap, c.closed, c.buf)
	}
	for _, w := range x.wgs {
		fmt.Fprintf(&sb, "wg%s:%d;", w.id, w.n)
	}
	for _, m := range x.mus {
		fmt.Fprintf(&sb, "mu%s:%v;", m.id, m.locked)
	}
	if x.EnvKey != nil {
		sb.WriteString(x.EnvKey())
	}
	return sb.String()
}

func (x *Exec) newID() string {
	t := x.running
	if t == nil {
		return fmt.Sprintf("g.%d", len(x.chans)+len(x.wgs)+len(x.mus))
	}
	t.nobj++
	return fmt.Sprintf("%d.%d", t.id, t.nobj)
}

// ThreadsSummary is used by harness oracles.
func (x *Exec) ThreadsSummary() string {
	var s []string
	for _, t := range x.threads {
		s = append(s, fmt.Sprintf("T%d done=%v ops=%d", t.id, t.done, t.nops))
	}
	sort.Strings(s)
	return strings.Join(s, " ")
}

func (x *Exec) NumThreads() int { return len(x.threads) }

// ---------------------------------------------------------------- channels

type chanCore struct {
	id     string
	cap    int
	buf    []any
	closed bool
}

// Chan models `chan T`.
type Chan[T any] struct{ c *chanCore }

func NewChan[T any](n int) *Chan[T] {
	if n < 0 {
		panic("makechan: size out of range")
	}
	x := cur
	c := &chanCore{cap: n}
	if x != nil {
		c.id = x.newID()
		x.chans = append(x.chans, c)
	}
	return &Chan[T]{c}
}

func (c *Chan[T]) core() *chanCore {
	if c == nil {
		return nil
	}
	return c.c
}

func doChanOp(o *op) (int, any, bool) {
	x := cur
	if x == nil || x.abort {
		return -1, nil, false
	}
	t := x.running
	if len(o.cases) == 0 && !o.hasDefault {
		// select{} blocks forever
		o.cases = []caseOp{{ch: nil}}
	}
	a := x.point(o)
	if t.comp != nil {
		c := t.comp
		t.comp = nil
		t.observe(c.val)
		return c.cas, c.val, c.ok
	}
	if a.Case < 0 {
		t.observe("default")
		return -1, nil, false
	}
	cs := o.cases[a.Case]
	ch := cs.ch
	if cs.send {
		if ch.closed {
			panic("send on closed channel")
		}
		if a.Partner >= 0 {
			u := x.threads[a.Partner]
			for i, uc := range u.pending.cases {
				if uc.ch == ch && !uc.send {
					u.comp = &completion{cas: i, val: cs.val, ok: true}
					break
				}
			}
		} else {
			ch.buf = append(ch.buf, cs.val)
		}
		t.observe(a.Case)
		return a.Case, nil, true
	}
	// receive
	if len(ch.buf) > 0 {
		v := ch.buf[0]
		ch.buf = append([]any{}, ch.buf[1:]...)
		t.observe(v)
		return a.Case, v, true
	}
	if a.Partner >= 0 {
		u := x.threads[a.Partner]
		for i, uc := range u.pending.cases {
			if uc.ch == ch && uc.send {
				u.comp = &completion{cas: i, ok: true}
				t.observe(uc.val)
				return a.Case, uc.val, true
			}
		}
	}
	// closed
	t.observe("closed")
	return a.Case, nil, false
}

func (c *Chan[T]) Send(v T) {
	doChanOp(&op{kind: opChan, cases: []caseOp{{send: true, ch: c.core(), val: v}}})
}

func (c *Chan[T]) Recv() T {
	_, v, _ := doChanOp(&op{kind: opChan, cases: []caseOp{{ch: c.core()}}})
	r, _ := v.(T)
	return r
}

func (c *Chan[T]) Recv2() (T, bool) {
	_, v, ok := doChanOp(&op{kind: opChan, cases: []caseOp{{ch: c.core()}}})
	r, _ := v.(T)
	return r, ok
}

func (c *Chan[T]) Close() {
	x := cur
	if x == nil || x.abort {
		return
	}
	if c == nil {
		panic("close of nil channel")
	}
	x.point(&op{kind: opStep, label: "close(ch" + c.c.id + ")"})
	if c.c.closed {
		panic("close of closed channel")
	}
	c.c.closed = true
}

func (c *Chan[T]) Len() int {
	if c == nil {
		return 0
	}
	n := len(c.c.buf)
	if cur != nil && cur.running != nil {
		cur.running.observe(n)
	}
	return n
}

func (c *Chan[T]) Cap() int {
	if c == nil {
		return 0
	}
	return c.c.cap
}

// Case is one communication clause of a select.
type Case struct{ c caseOp }

func SendCase[T any](c *Chan[T], v T) Case { return Case{caseOp{send: true, ch: c.core(), val: v}} }
func RecvCase[T any](c *Chan[T]) Case      { return Case{caseOp{ch: c.core()}} }

// Sel is the outcome of a select.
type Sel struct {
	Index int
	val   any
	ok    bool
}

func Select(hasDefault bool, cs ...Case) Sel {
	o := &op{kind: opChan, hasDefault: hasDefault}
	for _, c := range cs {
		o.cases = append(o.cases, c.c)
	}
	i, v, ok := doChanOp(o)
	return Sel{i, v, ok}
}

func Got[T any](s Sel) T {
	r, _ := s.val.(T)
	return r
}

func Got2[T any](s Sel) (T, bool) {
	r, _ := s.val.(T)
	return r, s.ok
}

func GotOf[T any](_ *Chan[T], s Sel) T          { return Got[T](s) }
func Got2Of[T any](_ *Chan[T], s Sel) (T, bool) { return Got2[T](s) }

// ---------------------------------------------------------------- sync

// WaitGroup models sync.WaitGroup.
type WaitGroup struct {
	id  string
	n   int
	reg bool
}

func (w *WaitGroup) register(x *Exec) {
	if !w.reg {
		w.reg = true
		w.id = x.newID()
		x.wgs = append(x.wgs, w)
	}
}

func (w *WaitGroup) Add(d int) {
	x := cur
	if x == nil || x.abort {
		return
	}
	w.register(x)
	x.point(&op{kind: opStep, label: fmt.Sprintf("add(wg%s,%d)", w.id, d)})
	w.n += d
	if w.n < 0 {
		panic("sync: negative WaitGroup counter")
	}
}

func (w *WaitGroup) Done() { w.Add(-1) }

func (w *WaitGroup) Wait() {
	x := cur
	if x == nil || x.abort {
		return
	}
	w.register(x)
	x.point(&op{kind: opWait, wg: w})
}

// Mutex models sync.Mutex.
type Mutex struct {
	id     string
	locked bool
	reg    bool
}

func (m *Mutex) register(x *Exec) {
	if !m.reg {
		m.reg = true
		m.id = x.newID()
		x.mus = append(x.mus, m)
	}
}

func (m *Mutex) Lock() {
	x := cur
	if x == nil || x.abort {
		return
	}
	m.register(x)
	x.point(&op{kind: opLock, mu: m})
	m.locked = true
}

func (m *Mutex) TryLock() bool {
	x := cur
	if x == nil || x.abort {
		return true
	}
	m.register(x)
	x.point(&op{kind: opStep, label: "trylock(mu" + m.id + ")"})
	if m.locked {
		x.running.observe(false)
		return false
	}
	m.locked = true
	x.running.observe(true)
	return true
}

func (m *Mutex) Unlock() {
	x := cur
	if x == nil || x.abort {
		return
	}
	m.register(x)
	x.point(&op{kind: opStep, label: "unlock(mu" + m.id + ")"})
	if !m.locked {
		panic("sync: unlock of unlocked mutex")
	}
	m.locked = false
}

// RWMutex is modelled as an exclusive lock (a sound over-approximation of
// blocking for readers would need reader counts; exclusive is stricter on
// progress only when two readers overlap, which the rewritten file never does).
type RWMutex struct{ Mutex }

func (m *RWMutex) RLock()   { m.Lock() }
func (m *RWMutex) RUnlock() { m.Unlock() }

// Once models sync.Once.
type Once struct {
	m    Mutex
	done bool
}

func (o *Once) Do(f func()) {
	o.m.Lock()
	defer o.m.Unlock()
	if !o.done {
		o.done = true
		f()
	}
}

// Locker mirrors sync.Locker so that `sync.Locker` keeps compiling after the import swap.
type Locker interface {
	Lock()
	Unlock()
}

// Go models the go statement: the child exists from now on and its first step
// ("start") is an operation the scheduler may order freely.
func Go(f func()) {
	x := cur
	if x == nil {
		go f()
		return
	}
	if x.abort {
		return
	}
	x.spawn(f)
}

// Point is an environment scheduling point (entry of PostProcess / of the write
// callback); the label becomes part of what the thread has observed.
func Point(label string) {
	x := cur
	if x == nil || x.abort {
		return
	}
	x.point(&op{kind: opStep, label: label})
	x.running.observe(label)
}

// Active reports whether a controlled execution is running.
func Active() bool { return cur != nil }
