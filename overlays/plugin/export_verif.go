//go:build verif

package plugin

import "github.com/cloudwego/thriftgo/parser"

// VerifMarshalCompressed performs the steps external.Execute performs for a
// plugin that understands the data trailer: compress the includes, marshal,
// revert the compression on the compiler's own AST, append the trailer.
func VerifMarshalCompressed(req *Request) ([]byte, error) {
	m := map[string]*parser.Thrift{}
	compressThriftInclude(req.AST, m)
	data, err := MarshalRequest(req)
	decompressThriftInclude(req.AST, m)
	if err != nil {
		return nil, err
	}
	return appendDataTrailer(data, featureCompressInclude), nil
}

// VerifSupportsTrailer exposes the version gate.
func VerifSupportsTrailer(v string) bool { return supportDataTrailer(v) }
