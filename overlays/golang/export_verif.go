//go:build verif

// Injected with `go build -overlay` by /verif; never part of the repository.
package golang

import "sort"

// VerifImportReplace exports the private import-replacement table, sorted.
func (cu *CodeUtils) VerifImportReplace() [][2]string {
	var r [][2]string
	for k, v := range cu.importReplace {
		r = append(r, [2]string{k, v})
	}
	sort.Slice(r, func(i, j int) bool { return r[i][0] < r[j][0] })
	return r
}
