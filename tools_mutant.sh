#!/bin/bash
# usage: tools_mutant.sh <dir with patch.diff demo.sh meta.json> <property id> [tier]
# 1. confirms the mutant in a scratch worktree of /repo HEAD (outside /repo and /verif):
#    patch applies, repository builds, its test suite passes, demo.sh fails with the patch
#    and passes without;
# 2. applies the patch to /repo, runs ./check <id> <tier>, undoes the patch straight afterwards;
# prints one JSON line with the outcome.
set -u
export GOFLAGS=-mod=mod GOPROXY=off GOSUMDB=off GOTOOLCHAIN=local
dir=$(cd "$1" && pwd); id="$2"; tier="${3:-quick}"
wt=$(mktemp -d /tmp/mutwt-XXXXXX); rmdir "$wt"
git -C /repo worktree add -q --detach "$wt" HEAD || { echo "{\"dir\":\"$dir\",\"error\":\"worktree\"}"; exit 2; }
cleanup() { git -C /repo worktree remove --force "$wt" >/dev/null 2>&1; rm -rf "$wt"; }
trap cleanup EXIT
applies=false; suite=false; demo_with=unknown; demo_without=unknown
if git -C "$wt" apply "$dir/patch.diff" 2>/dev/null; then
  applies=true
  if (cd "$wt" && go build ./... && go test -count=1 ./... ) >"$wt/.suite.log" 2>&1; then suite=true; fi
  if [ -f "$dir/demo.sh" ]; then
    if (cd "$dir" && bash ./demo.sh "$wt") >"$wt/.demo1.log" 2>&1; then demo_with=pass; else demo_with=fail; fi
    git -C "$wt" checkout -q -- . ; git -C "$wt" clean -fdq -e .suite.log -e .demo1.log
    if (cd "$dir" && bash ./demo.sh "$wt") >"$wt/.demo2.log" 2>&1; then demo_without=pass; else demo_without=fail; fi
  fi
fi
check_exit=-1; classes=""
if $applies; then
  if [ -n "$(git -C /repo status --porcelain)" ]; then echo "{\"dir\":\"$dir\",\"error\":\"/repo not clean\"}"; exit 2; fi
  git -C /repo apply "$dir/patch.diff"
  out=$(cd /verif && ./check "$id" "$tier" 2>&1); check_exit=$?
  git -C /repo checkout -q -- . ; git -C /repo clean -fdq
  classes=$(echo "$out" | grep -o "class=[^ ]*" | sort -u | head -5 | tr '\n' ' ')
  echo "$out" | tail -3 > "/tmp/mutant-$(basename $(dirname $dir))-$(basename $dir).log"
fi
printf '{"dir":"%s","property":"%s","tier":"%s","applies":%s,"suite_passes":%s,"demo_with_patch":"%s","demo_without_patch":"%s","check_exit":%d,"classes":"%s"}\n' "$dir" "$id" "$tier" $applies $suite "$demo_with" "$demo_without" $check_exit "$(echo $classes | sed 's/"/\\"/g')"
