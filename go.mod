module verif

go 1.22.0

toolchain go1.23.5

require (
	github.com/apache/thrift v0.13.0
	github.com/cloudwego/gopkg v0.2.0
	github.com/cloudwego/thriftgo v0.0.0
	golang.org/x/tools v0.29.0
)

require github.com/bytedance/gopkg v0.1.4 // indirect

replace github.com/cloudwego/thriftgo => /repo
