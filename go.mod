module verif

go 1.22.0

toolchain go1.23.5

require (
	github.com/apache/thrift v0.13.0
	github.com/cloudwego/gopkg v0.2.0
	github.com/cloudwego/thriftgo v0.0.0
	golang.org/x/tools v0.29.0
)

require (
	github.com/bytedance/gopkg v0.1.4 // indirect
	github.com/dlclark/regexp2 v1.11.0 // indirect
	golang.org/x/mod v0.22.0 // indirect
	golang.org/x/sync v0.11.0 // indirect
	golang.org/x/text v0.14.0 // indirect
	gopkg.in/yaml.v3 v3.0.1 // indirect
)

replace github.com/cloudwego/thriftgo => /repo

replace golang.org/x/sync v0.11.0 => golang.org/x/sync v0.10.0
