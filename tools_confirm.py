#!/usr/bin/env python3
# usage: tools_confirm.py <file with JSON lines printed by tools_mutant.sh> [first_attempt_detected=false for dirs listed after --missed]
# writes the "confirmed" block into seeded/<id>/meta.json
import json, sys, os
lines=[l for l in open(sys.argv[1]) if l.startswith('{')]
missed=set(sys.argv[3:]) if len(sys.argv)>2 and sys.argv[2]=='--missed' else set()
for l in lines:
    r=json.loads(l)
    d=r['dir']; mp=os.path.join(d,'meta.json')
    try: m=json.load(open(mp))
    except Exception: m={}
    m.setdefault('breaks_property', r.get('property'))
    m['confirmed']={"how":"tools_mutant.sh: scratch worktree of /repo HEAD: git apply; go build ./... && go test -count=1 ./...; demo.sh with and without the patch; then patch applied to /repo, ./check %s %s, patch undone"%(r.get('property'),r.get('tier')),
      "patch_applies":r.get('applies'),"repo_suite_passes_with_patch":r.get('suite_passes'),"demo_with_patch":r.get('demo_with_patch'),"demo_without_patch":r.get('demo_without_patch'),
      "check_detects":r.get('check_exit')==1,"violation_classes":r.get('classes',''),"first_attempt_detected": os.path.basename(d) not in missed and r.get('check_exit')==1}
    json.dump(m,open(mp,'w'),indent=1,ensure_ascii=False)
    print(os.path.basename(d), m['confirmed']['check_detects'], m['confirmed']['first_attempt_detected'])
