// vrender writes the interplay program to a directory (debug helper).
package main

import (
	"fmt"
	"os"
	"path/filepath"

	"verif/internal/docs"
)

func main() {
	dir := os.Args[1]
	for p, t := range docs.Texts(docs.Interplay().Prog) {
		_ = os.MkdirAll(filepath.Dir(filepath.Join(dir, p)), 0o755)
		_ = os.WriteFile(filepath.Join(dir, p), []byte(t), 0o644)
		fmt.Println(p)
	}
}
