#!/bin/bash
# Offline setup: warm the Go build cache for every harness so that the first
# check does not pay the cold-build cost. Builds from files on disk only.
export GOFLAGS=-mod=mod GOPROXY=off GOSUMDB=off GOTOOLCHAIN=local
cd /verif || exit 1
go build -o /dev/null /repo 2>&1 | tail -3
for d in checks/*/; do
  id=$(basename "$d")
  ov=()
  [ -f "$d/overlay.json" ] && ov=(-overlay "$d/overlay.json")
  [ -x "$d/overlay.sh" ] && continue
  go build -tags verif "${ov[@]}" -o /dev/null "./$d" 2>&1 | tail -3
done
exit 0
