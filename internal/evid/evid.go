// Package evid is the reporting side of every check: it collects what a run
// covered, classifies violations against /verif/known_findings.json, writes
// replay files and /verif/evidence/<id>.json, and sets the exit status.
//
// Contract (from the task brief):
//   - exit 0 when the property held on everything explored;
//   - exit 1 and a line "VIOLATION property=<id> replay=<path>" otherwise;
//   - "KNOWN-FINDING: property=<id> <what>" (exit 0) for listed findings;
//   - exit 3 (no VIOLATION line) for harness errors.
package evid

import (
	"crypto/sha256"
	"encoding/binary"
	"encoding/json"
	"flag"
	"fmt"
	"os"
	"path/filepath"
	"sort"
	"strconv"
	"sync"
	"time"
)

const Root = "/verif"

// Violation is one failing element of the explored space.
type Violation struct {
	// Class identifies the failing call site / input shape; it is what
	// known_findings.json is matched against. It must be specific: a
	// different defect of the same property must get a different class.
	Class string `json:"class"`
	// What is a one-line human description.
	What string `json:"what"`
	// Replay holds everything needed to re-run this one element.
	Replay any `json:"replay"`
}

type finding struct {
	Property string `json:"property"`
	Class    string `json:"class"`
	What     string `json:"what"`
}

type findingsFile struct {
	Findings []finding        `json:"findings"`
	Fixed    []map[string]any `json:"fixed"`
}

// Run is one execution of one check.
type Run struct {
	ID    string
	Tier  string
	Seed  int64
	Level string

	mu           sync.Mutex
	start        time.Time
	cov          map[string]any
	assumptions  []string
	viol         []Violation
	violCount    map[string]int
	distinct     map[[16]byte]struct{}
	evals        int64
	bulkDistinct int64
	samples      []any
	maxSamples   int
	exhaustive   bool
	notes        []string
	deadline     time.Time
}

// New parses the common flags (-tier) and environment (VERIF_TIER, VERIF_SEED).
func New(id, level string) *Run {
	tier := flag.String("tier", "", "quick|thorough")
	budget := flag.Duration("budget", 0, "soft time budget for the exploration (0 = per-tier default)")
	if !flag.Parsed() {
		flag.Parse()
	}
	t := *tier
	if t == "" {
		t = os.Getenv("VERIF_TIER")
	}
	if t != "thorough" {
		t = "quick"
	}
	seed, _ := strconv.ParseInt(os.Getenv("VERIF_SEED"), 10, 64)
	r := &Run{ID: id, Tier: t, Seed: seed, Level: level, start: time.Now(),
		cov: map[string]any{}, violCount: map[string]int{}, distinct: map[[16]byte]struct{}{},
		maxSamples: 6, exhaustive: true}
	if *budget > 0 {
		r.deadline = r.start.Add(*budget)
	}
	return r
}

func (r *Run) Quick() bool    { return r.Tier == "quick" }
func (r *Run) Thorough() bool { return r.Tier == "thorough" }

// SetBudget sets a soft deadline unless -budget was given. Checks poll
// OverBudget at coarse points; running out of budget is never a violation, it
// ends the run with exhaustive:false.
func (r *Run) SetBudget(d time.Duration) {
	if r.deadline.IsZero() {
		r.deadline = r.start.Add(d)
	}
}

func (r *Run) OverBudget() bool {
	if r.deadline.IsZero() {
		return false
	}
	if time.Now().After(r.deadline) {
		r.mu.Lock()
		if r.exhaustive {
			r.exhaustive = false
			r.notes = append(r.notes, "time budget reached; coverage below is what was completed")
		}
		r.mu.Unlock()
		return true
	}
	return false
}

// Eval counts one evaluation. key identifies the case; nontrivial says
// whether it is non-trivial by the check's stated rule. Distinctness is
// measured on a hash of key.
func (r *Run) Eval(key string, nontrivial bool) {
	r.mu.Lock()
	r.evals++
	if nontrivial {
		h := sha256.Sum256([]byte(key))
		var k [16]byte
		copy(k[:], h[:16])
		r.distinct[k] = struct{}{}
	}
	r.mu.Unlock()
}

// EvalN adds n evaluations that are pairwise distinct by construction (an
// enumerator that never repeats an element) of which nt are non-trivial; used
// where hashing tens of millions of keys would dominate the run.
func (r *Run) EvalN(prefix string, n, nt int64) {
	r.mu.Lock()
	r.evals += n
	r.bulkDistinct += nt
	_ = prefix
	r.mu.Unlock()
}

func (r *Run) Sample(s any) {
	r.mu.Lock()
	if len(r.samples) < r.maxSamples {
		r.samples = append(r.samples, s)
	}
	r.mu.Unlock()
}

func (r *Run) Set(k string, v any) {
	r.mu.Lock()
	r.cov[k] = v
	r.mu.Unlock()
}

func (r *Run) Add(k string, n int64) {
	r.mu.Lock()
	cur, _ := r.cov[k].(int64)
	r.cov[k] = cur + n
	r.mu.Unlock()
}

func (r *Run) Assume(s string) { r.mu.Lock(); r.assumptions = append(r.assumptions, s); r.mu.Unlock() }
func (r *Run) Note(s string)   { r.mu.Lock(); r.notes = append(r.notes, s); r.mu.Unlock() }

// NotExhaustive records that a stated space was not fully covered.
func (r *Run) NotExhaustive(why string) {
	r.mu.Lock()
	r.exhaustive = false
	r.notes = append(r.notes, why)
	r.mu.Unlock()
}

// Violate records a violation. Only the first few of each class keep their
// replay payload.
func (r *Run) Violate(v Violation) {
	r.mu.Lock()
	r.violCount[v.Class]++
	if r.violCount[v.Class] <= 3 {
		r.viol = append(r.viol, v)
	}
	r.mu.Unlock()
}

func (r *Run) ViolationCount() int {
	r.mu.Lock()
	defer r.mu.Unlock()
	n := 0
	for _, c := range r.violCount {
		n += c
	}
	return n
}

// Fatal reports a harness error: exit 3, never a VIOLATION line.
func (r *Run) Fatal(format string, a ...any) {
	fmt.Fprintf(os.Stderr, "HARNESS-ERROR property=%s: %s\n", r.ID, fmt.Sprintf(format, a...))
	os.Exit(3)
}

func loadFindings() findingsFile {
	var ff findingsFile
	b, err := os.ReadFile(filepath.Join(Root, "known_findings.json"))
	if err == nil {
		_ = json.Unmarshal(b, &ff)
	}
	return ff
}

// Finish writes evidence, prints VIOLATION / KNOWN-FINDING lines and exits.
func (r *Run) Finish() {
	r.mu.Lock()
	defer r.mu.Unlock()
	ff := loadFindings()
	known := map[string]finding{}
	for _, f := range ff.Findings {
		if f.Property == r.ID {
			known[f.Class] = f
		}
	}
	classes := make([]string, 0, len(r.violCount))
	for c := range r.violCount {
		classes = append(classes, c)
	}
	sort.Strings(classes)
	newViol := 0
	knownHit := map[string]int{}
	printed := map[string]bool{}
	replayDir := filepath.Join(Root, "replays", r.ID)
	n := 0
	for _, c := range classes {
		if f, ok := known[c]; ok {
			knownHit[c] = r.violCount[c]
			fmt.Printf("KNOWN-FINDING: property=%s %s [class=%s, %d element(s) this run]\n", r.ID, f.What, c, r.violCount[c])
			continue
		}
		newViol += r.violCount[c]
	}
	for _, v := range r.viol {
		if _, ok := known[v.Class]; ok {
			continue
		}
		if printed[v.Class] {
			continue
		}
		printed[v.Class] = true
		_ = os.MkdirAll(replayDir, 0o755)
		p := filepath.Join(replayDir, fmt.Sprintf("%s-%d.json", r.Tier, n))
		n++
		b, _ := json.MarshalIndent(map[string]any{"property": r.ID, "class": v.Class, "what": v.What, "count_in_run": r.violCount[v.Class], "replay": v.Replay}, "", " ")
		_ = os.WriteFile(p, b, 0o644)
		fmt.Printf("VIOLATION property=%s replay=%s\n", r.ID, p)
		fmt.Printf("  class=%s count=%d: %s\n", v.Class, r.violCount[v.Class], v.What)
	}

	cov := r.cov
	cov["evaluations"] = r.evals
	cov["distinct_nontrivial"] = int64(len(r.distinct)) + r.bulkDistinct
	cov["samples"] = r.samples
	cov["exhaustive"] = r.exhaustive
	if len(r.notes) > 0 {
		cov["notes"] = r.notes
	}
	if len(knownHit) > 0 {
		cov["known_findings_hit"] = knownHit
	}
	ev := map[string]any{
		"property_id": r.ID,
		"tier":        r.Tier,
		"seed":        r.Seed,
		"level":       r.Level,
		"coverage":    cov,
		"assumptions": r.assumptions,
		"wall_s":      time.Since(r.start).Seconds(),
		"violations":  newViol,
	}
	if r.assumptions == nil {
		ev["assumptions"] = []string{}
	}
	b, err := json.MarshalIndent(ev, "", " ")
	if err != nil {
		fmt.Fprintf(os.Stderr, "HARNESS-ERROR property=%s: evidence: %v\n", r.ID, err)
		os.Exit(3)
	}
	_ = os.MkdirAll(filepath.Join(Root, "evidence"), 0o755)
	if err := os.WriteFile(filepath.Join(Root, "evidence", r.ID+".json"), append(b, '\n'), 0o644); err != nil {
		fmt.Fprintf(os.Stderr, "HARNESS-ERROR property=%s: evidence: %v\n", r.ID, err)
		os.Exit(3)
	}
	fmt.Printf("%s %s: evaluations=%d distinct_nontrivial=%d exhaustive=%v violations=%d known=%d wall=%.1fs\n",
		r.ID, r.Tier, r.evals, int64(len(r.distinct))+r.bulkDistinct, r.exhaustive, newViol, len(knownHit), time.Since(r.start).Seconds())
	if newViol > 0 {
		os.Exit(1)
	}
	os.Exit(0)
}

// Hash64 is a helper for state keys.
func Hash64(b []byte) uint64 {
	h := sha256.Sum256(b)
	return binary.LittleEndian.Uint64(h[:8])
}
