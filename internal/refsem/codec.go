package refsem

import (
	"encoding/binary"
	"errors"
	"fmt"
	"math"
	"strconv"

	"verif/internal/idl"
)

// Thrift binary protocol, from the specification:
//
//	field := type:u8 id:i16 body ; struct := field* 0x00
//	bool 1 byte, byte 1, i16/i32/i64 big endian, double IEEE-754 BE,
//	string/binary len:i32 bytes, list/set elem:u8 n:i32 body*n,
//	map k:u8 v:u8 n:i32 (k v)*n, enum = i32
const (
	TStop   = 0
	TBool   = 2
	TByte   = 3
	TDouble = 4
	TI16    = 6
	TI32    = 8
	TI64    = 10
	TString = 11
	TStruct = 12
	TMap    = 13
	TSet    = 14
	TList   = 15
)

// WireType of an IDL type.
func WireType(t *idl.Type) byte {
	t = t.Final()
	switch t.Kind {
	case idl.Bool:
		return TBool
	case idl.Byte:
		return TByte
	case idl.I16:
		return TI16
	case idl.I32, idl.EnumK:
		return TI32
	case idl.I64:
		return TI64
	case idl.Double:
		return TDouble
	case idl.String, idl.Binary:
		return TString
	case idl.List:
		return TList
	case idl.Set:
		return TSet
	case idl.Map:
		return TMap
	case idl.StructK:
		return TStruct
	}
	panic(fmt.Sprintf("refsem: no wire type for kind %d", t.Kind))
}

// FieldIDs resolves implicit ids: previous+1 starting at 1.
func FieldIDs(fs []*idl.Field) []int32 {
	out := make([]int32, len(fs))
	prev := int32(0)
	for i, f := range fs {
		id := prev + 1
		if f.ExplicitID {
			id = f.ID
		}
		out[i] = id
		prev = id
	}
	return out
}

// Encode writes v as a value of type t (not a field).
func Encode(buf []byte, t *idl.Type, v *Val) []byte {
	t = t.Final()
	switch t.Kind {
	case idl.Bool:
		if v.B {
			return append(buf, 1)
		}
		return append(buf, 0)
	case idl.Byte:
		return append(buf, byte(int8(v.Int64())))
	case idl.I16:
		return binary.BigEndian.AppendUint16(buf, uint16(int16(v.Int64())))
	case idl.I32, idl.EnumK:
		return binary.BigEndian.AppendUint32(buf, uint32(int32(v.Int64())))
	case idl.I64:
		return binary.BigEndian.AppendUint64(buf, uint64(v.Int64()))
	case idl.Double:
		return binary.BigEndian.AppendUint64(buf, math.Float64bits(v.Float()))
	case idl.String, idl.Binary:
		b := v.Bytes()
		buf = binary.BigEndian.AppendUint32(buf, uint32(len(b)))
		return append(buf, b...)
	case idl.List, idl.Set:
		buf = append(buf, WireType(t.Elem))
		n := 0
		if v != nil && v.T == "l" {
			n = len(v.L)
		}
		buf = binary.BigEndian.AppendUint32(buf, uint32(n))
		for i := 0; i < n; i++ {
			buf = Encode(buf, t.Elem, v.L[i])
		}
		return buf
	case idl.Map:
		buf = append(buf, WireType(t.Key), WireType(t.Elem))
		n := 0
		if v != nil && v.T == "m" {
			n = len(v.M)
		}
		buf = binary.BigEndian.AppendUint32(buf, uint32(n))
		for i := 0; i < n; i++ {
			buf = Encode(buf, t.Key, v.M[i][0])
			buf = Encode(buf, t.Elem, v.M[i][1])
		}
		return buf
	case idl.StructK:
		return EncodeStruct(buf, t.Struct.Fields, v)
	}
	panic("refsem: encode of unsupported kind")
}

// EncodeStruct writes the fields present in v (ascending declaration order)
// followed by STOP. Presence is decided by the caller (see Canon).
func EncodeStruct(buf []byte, fs []*idl.Field, v *Val) []byte {
	ids := FieldIDs(fs)
	for i, f := range fs {
		fv := v.Get(ids[i])
		if fv == nil {
			continue
		}
		if fv.T == "n" && f.Req == idl.ReqOptional {
			continue // an optional field holding nil is unset
		}
		buf = append(buf, WireType(f.Type))
		buf = binary.BigEndian.AppendUint16(buf, uint16(int16(ids[i])))
		buf = Encode(buf, f.Type, fv)
	}
	return append(buf, TStop)
}

// Unknown is a field the schema does not know (or knows with another wire type).
type Unknown struct {
	ID   int16
	Type byte
	Raw  []byte // the field body
}

var ErrShort = errors.New("refsem: truncated input")

type dec struct {
	b   []byte
	pos int
}

func (d *dec) need(n int) error {
	if n < 0 || d.pos+n > len(d.b) {
		return ErrShort
	}
	return nil
}

func (d *dec) u8() (byte, error) {
	if err := d.need(1); err != nil {
		return 0, err
	}
	d.pos++
	return d.b[d.pos-1], nil
}
func (d *dec) u16() (uint16, error) {
	if err := d.need(2); err != nil {
		return 0, err
	}
	d.pos += 2
	return binary.BigEndian.Uint16(d.b[d.pos-2:]), nil
}
func (d *dec) u32() (uint32, error) {
	if err := d.need(4); err != nil {
		return 0, err
	}
	d.pos += 4
	return binary.BigEndian.Uint32(d.b[d.pos-4:]), nil
}
func (d *dec) u64() (uint64, error) {
	if err := d.need(8); err != nil {
		return 0, err
	}
	d.pos += 8
	return binary.BigEndian.Uint64(d.b[d.pos-8:]), nil
}

// skip consumes one value of wire type w, checking well-formedness.
func (d *dec) skip(w byte, depth int) error {
	if depth > 64 {
		return errors.New("refsem: nesting too deep")
	}
	switch w {
	case TBool, TByte:
		_, err := d.u8()
		return err
	case TI16:
		_, err := d.u16()
		return err
	case TI32:
		_, err := d.u32()
		return err
	case TI64, TDouble:
		_, err := d.u64()
		return err
	case TString:
		n, err := d.u32()
		if err != nil {
			return err
		}
		if err := d.need(int(int32(n))); err != nil {
			return err
		}
		d.pos += int(n)
		return nil
	case TStruct:
		for {
			t, err := d.u8()
			if err != nil {
				return err
			}
			if t == TStop {
				return nil
			}
			if _, err := d.u16(); err != nil {
				return err
			}
			if err := d.skip(t, depth+1); err != nil {
				return err
			}
		}
	case TList, TSet:
		et, err := d.u8()
		if err != nil {
			return err
		}
		n, err := d.u32()
		if err != nil {
			return err
		}
		if int32(n) < 0 {
			return errors.New("refsem: negative count")
		}
		for i := 0; i < int(n); i++ {
			if err := d.skip(et, depth+1); err != nil {
				return err
			}
		}
		return nil
	case TMap:
		kt, err := d.u8()
		if err != nil {
			return err
		}
		vt, err := d.u8()
		if err != nil {
			return err
		}
		n, err := d.u32()
		if err != nil {
			return err
		}
		if int32(n) < 0 {
			return errors.New("refsem: negative count")
		}
		for i := 0; i < int(n); i++ {
			if err := d.skip(kt, depth+1); err != nil {
				return err
			}
			if err := d.skip(vt, depth+1); err != nil {
				return err
			}
		}
		return nil
	}
	return fmt.Errorf("refsem: invalid wire type %d", w)
}

// WellFormed: b is exactly one struct encoding (every container count equals
// the elements that follow, STOP present, nothing trailing).
func WellFormed(b []byte) error {
	d := &dec{b: b}
	if err := d.skip(TStruct, 0); err != nil {
		return err
	}
	if d.pos != len(b) {
		return fmt.Errorf("refsem: %d trailing bytes", len(b)-d.pos)
	}
	return nil
}

func (d *dec) value(t *idl.Type, depth int) (*Val, error) {
	t = t.Final()
	switch t.Kind {
	case idl.Bool:
		x, err := d.u8()
		return Bool(x != 0), err
	case idl.Byte:
		x, err := d.u8()
		return Int(int64(int8(x))), err
	case idl.I16:
		x, err := d.u16()
		return Int(int64(int16(x))), err
	case idl.I32, idl.EnumK:
		x, err := d.u32()
		return Int(int64(int32(x))), err
	case idl.I64:
		x, err := d.u64()
		return Int(int64(x)), err
	case idl.Double:
		x, err := d.u64()
		return &Val{T: "d", D: strconv.FormatUint(x, 16)}, err
	case idl.String, idl.Binary:
		n, err := d.u32()
		if err != nil {
			return nil, err
		}
		if err := d.need(int(int32(n))); err != nil {
			return nil, err
		}
		s := string(d.b[d.pos : d.pos+int(n)])
		d.pos += int(n)
		return Str(s), nil
	case idl.List, idl.Set:
		et, err := d.u8()
		if err != nil {
			return nil, err
		}
		n, err := d.u32()
		if err != nil {
			return nil, err
		}
		if int32(n) < 0 {
			return nil, errors.New("refsem: negative count")
		}
		if et != WireType(t.Elem) && n > 0 {
			return nil, fmt.Errorf("refsem: element wire type %d, schema says %d", et, WireType(t.Elem))
		}
		out := List()
		for i := 0; i < int(n); i++ {
			e, err := d.value(t.Elem, depth+1)
			if err != nil {
				return nil, err
			}
			out.L = append(out.L, e)
		}
		return out, nil
	case idl.Map:
		kt, err := d.u8()
		if err != nil {
			return nil, err
		}
		vt, err := d.u8()
		if err != nil {
			return nil, err
		}
		n, err := d.u32()
		if err != nil {
			return nil, err
		}
		if int32(n) < 0 {
			return nil, errors.New("refsem: negative count")
		}
		if n > 0 && (kt != WireType(t.Key) || vt != WireType(t.Elem)) {
			return nil, fmt.Errorf("refsem: map wire types %d/%d, schema says %d/%d", kt, vt, WireType(t.Key), WireType(t.Elem))
		}
		out := Map()
		for i := 0; i < int(n); i++ {
			k, err := d.value(t.Key, depth+1)
			if err != nil {
				return nil, err
			}
			v, err := d.value(t.Elem, depth+1)
			if err != nil {
				return nil, err
			}
			out.M = append(out.M, [2]*Val{k, v})
		}
		return out, nil
	case idl.StructK:
		v, _, err := d.structure(t.Struct.Fields, depth+1)
		return v, err
	}
	return nil, errors.New("refsem: decode of unsupported kind")
}

func (d *dec) structure(fs []*idl.Field, depth int) (*Val, []Unknown, error) {
	if depth > 64 {
		return nil, nil, errors.New("refsem: nesting too deep")
	}
	ids := FieldIDs(fs)
	out := Obj()
	var unk []Unknown
	for {
		t, err := d.u8()
		if err != nil {
			return nil, nil, err
		}
		if t == TStop {
			return out, unk, nil
		}
		id, err := d.u16()
		if err != nil {
			return nil, nil, err
		}
		var f *idl.Field
		for i := range fs {
			if ids[i] == int32(int16(id)) {
				f = fs[i]
			}
		}
		if f == nil || WireType(f.Type) != t {
			start := d.pos
			if err := d.skip(t, depth); err != nil {
				return nil, nil, err
			}
			unk = append(unk, Unknown{ID: int16(id), Type: t, Raw: append([]byte{}, d.b[start:d.pos]...)})
			continue
		}
		v, err := d.value(f.Type, depth)
		if err != nil {
			return nil, nil, err
		}
		if out.Get(int32(int16(id))) != nil {
			return nil, nil, fmt.Errorf("refsem: field %d encoded twice", int16(id))
		}
		out.Set(int32(int16(id)), v)
	}
}

// DecodeStruct decodes exactly one struct; unknown / mistyped fields are
// returned separately.
func DecodeStruct(fs []*idl.Field, b []byte) (*Val, []Unknown, error) {
	d := &dec{b: b}
	v, unk, err := d.structure(fs, 0)
	if err != nil {
		return nil, nil, err
	}
	if d.pos != len(b) {
		return nil, nil, fmt.Errorf("refsem: %d trailing bytes", len(b)-d.pos)
	}
	return v, unk, nil
}

// TypeByteOffsets lists the offsets of all wire-type bytes in a well-formed
// struct encoding (field types, container element/key/value types).
func TypeByteOffsets(b []byte) []int {
	var offs []int
	d := &dec{b: b}
	var walk func(w byte) bool
	walk = func(w byte) bool {
		switch w {
		case TStruct:
			for {
				offs = append(offs, d.pos)
				t, err := d.u8()
				if err != nil {
					return false
				}
				if t == TStop {
					offs = offs[:len(offs)-1]
					return true
				}
				if _, err := d.u16(); err != nil {
					return false
				}
				if !walk(t) {
					return false
				}
			}
		case TList, TSet:
			offs = append(offs, d.pos)
			et, err := d.u8()
			if err != nil {
				return false
			}
			n, err := d.u32()
			if err != nil {
				return false
			}
			for i := 0; i < int(n); i++ {
				if !walk(et) {
					return false
				}
			}
			return true
		case TMap:
			offs = append(offs, d.pos, d.pos+1)
			kt, err := d.u8()
			if err != nil {
				return false
			}
			vt, err := d.u8()
			if err != nil {
				return false
			}
			n, err := d.u32()
			if err != nil {
				return false
			}
			for i := 0; i < int(n); i++ {
				if !walk(kt) || !walk(vt) {
					return false
				}
			}
			return true
		default:
			return d.skip(w, 0) == nil
		}
	}
	walk(TStruct)
	return offs
}
