// Package refsem is the reference semantics used as oracle by the
// generate-compile-run checks: model values, the Thrift binary protocol
// (written from the protocol specification), constant evaluation by the IDL's
// own rules, and small total value domains per type. It shares no code with
// thriftgo.
package refsem

import (
	"encoding/hex"
	"fmt"
	"math"
	"sort"
	"strconv"
	"strings"
)

// Val is a model value, also the JSON transport format to the driver.
//
//	T = "b" bool | "i" integer (any width, enums) | "d" double | "s" string/binary
//	    "l" list or set | "m" map | "o" struct-like | "n" nil container / nil pointer
type Val struct {
	T string          `json:"t"`
	B bool            `json:"b,omitempty"`
	I string          `json:"i,omitempty"` // decimal
	D string          `json:"d,omitempty"` // IEEE-754 bits, hex
	S string          `json:"s,omitempty"` // bytes, hex
	L []*Val          `json:"l,omitempty"`
	M [][2]*Val       `json:"m,omitempty"`
	O map[string]*Val `json:"o,omitempty"` // field id (decimal) -> value; absent = unset
}

func Bool(b bool) *Val     { return &Val{T: "b", B: b} }
func Int(i int64) *Val     { return &Val{T: "i", I: strconv.FormatInt(i, 10)} }
func Dbl(d float64) *Val   { return &Val{T: "d", D: strconv.FormatUint(math.Float64bits(d), 16)} }
func Str(s string) *Val    { return &Val{T: "s", S: hex.EncodeToString([]byte(s))} }
func Nil() *Val            { return &Val{T: "n"} }
func List(vs ...*Val) *Val { return &Val{T: "l", L: append([]*Val{}, vs...)} }
func Map(kv ...[2]*Val) *Val {
	return &Val{T: "m", M: append([][2]*Val{}, kv...)}
}
func Obj() *Val { return &Val{T: "o", O: map[string]*Val{}} }
func (v *Val) Set(id int32, f *Val) *Val {
	v.O[strconv.Itoa(int(id))] = f
	return v
}
func (v *Val) Get(id int32) *Val {
	if v == nil || v.O == nil {
		return nil
	}
	return v.O[strconv.Itoa(int(id))]
}

func (v *Val) Int64() int64 {
	i, _ := strconv.ParseInt(v.I, 10, 64)
	return i
}
func (v *Val) Float() float64 {
	u, _ := strconv.ParseUint(v.D, 16, 64)
	return math.Float64frombits(u)
}
func (v *Val) Bytes() []byte {
	b, _ := hex.DecodeString(v.S)
	return b
}

// IsNilish: nil, or an empty container.
func (v *Val) IsNilish() bool {
	return v == nil || v.T == "n" || (v.T == "l" && len(v.L) == 0) || (v.T == "m" && len(v.M) == 0)
}

// Key is a canonical text of the value; map entries are sorted, so two maps
// with the same entries have the same key. nilEmpty makes nil and empty
// containers equal.
func (v *Val) Key(nilEmpty bool) string {
	var sb strings.Builder
	v.key(&sb, nilEmpty)
	return sb.String()
}

func (v *Val) key(sb *strings.Builder, ne bool) {
	if v == nil {
		sb.WriteString("<unset>")
		return
	}
	switch v.T {
	case "n":
		if ne {
			sb.WriteString("[]")
		} else {
			sb.WriteString("nil")
		}
	case "b":
		fmt.Fprintf(sb, "%v", v.B)
	case "i":
		sb.WriteString("i" + v.I)
	case "d":
		f := v.Float()
		if f != f {
			sb.WriteString("dNaN")
		} else {
			sb.WriteString("d" + v.D)
		}
	case "s":
		sb.WriteString("s" + v.S)
	case "l":
		if ne && len(v.L) == 0 {
			sb.WriteString("[]")
			return
		}
		sb.WriteString("[")
		for _, e := range v.L {
			e.key(sb, ne)
			sb.WriteString(",")
		}
		sb.WriteString("]")
	case "m":
		if ne && len(v.M) == 0 {
			sb.WriteString("[]")
			return
		}
		ents := make([]string, len(v.M))
		for i, kv := range v.M {
			var e strings.Builder
			kv[0].key(&e, ne)
			e.WriteString(":")
			kv[1].key(&e, ne)
			ents[i] = e.String()
		}
		sort.Strings(ents)
		sb.WriteString("{" + strings.Join(ents, ",") + "}")
	case "o":
		ids := make([]int, 0, len(v.O))
		for k := range v.O {
			i, _ := strconv.Atoi(k)
			ids = append(ids, i)
		}
		sort.Ints(ids)
		sb.WriteString("(")
		for _, id := range ids {
			f := v.O[strconv.Itoa(id)]
			if f == nil {
				continue
			}
			fmt.Fprintf(sb, "%d=", id)
			f.key(sb, ne)
			sb.WriteString(";")
		}
		sb.WriteString(")")
	}
}

func (v *Val) String() string { return v.Key(false) }

// Clone deep-copies a value.
func (v *Val) Clone() *Val {
	if v == nil {
		return nil
	}
	c := *v
	if v.L != nil {
		c.L = make([]*Val, len(v.L))
		for i, e := range v.L {
			c.L[i] = e.Clone()
		}
	}
	if v.M != nil {
		c.M = make([][2]*Val, len(v.M))
		for i, kv := range v.M {
			c.M[i] = [2]*Val{kv[0].Clone(), kv[1].Clone()}
		}
	}
	if v.O != nil {
		c.O = map[string]*Val{}
		for k, f := range v.O {
			c.O[k] = f.Clone()
		}
	}
	return &c
}
