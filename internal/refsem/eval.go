package refsem

import (
	"fmt"
	"math"
	"strconv"
	"strings"

	"verif/internal/idl"
)

// LitString gives the run-time string a literal denotes: "literals are copied
// to the generated code with only the delimiters they use unescaped"
// (docs/string-literals-in-the-IDL.md), i.e. the AST-level text is the body
// of a Go interpreted string literal.
func LitString(astText string) (string, error) {
	var sb strings.Builder
	sb.WriteByte('"')
	for i := 0; i < len(astText); i++ {
		c := astText[i]
		switch {
		case c == '\\' && i+1 < len(astText):
			sb.WriteByte(c)
			i++
			sb.WriteByte(astText[i])
		case c == '"':
			sb.WriteString(`\"`)
		case c == '\n':
			sb.WriteString(`\n`)
		default:
			sb.WriteByte(c)
		}
	}
	sb.WriteByte('"')
	return strconv.Unquote(sb.String())
}

// EnumNumber is the number of an enum member: explicit, or previous+1 from 0.
func EnumNumber(e *idl.Enum, ev *idl.EnumValue) int64 {
	prev := int64(-1)
	for _, x := range e.Values {
		v := prev + 1
		if x.Explicit {
			v = x.Value
		}
		if x == ev {
			return v
		}
		prev = v
	}
	return ev.Value
}

// Zero is the zero value of a type as the generated Go code has it.
func Zero(t *idl.Type) *Val {
	t = t.Final()
	switch t.Kind {
	case idl.Bool:
		return Bool(false)
	case idl.Byte, idl.I16, idl.I32, idl.I64, idl.EnumK:
		return Int(0)
	case idl.Double:
		return Dbl(0)
	case idl.String:
		return Str("")
	case idl.Binary, idl.List, idl.Set, idl.Map, idl.StructK:
		return Nil()
	}
	return Nil()
}

// Eval evaluates an initializer for a target type by the IDL's rules.
func Eval(t *idl.Type, v *idl.Value) (*Val, error) {
	t = t.Final()
	if v.K == idl.VConstRef {
		// a reference to another constant denotes that constant's value
		return Eval(t, v.Const.Value)
	}
	switch t.Kind {
	case idl.Bool:
		switch v.K {
		case idl.VBoolIdent:
			return Bool(v.B), nil
		case idl.VInt:
			return Bool(v.Int > 0), nil
		case idl.VDouble:
			return Bool(v.Dbl > 0), nil
		}
	case idl.Byte, idl.I16, idl.I32, idl.I64:
		switch v.K {
		case idl.VInt:
			return Int(v.Int), nil
		case idl.VBoolIdent:
			if v.B {
				return Int(1), nil
			}
			return Int(0), nil
		case idl.VEnumRef:
			return Int(EnumNumber(v.Enum, v.EV)), nil
		}
	case idl.Double:
		switch v.K {
		case idl.VInt:
			return Dbl(float64(v.Int)), nil
		case idl.VDouble:
			d := v.Dbl
			if v.Text != "" {
				d, _ = strconv.ParseFloat(v.Text, 64)
			}
			return Dbl(d), nil
		}
	case idl.String, idl.Binary:
		if v.K == idl.VLit {
			s, err := LitString(v.Lit)
			if err != nil {
				return nil, err
			}
			return Str(s), nil
		}
	case idl.EnumK:
		switch v.K {
		case idl.VInt:
			return Int(v.Int), nil
		case idl.VEnumRef:
			return Int(EnumNumber(v.Enum, v.EV)), nil
		}
	case idl.List, idl.Set:
		if v.K == idl.VList {
			out := List()
			for _, e := range v.List {
				x, err := Eval(t.Elem, e)
				if err != nil {
					return nil, err
				}
				out.L = append(out.L, x)
			}
			return out, nil
		}
	case idl.Map:
		if v.K == idl.VMap {
			out := Map()
			for _, kv := range v.Map {
				k, err := Eval(t.Key, kv[0])
				if err != nil {
					return nil, err
				}
				x, err := Eval(t.Elem, kv[1])
				if err != nil {
					return nil, err
				}
				out.M = append(out.M, [2]*Val{k, x})
			}
			return out, nil
		}
	case idl.StructK:
		if v.K == idl.VMap {
			out := Obj()
			ids := FieldIDs(t.Struct.Fields)
			for _, kv := range v.Map {
				if kv[0].K != idl.VLit {
					return nil, fmt.Errorf("struct literal key is not a string literal")
				}
				var f *idl.Field
				var id int32
				for i, x := range t.Struct.Fields {
					if x.Name == kv[0].Lit {
						f, id = x, ids[i]
					}
				}
				if f == nil {
					return nil, fmt.Errorf("struct literal names unknown field %q", kv[0].Lit)
				}
				x, err := Eval(f.Type, kv[1])
				if err != nil {
					return nil, err
				}
				out.Set(id, x)
			}
			return out, nil
		}
	}
	return nil, fmt.Errorf("initializer kind %d cannot initialise type kind %d", v.K, t.Kind)
}

// Domain is a small total value domain for a type. depth bounds recursion
// through containers and structs; rich=false gives the two-value domain used
// inside containers.
func Domain(t *idl.Type, depth int, rich bool) []*Val {
	t = t.Final()
	pick := func(all []*Val) []*Val {
		if rich || len(all) <= 2 {
			return all
		}
		return all[1:3]
	}
	switch t.Kind {
	case idl.Bool:
		return []*Val{Bool(false), Bool(true)}
	case idl.Byte:
		return pick([]*Val{Int(0), Int(1), Int(-1), Int(math.MinInt8), Int(math.MaxInt8)})
	case idl.I16:
		return pick([]*Val{Int(0), Int(1), Int(-1), Int(math.MinInt16), Int(math.MaxInt16)})
	case idl.I32:
		return pick([]*Val{Int(0), Int(1), Int(-1), Int(math.MinInt32), Int(math.MaxInt32)})
	case idl.I64:
		return pick([]*Val{Int(0), Int(1), Int(-1), Int(math.MinInt64), Int(math.MaxInt64)})
	case idl.Double:
		return pick([]*Val{Dbl(0), Dbl(1.5), Dbl(math.Copysign(0, -1)), Dbl(math.Inf(1)), Dbl(math.NaN())})
	case idl.String:
		return pick([]*Val{Str(""), Str("a"), Str("é\x00\"'")})
	case idl.Binary:
		return pick([]*Val{Str(""), Str("\xff\x00"), Str("b")})
	case idl.EnumK:
		var out []*Val
		for _, ev := range t.Enum.Values {
			out = append(out, Int(EnumNumber(t.Enum, ev)))
		}
		out = append(out, Int(1234)) // undeclared
		if !rich && len(out) > 2 {
			out = out[:2]
		}
		return out
	case idl.List, idl.Set:
		if depth <= 0 {
			return []*Val{Nil(), List()}
		}
		e := Domain(t.Elem, depth-1, false)
		out := []*Val{Nil(), List(), List(e[0])}
		if len(e) > 1 {
			second := e[1]
			if t.Kind == idl.Set {
				// the elements of a set are pairwise different values (nil and empty containers are one value)
				second = nil
				for _, c := range e[1:] {
					if Same(t.Elem, e[0], c) != "" {
						second = c
						break
					}
				}
			}
			if second != nil {
				out = append(out, List(e[0], second))
			}
		}
		if !rich {
			return out[2:]
		}
		return out
	case idl.Map:
		if depth <= 0 {
			return []*Val{Nil(), Map()}
		}
		k := Domain(t.Key, depth-1, false)
		e := Domain(t.Elem, depth-1, false)
		out := []*Val{Nil(), Map(), Map([2]*Val{k[0], e[0]})}
		if len(k) > 1 {
			e1 := e[len(e)-1]
			out = append(out, Map([2]*Val{k[0], e[0]}, [2]*Val{k[1], e1}), Map([2]*Val{k[1], e[0]}))
		}
		if !rich {
			return out[2:3]
		}
		return out
	case idl.StructK:
		return StructDomain(t.Struct, depth-1, rich)
	}
	return nil
}

// StructDomain: the product of field domains (optional fields also unset).
// Capped structurally: with more than 3 fields, or when not rich, a
// 1-deviation enumeration around a base value is used instead of the product.
func StructDomain(s *idl.Struct, depth int, rich bool) []*Val {
	ids := FieldIDs(s.Fields)
	if depth < 0 {
		// recursion cut: only required/default fields at their first value is not
		// possible without recursion, so return the empty object
		return []*Val{Obj()}
	}
	doms := make([][]*Val, len(s.Fields))
	for i, f := range s.Fields {
		d := Domain(f.Type, depth, rich)
		if f.Req == idl.ReqOptional || s.Cat == "union" {
			d = append([]*Val{nil}, d...)
		}
		if f.Default != nil {
			if dv, err := Eval(f.Type, f.Default); err == nil {
				d = append(d, dv)
			}
		}
		doms[i] = d
	}
	if s.Cat == "union" {
		// exactly one member set
		var out []*Val
		for i := range s.Fields {
			for _, v := range doms[i] {
				if v != nil && v.T != "n" { // a member holding nil is not set
					out = append(out, Obj().Set(ids[i], v))
				}
			}
		}
		if !rich && len(out) > 2 {
			out = out[:2]
		}
		return out
	}
	var out []*Val
	if rich && len(s.Fields) <= 3 {
		var rec func(i int, cur *Val)
		rec = func(i int, cur *Val) {
			if i == len(s.Fields) {
				out = append(out, cur.Clone())
				return
			}
			for _, v := range doms[i] {
				if v != nil {
					cur.Set(ids[i], v)
				} else {
					delete(cur.O, strconv.Itoa(int(ids[i])))
				}
				rec(i+1, cur)
			}
			delete(cur.O, strconv.Itoa(int(ids[i])))
		}
		rec(0, Obj())
		return out
	}
	// base: every field at its first non-nil value; then deviate one field at a time
	base := Obj()
	for i := range s.Fields {
		for _, v := range doms[i] {
			if v != nil {
				base.Set(ids[i], v)
				break
			}
		}
	}
	out = append(out, base.Clone())
	if !rich {
		// the second representative leaves every optional field unset (absent on the wire)
		min := base.Clone()
		changed := false
		for i, f := range s.Fields {
			if f.Req == idl.ReqOptional {
				delete(min.O, strconv.Itoa(int(ids[i])))
				changed = true
			}
		}
		if changed {
			out = append(out, min)
		}
	}
	if rich {
		for i := range s.Fields {
			for _, v := range doms[i] {
				c := base.Clone()
				if v == nil {
					delete(c.O, strconv.Itoa(int(ids[i])))
				} else {
					c.Set(ids[i], v)
				}
				out = append(out, c)
			}
		}
	}
	return out
}
