package refsem

import (
	"fmt"
	"strconv"

	"verif/internal/idl"
)

// FieldDefault is the evaluated declared default of a field, or nil.
func FieldDefault(f *idl.Field) *Val {
	if f.Default == nil {
		return nil
	}
	v, err := Eval(f.Type, f.Default)
	if err != nil {
		return nil
	}
	return v
}

// Same compares two values of type t: nil and empty containers are equal, map
// entries are compared as sets of pairs, list and set elements positionally,
// any NaN equals any NaN, nested structs by SameStruct.
func Same(t *idl.Type, a, b *Val) string {
	t = t.Final()
	if a == nil || b == nil {
		if a.IsNilish() && b.IsNilish() && (a == nil) == (b == nil) {
			return ""
		}
		if a == nil && b == nil {
			return ""
		}
		return fmt.Sprintf("%v vs %v", a, b)
	}
	switch t.Kind {
	case idl.List, idl.Set:
		if a.IsNilish() && b.IsNilish() {
			return ""
		}
		if a.T != "l" || b.T != "l" || len(a.L) != len(b.L) {
			return fmt.Sprintf("%v vs %v", a, b)
		}
		for i := range a.L {
			if d := Same(t.Elem, a.L[i], b.L[i]); d != "" {
				return fmt.Sprintf("[%d]: %s", i, d)
			}
		}
		return ""
	case idl.Map:
		if a.IsNilish() && b.IsNilish() {
			return ""
		}
		if a.T != "m" || b.T != "m" || len(a.M) != len(b.M) {
			return fmt.Sprintf("%v vs %v", a, b)
		}
		used := make([]bool, len(b.M))
	outer:
		for _, kv := range a.M {
			for j, kw := range b.M {
				if !used[j] && Same(t.Key, kv[0], kw[0]) == "" && Same(t.Elem, kv[1], kw[1]) == "" {
					used[j] = true
					continue outer
				}
			}
			return fmt.Sprintf("entry %v:%v missing in %v", kv[0], kv[1], b)
		}
		return ""
	case idl.StructK:
		if a.IsNilish() || b.IsNilish() {
			if a.T == b.T {
				return ""
			}
			return fmt.Sprintf("%v vs %v", a, b)
		}
		return SameStruct(t.Struct, a, b)
	case idl.Double:
		// an untyped Go constant holding an integral double is dumped as an integer
		if a.T == "i" {
			a = Dbl(float64(a.Int64()))
		}
		if b.T == "i" {
			b = Dbl(float64(b.Int64()))
		}
		if a.T == "d" && b.T == "d" {
			x, y := a.Float(), b.Float()
			if (x != x && y != y) || a.D == b.D {
				return ""
			}
		}
		return fmt.Sprintf("%v vs %v", a, b)
	case idl.Binary, idl.String:
		if a.T == "n" {
			a = Str("")
		}
		if b.T == "n" {
			b = Str("")
		}
	}
	if a.Key(true) != b.Key(true) {
		return fmt.Sprintf("%v vs %v", a, b)
	}
	return ""
}

// SameStruct compares two struct values field by field. An optional field
// that is unset equals one that holds its declared default (the generated
// representation cannot tell them apart); an optional container that is nil
// equals an unset one.
func SameStruct(s *idl.Struct, a, b *Val) string {
	ids := FieldIDs(s.Fields)
	for i, f := range s.Fields {
		x, y := a.Get(ids[i]), b.Get(ids[i])
		if f.Req == idl.ReqOptional || s.Cat == "union" {
			if x != nil && x.T == "n" {
				x = nil
			}
			if y != nil && y.T == "n" {
				y = nil
			}
			if d := FieldDefault(f); d != nil {
				if x == nil {
					x = d
				}
				if y == nil {
					y = d
				}
			}
		}
		if x == nil && y == nil {
			continue
		}
		if x == nil || y == nil {
			return fmt.Sprintf("field %s(%d): %v vs %v", f.Name, ids[i], x, y)
		}
		if d := Same(f.Type, x, y); d != "" {
			return fmt.Sprintf("field %s(%d): %s", f.Name, ids[i], d)
		}
	}
	return ""
}

// Complete fills what a Go object necessarily holds for fields that v leaves
// out: default/required-requiredness fields get their declared default or the
// zero value (they cannot be unset in the generated representation).
func Complete(s *idl.Struct, v *Val) *Val {
	out := v.Clone()
	if out == nil || out.T != "o" {
		return out
	}
	ids := FieldIDs(s.Fields)
	for i, f := range s.Fields {
		cur := out.Get(ids[i])
		if cur == nil && f.Req != idl.ReqOptional && s.Cat != "union" {
			if d := FieldDefault(f); d != nil {
				out.Set(ids[i], d)
			} else if z := Zero(f.Type); z.T != "n" || f.Type.Final().Kind != idl.StructK {
				out.Set(ids[i], z)
			}
			cur = out.Get(ids[i])
		}
		if cur != nil {
			out.O[strconv.Itoa(int(ids[i]))] = completeIn(f.Type, cur)
		}
	}
	return out
}

// CompleteValue applies Complete to every struct inside a value of type t.
func CompleteValue(t *idl.Type, v *Val) *Val { return completeIn(t, v) }

func completeIn(t *idl.Type, v *Val) *Val {
	t = t.Final()
	switch t.Kind {
	case idl.StructK:
		if v.T == "o" {
			return Complete(t.Struct, v)
		}
	case idl.List, idl.Set:
		if v.T == "l" {
			c := List()
			for _, e := range v.L {
				c.L = append(c.L, completeIn(t.Elem, e))
			}
			return c
		}
	case idl.Map:
		if v.T == "m" {
			c := Map()
			for _, kv := range v.M {
				c.M = append(c.M, [2]*Val{completeIn(t.Key, kv[0]), completeIn(t.Elem, kv[1])})
			}
			return c
		}
	}
	return v
}
