// Package progs: hand-written multi-file IDL programs shared by several checks.
package progs

import (
	"verif/internal/docs"
	"verif/internal/idl"
)

// Prog is a named program; Files[0] is the main file.
type Prog struct {
	Name  string
	Files []*idl.File
}

// Programs: the interplay program; annotations with repeated keys on every node
// kind + same base name in two directories; one file including two files of the
// same base name; typedef chains across three files; a diamond include graph.
func Programs() []*Prog {
	var out []*Prog
	ip := docs.Interplay()
	out = append(out, &Prog{Name: "interplay", Files: ip.Prog.Files})
	// annotations with repeated keys on every node kind + same base name in two directories
	i32, str := idl.T(idl.I32), idl.T(idl.String)
	ann := func(kv ...string) []idl.Ann {
		var a []idl.Ann
		for i := 0; i+1 < len(kv); i += 2 {
			a = append(a, idl.Ann{Key: kv[i], Values: []string{kv[i+1]}})
		}
		return a
	}
	x := &idl.File{Path: "x/common.thrift", Namespaces: []*idl.Namespace{{Lang: "go", Name: "r.x"}}}
	c1 := &idl.Struct{Cat: "struct", Name: "C1", Fields: []*idl.Field{{ID: 1, ExplicitID: true, Name: "v", Type: i32}}}
	x.Add(c1)
	y := &idl.File{Path: "y/common.thrift", Namespaces: []*idl.Namespace{{Lang: "go", Name: "r.y"}}}
	c2 := &idl.Struct{Cat: "struct", Name: "C2", Fields: []*idl.Field{{ID: 1, ExplicitID: true, Name: "v", Type: str}}}
	y.Add(c2)
	z := &idl.File{Path: "z.thrift", Includes: []*idl.Include{{Path: "y/common.thrift", File: y}}, Namespaces: []*idl.Namespace{{Lang: "go", Name: "r.z"}}}
	zs := &idl.Struct{Cat: "struct", Name: "ZS", Fields: []*idl.Field{{ID: 1, ExplicitID: true, Name: "c", Type: idl.StructT(c2)}}}
	z.Add(zs)
	e := &idl.Enum{Name: "AE", Values: []*idl.EnumValue{{Name: "P", Anns: ann("ev", "1", "other", "x", "ev", "2", "third", "y")}, {Name: "Q", Value: 9, Explicit: true}, {Name: "R"}}, Anns: ann("en", "a", "other", "b", "en", "c")}
	m := &idl.File{Path: "top.thrift", Includes: []*idl.Include{{Path: "x/common.thrift", File: x}, {Path: "z.thrift", File: z}}, Namespaces: []*idl.Namespace{{Lang: "go", Name: "r.top", Anns: ann("nsa", "1")}, {Lang: "py", Name: "r_top"}}}
	m.Add(e)
	at := idl.T(idl.String)
	at.Anns = ann("ta", "1", "ta", "2")
	td := &idl.Typedef{Name: "ATd", Type: idl.MapOf(str, idl.ListOf(idl.StructT(c1))), Anns: ann("td", "x", "td", "y")}
	m.Add(td)
	ex := &idl.Struct{Cat: "exception", Name: "AX", Fields: []*idl.Field{{ID: 1, ExplicitID: true, Name: "m", Type: str}}, Anns: ann("xa", "1")}
	m.Add(ex)
	s := &idl.Struct{Cat: "struct", Name: "AS", Fields: []*idl.Field{
		{ID: 1, ExplicitID: true, Name: "a", Type: at, Req: idl.ReqRequired, Anns: ann("fa", "1", "fb", "2", "fa", "3"), Default: idl.VS("d\"q")},
		{ID: 2, ExplicitID: true, Name: "b", Type: idl.TypedefT(td), Req: idl.ReqOptional},
		{ID: -3, ExplicitID: true, Name: "c", Type: idl.StructT(c1)},
		{Name: "d", Type: idl.StructT(zs)},
		{ID: 70, ExplicitID: true, Name: "e", Type: idl.EnumT(e), Default: idl.VE(e, e.Values[1])},
		{ID: 71, ExplicitID: true, Name: "f", Type: idl.ListOf(idl.T(idl.Double)), Default: idl.VL(idl.VD(1.5), idl.VI(2))},
		{ID: 72, ExplicitID: true, Name: "g", Type: idl.MapOf(str, idl.T(idl.Bool)), Default: idl.VM([2]*idl.Value{idl.VS("k"), idl.VB(true)}, [2]*idl.Value{idl.VS("l"), idl.VB(false)})},
	}, Anns: ann("sa", "1", "sa", "2", "sb", "3")}
	m.Add(s)
	u := &idl.Struct{Cat: "union", Name: "AU", Fields: []*idl.Field{{ID: 1, ExplicitID: true, Name: "n", Type: i32}, {ID: 2, ExplicitID: true, Name: "s", Type: idl.StructT(s)}}}
	m.Add(u)
	m.Add(&idl.Const{Name: "AK", Type: idl.MapOf(str, idl.ListOf(i32)), Value: idl.VM([2]*idl.Value{idl.VS("a"), idl.VL(idl.VI(1), idl.VI(-2))}, [2]*idl.Value{idl.VS("b"), idl.VL()}), Anns: ann("ca", "1")})
	m.Add(&idl.Const{Name: "AKE", Type: idl.EnumT(e), Value: idl.VE(e, e.Values[2])})
	m.Add(&idl.Const{Name: "AKS", Type: idl.StructT(c1), Value: idl.VM([2]*idl.Value{idl.VS("v"), idl.VI(4)})})
	base := &idl.Service{Name: "ABase", Functions: []*idl.Function{{Name: "ping"}}}
	m.Add(base)
	m.Add(&idl.Service{Name: "ASvc", Extends: base, Functions: []*idl.Function{
		{Name: "call", Ret: idl.StructT(s), Args: []*idl.Field{{ID: 1, ExplicitID: true, Name: "q", Type: idl.StructT(c1)}, {Name: "r", Type: idl.TypedefT(td)}}, Throws: []*idl.Field{{ID: 1, ExplicitID: true, Name: "x", Type: idl.StructT(ex)}}, Anns: ann("ma", "1", "ma", "2")},
		{Name: "fire", Oneway: true, Args: []*idl.Field{{ID: 1, ExplicitID: true, Name: "n", Type: i32}}},
		{Name: "nothing"}}, Anns: ann("va", "1")})
	out = append(out, &Prog{Name: "annotated-same-base-name", Files: []*idl.File{m, x, y, z}})

	// one file including two files with the same base name
	{
		x := &idl.File{Path: "x/common.thrift", Namespaces: []*idl.Namespace{{Lang: "go", Name: "q.x"}}}
		c1 := &idl.Struct{Cat: "struct", Name: "C1", Fields: []*idl.Field{{ID: 1, ExplicitID: true, Name: "v", Type: i32}}}
		x.Add(c1)
		y := &idl.File{Path: "y/common.thrift", Namespaces: []*idl.Namespace{{Lang: "go", Name: "q.y"}}}
		c2 := &idl.Struct{Cat: "struct", Name: "C2", Fields: []*idl.Field{{ID: 1, ExplicitID: true, Name: "v", Type: str}}}
		y.Add(c2)
		m := &idl.File{Path: "both.thrift", Includes: []*idl.Include{{Path: "x/common.thrift", File: x}, {Path: "y/common.thrift", File: y}}, Namespaces: []*idl.Namespace{{Lang: "go", Name: "q.both"}}}
		m.Add(&idl.Struct{Cat: "struct", Name: "Both", Fields: []*idl.Field{{ID: 1, ExplicitID: true, Name: "a", Type: idl.StructT(c1)}, {ID: 2, ExplicitID: true, Name: "b", Type: idl.StructT(c2)}}})
		out = append(out, &Prog{Name: "two-includes-same-base-name", Files: []*idl.File{m, x, y}})
	}
	// typedef chains across three files
	{
		a := &idl.File{Path: "a.thrift", Namespaces: []*idl.Namespace{{Lang: "go", Name: "ch.a"}}}
		id := &idl.Typedef{Name: "Id", Type: idl.T(idl.I64)}
		a.Add(id)
		ids := &idl.Typedef{Name: "Ids", Type: idl.ListOf(idl.TypedefT(id))}
		a.Add(ids)
		en := &idl.Enum{Name: "E", Values: []*idl.EnumValue{{Name: "A"}, {Name: "B", Value: 4, Explicit: true}}}
		a.Add(en)
		te := &idl.Typedef{Name: "TE", Type: idl.EnumT(en)}
		a.Add(te)
		st := &idl.Struct{Cat: "struct", Name: "S", Fields: []*idl.Field{{ID: 1, ExplicitID: true, Name: "id", Type: idl.TypedefT(id)}}}
		a.Add(st)
		ts := &idl.Typedef{Name: "TS", Type: idl.StructT(st)}
		a.Add(ts)
		b := &idl.File{Path: "sub/b.thrift", Includes: []*idl.Include{{Path: "../a.thrift", File: a}}, Namespaces: []*idl.Namespace{{Lang: "go", Name: "ch.b"}}}
		bid := &idl.Typedef{Name: "BId", Type: idl.TypedefT(id)}
		b.Add(bid)
		bts := &idl.Typedef{Name: "BTS", Type: idl.TypedefT(ts)}
		b.Add(bts)
		bm := &idl.Typedef{Name: "BM", Type: idl.MapOf(idl.TypedefT(te), idl.TypedefT(ids))}
		b.Add(bm)
		c := &idl.File{Path: "c.thrift", Includes: []*idl.Include{{Path: "sub/b.thrift", File: b}}, Namespaces: []*idl.Namespace{{Lang: "go", Name: "ch.c"}}}
		cid := &idl.Typedef{Name: "CId", Type: idl.TypedefT(bid)}
		c.Add(cid)
		c.Add(&idl.Struct{Cat: "struct", Name: "U", Fields: []*idl.Field{{ID: 1, ExplicitID: true, Name: "id", Type: idl.TypedefT(cid)}, {ID: 2, ExplicitID: true, Name: "m", Type: idl.TypedefT(bm), Req: idl.ReqOptional}, {ID: 3, ExplicitID: true, Name: "s", Type: idl.TypedefT(bts)}, {ID: 4, ExplicitID: true, Name: "l", Type: idl.ListOf(idl.SetOf(idl.TypedefT(bts)))}}})
		c.Add(&idl.Service{Name: "CS", Functions: []*idl.Function{{Name: "get", Ret: idl.TypedefT(bts), Args: []*idl.Field{{ID: 1, ExplicitID: true, Name: "id", Type: idl.TypedefT(cid)}}}}})
		out = append(out, &Prog{Name: "typedef-chains", Files: []*idl.File{c, b, a}})
	}
	// diamond include graph: top -> l, r -> bottom -> leaf; top also includes bottom directly
	{
		leaf := &idl.File{Path: "d/leaf.thrift", Namespaces: []*idl.Namespace{{Lang: "go", Name: "dm.leaf"}}}
		le := &idl.Enum{Name: "LE", Values: []*idl.EnumValue{{Name: "A"}, {Name: "B"}}}
		leaf.Add(le)
		bottom := &idl.File{Path: "d/bottom.thrift", Includes: []*idl.Include{{Path: "leaf.thrift", File: leaf}}, Namespaces: []*idl.Namespace{{Lang: "go", Name: "dm.bottom"}}}
		bs := &idl.Struct{Cat: "struct", Name: "BS", Fields: []*idl.Field{{ID: 1, ExplicitID: true, Name: "e", Type: idl.EnumT(le), Default: idl.VE(le, le.Values[1])}}}
		bottom.Add(bs)
		bk := &idl.Const{Name: "BK", Type: idl.T(idl.I32), Value: idl.VI(7)}
		bottom.Add(bk)
		l := &idl.File{Path: "l.thrift", Includes: []*idl.Include{{Path: "d/bottom.thrift", File: bottom}}, Namespaces: []*idl.Namespace{{Lang: "go", Name: "dm.l"}}}
		ls := &idl.Struct{Cat: "struct", Name: "LS", Fields: []*idl.Field{{ID: 1, ExplicitID: true, Name: "b", Type: idl.StructT(bs)}}}
		l.Add(ls)
		r := &idl.File{Path: "r.thrift", Includes: []*idl.Include{{Path: "d/bottom.thrift", File: bottom}}, Namespaces: []*idl.Namespace{{Lang: "go", Name: "dm.r"}}}
		rs := &idl.Struct{Cat: "struct", Name: "RS", Fields: []*idl.Field{{ID: 1, ExplicitID: true, Name: "n", Type: idl.T(idl.I32), Default: idl.VC(bk)}}}
		r.Add(rs)
		top := &idl.File{Path: "top.thrift", Includes: []*idl.Include{{Path: "l.thrift", File: l}, {Path: "r.thrift", File: r}, {Path: "d/bottom.thrift", File: bottom}}, Namespaces: []*idl.Namespace{{Lang: "go", Name: "dm.top"}}}
		top.Add(&idl.Struct{Cat: "struct", Name: "TS", Fields: []*idl.Field{{ID: 1, ExplicitID: true, Name: "l", Type: idl.StructT(ls)}, {ID: 2, ExplicitID: true, Name: "r", Type: idl.StructT(rs), Req: idl.ReqOptional}, {ID: 3, ExplicitID: true, Name: "b", Type: idl.ListOf(idl.StructT(bs))}}})
		top.Add(&idl.Service{Name: "TSvc", Functions: []*idl.Function{{Name: "get", Ret: idl.StructT(bs), Args: []*idl.Field{{ID: 1, ExplicitID: true, Name: "l", Type: idl.StructT(ls)}}}}})
		out = append(out, &Prog{Name: "diamond", Files: []*idl.File{top, l, r, bottom, leaf}})
	}
	return out
}


// LookupPrograms: shapes that stress name lookups across files: an include whose
// base name contains dots, and a three-level service chain that crosses a file
// boundary while the including file has an unrelated service of the grandparent's name.
func LookupPrograms() []*Prog {
	var out []*Prog
	i32, str := idl.T(idl.I32), idl.T(idl.String)
	{
		inc := &idl.File{Path: "common.v1.thrift", Namespaces: []*idl.Namespace{{Lang: "go", Name: "dot.commonv1"}}}
		money := &idl.Struct{Cat: "struct", Name: "Money", Fields: []*idl.Field{{ID: 1, ExplicitID: true, Name: "units", Type: idl.T(idl.I64)}, {ID: 2, ExplicitID: true, Name: "currency", Type: str}}}
		inc.Add(money)
		cur := &idl.Enum{Name: "Currency", Values: []*idl.EnumValue{{Name: "EUR", Value: 1, Explicit: true}, {Name: "USD", Value: 2, Explicit: true}}}
		inc.Add(cur)
		amt := &idl.Typedef{Name: "Amounts", Type: idl.ListOf(idl.StructT(money))}
		inc.Add(amt)
		oops := &idl.Struct{Cat: "exception", Name: "Oops", Fields: []*idl.Field{{ID: 1, ExplicitID: true, Name: "m", Type: str}}}
		inc.Add(oops)
		kc := &idl.Const{Name: "DEFAULT_CURRENCY", Type: idl.EnumT(cur), Value: idl.VE(cur, cur.Values[1])}
		inc.Add(kc)
		base := &idl.Service{Name: "Ledger", Functions: []*idl.Function{{Name: "balance", Ret: idl.StructT(money)}}}
		inc.Add(base)
		m := &idl.File{Path: "shop.thrift", Includes: []*idl.Include{{Path: "common.v1.thrift", File: inc}}, Namespaces: []*idl.Namespace{{Lang: "go", Name: "dot.shop"}}}
		m.Add(&idl.Struct{Cat: "struct", Name: "Order", Fields: []*idl.Field{{ID: 1, ExplicitID: true, Name: "total", Type: idl.StructT(money)}, {ID: 2, ExplicitID: true, Name: "cur", Type: idl.EnumT(cur), Default: idl.VE(cur, cur.Values[0])},
			{ID: 3, ExplicitID: true, Name: "parts", Type: idl.TypedefT(amt), Req: idl.ReqOptional}, {ID: 4, ExplicitID: true, Name: "byCur", Type: idl.MapOf(idl.EnumT(cur), idl.ListOf(idl.StructT(money)))}}})
		m.Add(&idl.Typedef{Name: "Price", Type: idl.StructT(money)})
		m.Add(&idl.Const{Name: "SHOP_CURRENCY", Type: idl.EnumT(cur), Value: idl.VC(kc)})
		m.Add(&idl.Service{Name: "Shop", Extends: base, Functions: []*idl.Function{{Name: "pay", Ret: idl.StructT(money), Args: []*idl.Field{{ID: 1, ExplicitID: true, Name: "m", Type: idl.StructT(money)}}, Throws: []*idl.Field{{ID: 1, ExplicitID: true, Name: "e", Type: idl.StructT(oops)}}}}})
		out = append(out, &Prog{Name: "include-name-with-dots", Files: []*idl.File{m, inc}})
	}
	{
		core := &idl.File{Path: "core.thrift", Namespaces: []*idl.Namespace{{Lang: "go", Name: "chain.core"}}}
		root := &idl.Service{Name: "Root", Functions: []*idl.Function{{Name: "rootPing"}, {Name: "rootVersion", Ret: i32}}}
		core.Add(root)
		mid := &idl.Service{Name: "Mid", Extends: root, Functions: []*idl.Function{{Name: "midOp", Ret: str}}}
		core.Add(mid)
		api := &idl.File{Path: "api.thrift", Includes: []*idl.Include{{Path: "core.thrift", File: core}}, Namespaces: []*idl.Namespace{{Lang: "go", Name: "chain.api"}}}
		// an unrelated service that happens to carry the grandparent's name
		api.Add(&idl.Service{Name: "Root", Functions: []*idl.Function{{Name: "adminOnly"}}})
		apiSvc := &idl.Service{Name: "Api", Extends: mid, Functions: []*idl.Function{{Name: "apiCall", Ret: i32, Args: []*idl.Field{{ID: 1, ExplicitID: true, Name: "n", Type: i32}}}}}
		api.Add(apiSvc)
		api.Add(&idl.Service{Name: "Api2", Extends: apiSvc, Functions: []*idl.Function{{Name: "more"}}})
		out = append(out, &Prog{Name: "service-chain-across-files", Files: []*idl.File{api, core}})
	}
	return out
}
