// Package idlast lowers an idl model file to the parser AST that the property
// C03 prescribes for it (written from the property text, not from parser.go),
// and compares two ASTs field by field.
package idlast

import (
	"fmt"
	"reflect"
	"strconv"
	"strings"

	"verif/internal/idl"

	"github.com/cloudwego/thriftgo/parser"
)

func anns(a []idl.Ann) parser.Annotations {
	var out parser.Annotations
	idx := map[string]int{}
	for _, x := range a {
		for _, v := range x.Values {
			if i, ok := idx[x.Key]; ok {
				out[i].Values = append(out[i].Values, v)
			} else {
				idx[x.Key] = len(out)
				out = append(out, &parser.Annotation{Key: x.Key, Values: []string{v}})
			}
		}
	}
	return out
}

func typ(cur *idl.File, t *idl.Type) *parser.Type {
	if t == nil {
		return nil
	}
	r := &parser.Type{Name: idl.TypeName(cur, t), Annotations: anns(t.Anns)}
	if t.HasCpp {
		r.CppType = t.CppType
	}
	switch t.Kind {
	case idl.List, idl.Set:
		r.ValueType = typ(cur, t.Elem)
	case idl.Map:
		r.KeyType = typ(cur, t.Key)
		r.ValueType = typ(cur, t.Elem)
	}
	return r
}

// ParseIntText gives the value of an integer spelling by the IDL's rules:
// optional sign + decimal digits, 0x hex, 0o octal.
func ParseIntText(s string) (int64, error) {
	switch {
	case strings.HasPrefix(s, "0x"):
		return strconv.ParseInt(s[2:], 16, 64)
	case strings.HasPrefix(s, "0o"):
		return strconv.ParseInt(s[2:], 8, 64)
	}
	return strconv.ParseInt(strings.TrimPrefix(s, "+"), 10, 64)
}

func value(cur *idl.File, v *idl.Value) *parser.ConstValue {
	if v == nil {
		return nil
	}
	switch v.K {
	case idl.VInt:
		i := v.Int
		if v.Text != "" {
			i, _ = ParseIntText(v.Text)
		}
		return &parser.ConstValue{Type: parser.ConstType_ConstInt, TypedValue: &parser.ConstTypedValue{Int: &i}}
	case idl.VDouble:
		d := v.Dbl
		if v.Text != "" {
			d, _ = strconv.ParseFloat(v.Text, 64)
		}
		return &parser.ConstValue{Type: parser.ConstType_ConstDouble, TypedValue: &parser.ConstTypedValue{Double: &d}}
	case idl.VLit:
		s := v.Lit
		return &parser.ConstValue{Type: parser.ConstType_ConstLiteral, TypedValue: &parser.ConstTypedValue{Literal: &s}}
	case idl.VList:
		l := []*parser.ConstValue{}
		for _, e := range v.List {
			l = append(l, value(cur, e))
		}
		return &parser.ConstValue{Type: parser.ConstType_ConstList, TypedValue: &parser.ConstTypedValue{List: l}}
	case idl.VMap:
		m := []*parser.MapConstValue{}
		for _, kv := range v.Map {
			m = append(m, &parser.MapConstValue{Key: value(cur, kv[0]), Value: value(cur, kv[1])})
		}
		return &parser.ConstValue{Type: parser.ConstType_ConstMap, TypedValue: &parser.ConstTypedValue{Map: m}}
	default:
		s := idl.IdentText(cur, v)
		return &parser.ConstValue{Type: parser.ConstType_ConstIdentifier, TypedValue: &parser.ConstTypedValue{Identifier: &s}}
	}
}

func fields(cur *idl.File, fs []*idl.Field, throws bool) []*parser.Field {
	var out []*parser.Field
	prev := int32(0)
	for _, f := range fs {
		id := prev + 1
		if f.ExplicitID {
			id = f.ID
			if f.IDText != "" {
				x, _ := ParseIntText(f.IDText)
				id = int32(x)
			}
		}
		prev = id
		pf := &parser.Field{ID: id, Name: f.Name, Type: typ(cur, f.Type), Default: value(cur, f.Default), Annotations: anns(f.Anns)}
		switch f.Req {
		case idl.ReqRequired:
			pf.Requiredness = parser.FieldType_Required
		case idl.ReqOptional:
			pf.Requiredness = parser.FieldType_Optional
		}
		out = append(out, pf)
	}
	return out
}

// ToAST is the AST the property prescribes for f (resolution results,
// comments and include references are left unset).
func ToAST(f *idl.File) *parser.Thrift {
	t := &parser.Thrift{Filename: f.Path}
	seenInc := map[string]bool{}
	for _, inc := range f.Includes {
		if seenInc[inc.Path] {
			continue
		}
		seenInc[inc.Path] = true
		t.Includes = append(t.Includes, &parser.Include{Path: inc.Path})
	}
	t.CppIncludes = append(t.CppIncludes, f.CppIncludes...)
	for _, ns := range f.Namespaces {
		t.Namespaces = append(t.Namespaces, &parser.Namespace{Language: ns.Lang, Name: ns.Name, Annotations: anns(ns.Anns)})
	}
	for _, d := range f.Defs {
		switch {
		case d.Const != nil:
			c := d.Const
			t.Constants = append(t.Constants, &parser.Constant{Name: c.Name, Type: typ(f, c.Type), Value: value(f, c.Value), Annotations: anns(c.Anns)})
		case d.Typedef != nil:
			x := d.Typedef
			t.Typedefs = append(t.Typedefs, &parser.Typedef{Alias: x.Name, Type: typ(f, x.Type), Annotations: anns(x.Anns)})
		case d.Enum != nil:
			e := d.Enum
			pe := &parser.Enum{Name: e.Name, Annotations: anns(e.Anns)}
			prev := int64(-1)
			for _, v := range e.Values {
				val := prev + 1
				if v.Explicit {
					val = v.Value
					if v.ValText != "" {
						val, _ = ParseIntText(v.ValText)
					}
				}
				prev = val
				pe.Values = append(pe.Values, &parser.EnumValue{Name: v.Name, Value: val, Annotations: anns(v.Anns)})
			}
			t.Enums = append(t.Enums, pe)
		case d.Struct != nil:
			s := d.Struct
			ps := &parser.StructLike{Category: s.Cat, Name: s.Name, Fields: fields(f, s.Fields, false), Annotations: anns(s.Anns)}
			switch s.Cat {
			case "struct":
				t.Structs = append(t.Structs, ps)
			case "union":
				t.Unions = append(t.Unions, ps)
			default:
				t.Exceptions = append(t.Exceptions, ps)
			}
		case d.Service != nil:
			s := d.Service
			ps := &parser.Service{Name: s.Name, Annotations: anns(s.Anns)}
			if s.Extends != nil {
				ps.Extends = s.Extends.Name
				if s.Extends.File != f {
					ps.Extends = s.Extends.File.Prefix() + "." + s.Extends.Name
				}
			} else {
				ps.Extends = s.ExtendRaw
			}
			for _, fn := range s.Functions {
				pf := &parser.Function{Name: fn.Name, Oneway: fn.Oneway, Void: fn.Ret == nil, Arguments: fields(f, fn.Args, false), Throws: fields(f, fn.Throws, true), Annotations: anns(fn.Anns)}
				if fn.Ret == nil {
					pf.FunctionType = &parser.Type{Name: "void"}
				} else {
					pf.FunctionType = typ(f, fn.Ret)
				}
				ps.Functions = append(ps.Functions, pf)
			}
			t.Services = append(t.Services, ps)
		}
	}
	return t
}

// Skip lists struct fields that Diff ignores.
type Skip map[string]bool

// ParseOnly ignores what the parser does not decide (comments, resolution results).
var ParseOnly = Skip{"ReservedComments": true, "Category": true, "Reference": true, "IsTypedef": true, "Extra": true, "Used": true, "Name2Category": true}

// Diff returns "" when a and b are equal field by field (nil and empty slices
// are equal), else the path of the first difference and a description.
func Diff(a, b any, skip Skip) (path, what string) {
	return diff(reflect.ValueOf(a), reflect.ValueOf(b), "", skip, map[[2]uintptr]bool{})
}

func diff(a, b reflect.Value, path string, skip Skip, seen map[[2]uintptr]bool) (string, string) {
	if a.Kind() != b.Kind() {
		return path, fmt.Sprintf("kind %v vs %v", a.Kind(), b.Kind())
	}
	switch a.Kind() {
	case reflect.Ptr:
		if a.IsNil() || b.IsNil() {
			if a.IsNil() != b.IsNil() {
				return path, fmt.Sprintf("nil=%v vs nil=%v", a.IsNil(), b.IsNil())
			}
			return "", ""
		}
		k := [2]uintptr{a.Pointer(), b.Pointer()}
		if seen[k] {
			return "", ""
		}
		seen[k] = true
		return diff(a.Elem(), b.Elem(), path, skip, seen)
	case reflect.Struct:
		for i := 0; i < a.NumField(); i++ {
			n := a.Type().Field(i).Name
			if skip[n] || !a.Type().Field(i).IsExported() {
				continue
			}
			// throws lists: requiredness is not judged (see check header)
			if p, w := diff(a.Field(i), b.Field(i), path+"."+n, skip, seen); p != "" {
				return p, w
			}
		}
		return "", ""
	case reflect.Slice:
		if a.Len() != b.Len() {
			return path, fmt.Sprintf("len %d vs %d", a.Len(), b.Len())
		}
		for i := 0; i < a.Len(); i++ {
			if p, w := diff(a.Index(i), b.Index(i), path+"[]", skip, seen); p != "" {
				return p, w
			}
		}
		return "", ""
	case reflect.Map:
		if a.Len() != b.Len() {
			return path, fmt.Sprintf("map len %d vs %d", a.Len(), b.Len())
		}
		it := a.MapRange()
		for it.Next() {
			bv := b.MapIndex(it.Key())
			if !bv.IsValid() {
				return path, fmt.Sprintf("key %v missing", it.Key())
			}
			if p, w := diff(it.Value(), bv, path+"{}", skip, seen); p != "" {
				return p, w
			}
		}
		return "", ""
	case reflect.Float64, reflect.Float32:
		x, y := a.Float(), b.Float()
		if x != y && !(x != x && y != y) {
			return path, fmt.Sprintf("%v vs %v", x, y)
		}
		return "", ""
	case reflect.String:
		if a.String() != b.String() {
			return path, fmt.Sprintf("%q vs %q", a.String(), b.String())
		}
		return "", ""
	case reflect.Bool:
		if a.Bool() != b.Bool() {
			return path, fmt.Sprintf("%v vs %v", a.Bool(), b.Bool())
		}
		return "", ""
	case reflect.Int, reflect.Int8, reflect.Int16, reflect.Int32, reflect.Int64:
		if a.Int() != b.Int() {
			return path, fmt.Sprintf("%d vs %d", a.Int(), b.Int())
		}
		return "", ""
	case reflect.Interface:
		if a.IsNil() || b.IsNil() {
			if a.IsNil() != b.IsNil() {
				return path, "nil interface mismatch"
			}
			return "", ""
		}
		return diff(a.Elem(), b.Elem(), path, skip, seen)
	}
	return "", ""
}
