// Package idl is the harness-side model of Thrift IDL programs. Every
// reference inside the model is a pointer to the definition it denotes, so
// the intended binding is known by construction; the textual spelling
// (`Foo`, `inc.Foo`, `inc.E.V`) is produced by the renderer. The package
// imports nothing from thriftgo.
package idl

import (
	"fmt"
	"path/filepath"
	"strconv"
	"strings"
)

type Kind int

const (
	Bool Kind = iota
	Byte
	I16
	I32
	I64
	Double
	String
	Binary
	List
	Set
	Map
	EnumK
	StructK // struct, union or exception
	TypedefK
	RawK // an identifier written as is (syntax-level documents only)
)

var baseNames = map[Kind]string{Bool: "bool", Byte: "byte", I16: "i16", I32: "i32", I64: "i64", Double: "double", String: "string", Binary: "binary"}

type Ann struct {
	Key    string
	Values []string // AST-level text of each value, in order
}

type Type struct {
	Kind    Kind
	Key     *Type // map
	Elem    *Type // list, set, map value
	Enum    *Enum
	Struct  *Struct
	Typedef *Typedef
	Raw     string
	CppType string // AST-level text; "" = absent
	HasCpp  bool
	Anns    []Ann
}

func T(k Kind) *Type            { return &Type{Kind: k} }
func ListOf(e *Type) *Type      { return &Type{Kind: List, Elem: e} }
func SetOf(e *Type) *Type       { return &Type{Kind: Set, Elem: e} }
func MapOf(k, v *Type) *Type    { return &Type{Kind: Map, Key: k, Elem: v} }
func EnumT(e *Enum) *Type       { return &Type{Kind: EnumK, Enum: e} }
func StructT(s *Struct) *Type   { return &Type{Kind: StructK, Struct: s} }
func TypedefT(t *Typedef) *Type { return &Type{Kind: TypedefK, Typedef: t} }
func RawT(n string) *Type       { return &Type{Kind: RawK, Raw: n} }

// Final follows typedefs to the underlying type.
func (t *Type) Final() *Type {
	for t != nil && t.Kind == TypedefK {
		t = t.Typedef.Type
	}
	return t
}

type Req int

const (
	ReqDefault Req = iota
	ReqRequired
	ReqOptional
)

type Field struct {
	ID         int32
	ExplicitID bool
	IDText     string // alternative spelling of the id ("" = decimal)
	Name       string
	Req        Req
	Type       *Type
	Default    *Value
	Anns       []Ann
}

type Struct struct {
	Cat    string // "struct" | "union" | "exception"
	Name   string
	Fields []*Field
	Anns   []Ann
	File   *File
}

type EnumValue struct {
	Name     string
	Value    int64
	Explicit bool
	ValText  string
	Anns     []Ann
}

type Enum struct {
	Name   string
	Values []*EnumValue
	Anns   []Ann
	File   *File
}

type Typedef struct {
	Name string
	Type *Type
	Anns []Ann
	File *File
}

type Const struct {
	Name  string
	Type  *Type
	Value *Value
	Anns  []Ann
	File  *File
}

type Function struct {
	Name   string
	Oneway bool
	Ret    *Type // nil = void
	Args   []*Field
	Throws []*Field
	Anns   []Ann
}

type Service struct {
	Name      string
	Extends   *Service
	ExtendRaw string
	Functions []*Function
	Anns      []Ann
	File      *File
}

type VKind int

const (
	VInt VKind = iota
	VDouble
	VLit
	VBoolIdent // true / false written as identifiers
	VConstRef
	VEnumRef
	VRawIdent
	VList
	VMap
)

type Value struct {
	K     VKind
	Int   int64
	Text  string // spelling for VInt/VDouble ("" = canonical)
	Dbl   float64
	Lit   string // AST-level text of the literal
	Quote byte   // literal: 0 = layout decides, else the quote character to use
	B     bool
	Const *Const
	Enum  *Enum
	EV    *EnumValue
	Via   *Typedef // enum value written through a typedef of the enum
	Raw   string
	List  []*Value
	Map   [][2]*Value
}

func VI(i int64) *Value               { return &Value{K: VInt, Int: i} }
func VD(d float64) *Value             { return &Value{K: VDouble, Dbl: d} }
func VS(s string) *Value              { return &Value{K: VLit, Lit: s} }
func VB(b bool) *Value                { return &Value{K: VBoolIdent, B: b} }
func VC(c *Const) *Value              { return &Value{K: VConstRef, Const: c} }
func VE(e *Enum, v *EnumValue) *Value { return &Value{K: VEnumRef, Enum: e, EV: v} }
func VL(vs ...*Value) *Value          { return &Value{K: VList, List: vs} }
func VM(kv ...[2]*Value) *Value       { return &Value{K: VMap, Map: kv} }

type Namespace struct {
	Lang string
	Name string
	Anns []Ann
}

type Include struct {
	Path string // literal as written
	File *File
}

// Def is one top-level definition, in source order.
type Def struct {
	Const   *Const
	Typedef *Typedef
	Enum    *Enum
	Struct  *Struct
	Service *Service
}

type File struct {
	Path        string // path on disk relative to the program root
	Includes    []*Include
	CppIncludes []string
	Namespaces  []*Namespace
	Defs        []Def
}

func (f *File) Add(d any) {
	switch x := d.(type) {
	case *Const:
		x.File = f
		f.Defs = append(f.Defs, Def{Const: x})
	case *Typedef:
		x.File = f
		f.Defs = append(f.Defs, Def{Typedef: x})
	case *Enum:
		x.File = f
		f.Defs = append(f.Defs, Def{Enum: x})
	case *Struct:
		x.File = f
		f.Defs = append(f.Defs, Def{Struct: x})
	case *Service:
		x.File = f
		f.Defs = append(f.Defs, Def{Service: x})
	default:
		panic(fmt.Sprintf("idl: cannot add %T", d))
	}
}

// Prefix is the include prefix under which other files refer to f.
func (f *File) Prefix() string {
	b := filepath.Base(f.Path)
	return strings.TrimSuffix(b, filepath.Ext(b))
}

// Program is a set of files; Files[0] is the main file.
type Program struct {
	Files []*File
}

// ------------------------------------------------------------------ tokens

type TokKind int

const (
	TWord TokKind = iota // keyword, identifier, number: needs separation from another word
	TPunct
	TLit // string literal (AST-level text in Text; quote chosen by layout)
	TSep // optional list separator slot (layout chooses ',', ';' or nothing)
)

type Tok struct {
	Kind  TokKind
	Text  string
	Alts  []string // alternative equivalent spellings (numbers)
	Quote byte     // literals: forced quote character (0 = the layout decides)
}

type tw struct {
	cur  *File
	toks []Tok
}

func (w *tw) word(s string)  { w.toks = append(w.toks, Tok{Kind: TWord, Text: s}) }
func (w *tw) punct(s string) { w.toks = append(w.toks, Tok{Kind: TPunct, Text: s}) }
func (w *tw) lit(s string)   { w.toks = append(w.toks, Tok{Kind: TLit, Text: s}) }
func (w *tw) sep()           { w.toks = append(w.toks, Tok{Kind: TSep}) }

func intAlts(i int64) []string {
	var a []string
	if i >= 0 {
		a = append(a, "0x"+strconv.FormatInt(i, 16), "0x"+strings.ToUpper(strconv.FormatInt(i, 16)), "0o"+strconv.FormatInt(i, 8), "+"+strconv.FormatInt(i, 10))
		// the grammar's third alternative is [+-]? Digit+: leading zeros do not change the (decimal) value
		a = append(a, "0"+strconv.FormatInt(i, 10), "000"+strconv.FormatInt(i, 10))
	} else {
		a = append(a, "-0"+strconv.FormatInt(-i, 10))
	}
	return a
}

func (w *tw) num(i int64, text string) {
	t := Tok{Kind: TWord, Text: strconv.FormatInt(i, 10), Alts: intAlts(i)}
	if text != "" {
		t.Text = text
	}
	w.toks = append(w.toks, t)
}

func (w *tw) anns(a []Ann, present bool) {
	if len(a) == 0 && !present {
		return
	}
	w.punct("(")
	for _, x := range a {
		for _, v := range x.Values {
			w.word(x.Key)
			w.punct("=")
			w.lit(v)
			w.sep()
		}
	}
	w.punct(")")
}

func (w *tw) qual(f *File, name string) string {
	if f == nil || f == w.cur {
		return name
	}
	return f.Prefix() + "." + name
}

func (w *tw) typ(t *Type) {
	switch t.Kind {
	case List:
		w.word("list")
		w.punct("<")
		w.typ(t.Elem)
		w.punct(">")
		if t.HasCpp {
			w.word("cpp_type")
			w.lit(t.CppType)
		}
	case Set:
		w.word("set")
		if t.HasCpp {
			w.word("cpp_type")
			w.lit(t.CppType)
		}
		w.punct("<")
		w.typ(t.Elem)
		w.punct(">")
	case Map:
		w.word("map")
		if t.HasCpp {
			w.word("cpp_type")
			w.lit(t.CppType)
		}
		w.punct("<")
		w.typ(t.Key)
		w.punct(",")
		w.typ(t.Elem)
		w.punct(">")
	case EnumK:
		w.word(w.qual(t.Enum.File, t.Enum.Name))
	case StructK:
		w.word(w.qual(t.Struct.File, t.Struct.Name))
	case TypedefK:
		w.word(w.qual(t.Typedef.File, t.Typedef.Name))
	case RawK:
		w.word(t.Raw)
	default:
		w.word(baseNames[t.Kind])
	}
	w.anns(t.Anns, false)
}

// TypeName is the textual name of t as seen from file cur.
func TypeName(cur *File, t *Type) string {
	w := &tw{cur: cur}
	switch t.Kind {
	case List, Set, Map:
		return map[Kind]string{List: "list", Set: "set", Map: "map"}[t.Kind]
	case EnumK:
		return w.qual(t.Enum.File, t.Enum.Name)
	case StructK:
		return w.qual(t.Struct.File, t.Struct.Name)
	case TypedefK:
		return w.qual(t.Typedef.File, t.Typedef.Name)
	case RawK:
		return t.Raw
	}
	return baseNames[t.Kind]
}

// FormatDouble spells a double so that it lexes as a DoubleConstant.
func FormatDouble(d float64) string {
	s := strconv.FormatFloat(d, 'f', -1, 64)
	if !strings.Contains(s, ".") {
		s += ".0"
	}
	return s
}

// IdentText is the identifier spelling of a reference value seen from cur.
func IdentText(cur *File, v *Value) string {
	w := &tw{cur: cur}
	switch v.K {
	case VBoolIdent:
		if v.B {
			return "true"
		}
		return "false"
	case VConstRef:
		return w.qual(v.Const.File, v.Const.Name)
	case VEnumRef:
		if v.Via != nil {
			return w.qual(v.Via.File, v.Via.Name) + "." + v.EV.Name
		}
		return w.qual(v.Enum.File, v.Enum.Name) + "." + v.EV.Name
	case VRawIdent:
		return v.Raw
	}
	return ""
}

func (w *tw) value(v *Value) {
	switch v.K {
	case VInt:
		w.num(v.Int, v.Text)
	case VDouble:
		s := v.Text
		if s == "" {
			s = FormatDouble(v.Dbl)
		}
		w.toks = append(w.toks, Tok{Kind: TWord, Text: s})
	case VLit:
		w.toks = append(w.toks, Tok{Kind: TLit, Text: v.Lit, Quote: v.Quote})
	case VBoolIdent, VConstRef, VEnumRef, VRawIdent:
		w.word(IdentText(w.cur, v))
	case VList:
		w.punct("[")
		for _, e := range v.List {
			w.value(e)
			w.sep()
		}
		w.punct("]")
	case VMap:
		w.punct("{")
		for _, kv := range v.Map {
			w.value(kv[0])
			w.punct(":")
			w.value(kv[1])
			w.sep()
		}
		w.punct("}")
	}
}

func (w *tw) field(f *Field) {
	if f.ExplicitID {
		w.num(int64(f.ID), f.IDText)
		w.punct(":")
	}
	switch f.Req {
	case ReqRequired:
		w.word("required")
	case ReqOptional:
		w.word("optional")
	}
	w.typ(f.Type)
	w.word(f.Name)
	if f.Default != nil {
		w.punct("=")
		w.value(f.Default)
	}
	w.anns(f.Anns, false)
	w.sep()
}

// Tokens renders one file as a token list.
func Tokens(f *File) []Tok {
	w := &tw{cur: f}
	for _, inc := range f.Includes {
		w.word("include")
		w.lit(inc.Path)
	}
	for _, c := range f.CppIncludes {
		w.word("cpp_include")
		w.lit(c)
	}
	for _, ns := range f.Namespaces {
		w.word("namespace")
		if ns.Lang == "*" {
			w.punct("*")
		} else {
			w.word(ns.Lang)
		}
		w.word(ns.Name)
		w.anns(ns.Anns, false)
	}
	for _, d := range f.Defs {
		switch {
		case d.Const != nil:
			c := d.Const
			w.word("const")
			w.typ(c.Type)
			w.word(c.Name)
			w.punct("=")
			w.value(c.Value)
			// grammar: Const <- ... ConstValue ListSeparator? ; Definition <- Const Annotations?
			w.sep()
			w.anns(c.Anns, false)
		case d.Typedef != nil:
			t := d.Typedef
			w.word("typedef")
			w.typ(t.Type)
			w.word(t.Name)
			w.anns(t.Anns, false)
		case d.Enum != nil:
			e := d.Enum
			w.word("enum")
			w.word(e.Name)
			w.punct("{")
			for _, v := range e.Values {
				w.word(v.Name)
				if v.Explicit {
					w.punct("=")
					w.num(v.Value, v.ValText)
				}
				w.anns(v.Anns, false)
				w.sep()
			}
			w.punct("}")
			w.anns(e.Anns, false)
		case d.Struct != nil:
			s := d.Struct
			w.word(s.Cat)
			w.word(s.Name)
			w.punct("{")
			for _, fl := range s.Fields {
				w.field(fl)
			}
			w.punct("}")
			w.anns(s.Anns, false)
		case d.Service != nil:
			s := d.Service
			w.word("service")
			w.word(s.Name)
			if s.Extends != nil {
				w.word("extends")
				w.word(w.qual(s.Extends.File, s.Extends.Name))
			} else if s.ExtendRaw != "" {
				w.word("extends")
				w.word(s.ExtendRaw)
			}
			w.punct("{")
			for _, fn := range s.Functions {
				if fn.Oneway {
					w.word("oneway")
				}
				if fn.Ret == nil {
					w.word("void")
				} else {
					w.typ(fn.Ret)
				}
				w.word(fn.Name)
				w.punct("(")
				for _, a := range fn.Args {
					w.field(a)
				}
				w.punct(")")
				if fn.Throws != nil {
					w.word("throws")
					w.punct("(")
					for _, a := range fn.Throws {
						w.field(a)
					}
					w.punct(")")
				}
				w.anns(fn.Anns, false)
				w.sep()
			}
			w.punct("}")
			w.anns(s.Anns, false)
		}
	}
	return w.toks
}

// Layout decides everything the AST must not depend on.
type Layout struct {
	// Gap returns the text between token i-1 and token i (i==0: before the first
	// token; i==len: after the last). needSpace says the two tokens are both words.
	Gap func(i int, needSpace bool) string
	// Sep returns the text of separator slot number k: ",", ";" or "".
	Sep func(k int) string
	// Quote returns the quote character for literal number k.
	Quote func(k int) byte
	// Num returns the index of the alternative spelling (0 = baseline) for a number token with n alternatives.
	Num func(k int, n int) int
}

// Baseline: single spaces, a newline after each separator slot, ',' separators, double quotes.
func Baseline() Layout {
	return Layout{
		Gap:   func(i int, need bool) string { return " " },
		Sep:   func(k int) string { return "," },
		Quote: func(k int) byte { return '"' },
		Num:   func(k, n int) int { return 0 },
	}
}

// QuoteLit writes AST-level text as a literal with the given quote: the only
// escaping the IDL knows is a backslash before the enclosing quote character.
func QuoteLit(s string, q byte) string {
	var sb strings.Builder
	sb.WriteByte(q)
	for i := 0; i < len(s); i++ {
		if s[i] == q {
			sb.WriteByte('\\')
		}
		sb.WriteByte(s[i])
	}
	sb.WriteByte(q)
	return sb.String()
}

// RenderTokens writes tokens under a layout. It also returns the number of
// gaps, separator slots, literals and numbers with alternatives (the layout
// dimensions).
func RenderTokens(toks []Tok, l Layout) (text string, gaps, seps, lits, nums int) {
	var sb strings.Builder
	prevWord := false
	first := true
	gi := 0
	for _, t := range toks {
		var s string
		switch t.Kind {
		case TSep:
			s = l.Sep(seps)
			seps++
			if s == "" {
				continue
			}
		case TLit:
			q := l.Quote(lits)
			if t.Quote != 0 {
				q = t.Quote
			}
			s = QuoteLit(t.Text, q)
			lits++
		default:
			s = t.Text
			if len(t.Alts) > 0 {
				if k := l.Num(nums, len(t.Alts)+1); k > 0 {
					s = t.Alts[k-1]
				}
				nums++
			}
		}
		isWord := t.Kind == TWord
		need := prevWord && isWord
		g := l.Gap(gi, need && !first)
		if need && g == "" {
			g = " "
		}
		gi++
		sb.WriteString(g)
		sb.WriteString(s)
		prevWord = isWord
		first = false
	}
	sb.WriteString(l.Gap(gi, false))
	gi++
	return sb.String(), gi, seps, lits, nums
}

// Render renders a file readably: one space between tokens, a new line before
// each top-level keyword, ',' after fields and list elements.
func Render(f *File) string {
	toks := Tokens(f)
	depth := 0
	var sb strings.Builder
	atLineStart := true
	for _, t := range toks {
		var s string
		switch t.Kind {
		case TSep:
			if depth > 0 {
				sb.WriteString(",")
			}
			continue
		case TLit:
			q := byte('"')
			if t.Quote != 0 {
				q = t.Quote
			}
			s = QuoteLit(t.Text, q)
		default:
			s = t.Text
		}
		if t.Kind == TWord && depth == 0 {
			switch s {
			case "include", "cpp_include", "namespace", "const", "typedef", "enum", "struct", "union", "exception", "service":
				if !atLineStart {
					sb.WriteString("\n")
					atLineStart = true
				}
			}
		}
		if t.Kind == TPunct {
			switch s {
			case "{", "(", "[", "<":
				depth++
			case "}", ")", "]", ">":
				depth--
			}
		}
		if !atLineStart {
			sb.WriteString(" ")
		}
		sb.WriteString(s)
		atLineStart = false
	}
	sb.WriteString("\n")
	return sb.String()
}
