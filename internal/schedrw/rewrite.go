// Package schedrw mechanically rewrites one Go source file of /repo so that
// its channel operations, select statements, go statements and sync objects
// become calls into the modelled package verifvs. The rewrite is purely
// structural (driven by go/ast + go/types), so a changed OnFinished (other
// channel capacity, moved wg.Wait, captured loop variable, reordered
// Done/release, extra goroutine) is explored as written.
package schedrw

import (
	"bytes"
	"fmt"
	"go/ast"
	"go/format"
	"go/token"
	"go/types"
	"strconv"

	"golang.org/x/tools/go/ast/astutil"
	"golang.org/x/tools/go/packages"
)

const VSPath = "github.com/cloudwego/thriftgo/verifvs"

// Stats says what was rewritten (reported in evidence so that a vacuous
// rewrite is visible).
type Stats struct {
	MakeChan, Send, Recv, Select, GoStmt, Close, Range, LenCap, ChanType, SyncImport int
	Unsupported                                                                      []string
}

// Rewrite loads pkgPath (from dir), rewrites the file whose base name is
// fileBase and returns the new source.
func Rewrite(dir, pkgPath, fileBase string) ([]byte, *Stats, error) {
	cfg := &packages.Config{Mode: packages.NeedName | packages.NeedFiles | packages.NeedSyntax | packages.NeedTypes | packages.NeedTypesInfo | packages.NeedImports | packages.NeedDeps, Dir: dir}
	pkgs, err := packages.Load(cfg, pkgPath)
	if err != nil {
		return nil, nil, err
	}
	if len(pkgs) != 1 {
		return nil, nil, fmt.Errorf("expected one package, got %d", len(pkgs))
	}
	pkg := pkgs[0]
	if len(pkg.Errors) > 0 {
		return nil, nil, fmt.Errorf("package does not type-check: %v", pkg.Errors[0])
	}
	var file *ast.File
	for _, sf := range pkg.Syntax {
		f := pkg.Fset.Position(sf.Pos()).Filename
		if len(f) >= len(fileBase) && f[len(f)-len(fileBase):] == fileBase {
			file = sf
		}
	}
	if file == nil {
		return nil, nil, fmt.Errorf("file %s not found in %s", fileBase, pkgPath)
	}
	r := &rw{info: pkg.TypesInfo, fset: pkg.Fset, st: &Stats{}, pkg: pkg.Types}
	r.file(file)
	var buf bytes.Buffer
	if err := format.Node(&buf, pkg.Fset, file); err != nil {
		return nil, nil, err
	}
	return buf.Bytes(), r.st, nil
}

type rw struct {
	info *types.Info
	fset *token.FileSet
	st   *Stats
	pkg  *types.Package
	n    int
}

func (r *rw) tmp(p string) *ast.Ident {
	r.n++
	return ast.NewIdent("_vs" + p + strconv.Itoa(r.n))
}

func vsSel(name string) ast.Expr {
	return &ast.SelectorExpr{X: ast.NewIdent("verifvs"), Sel: ast.NewIdent(name)}
}

func (r *rw) isChan(e ast.Expr) bool {
	t := r.info.TypeOf(e)
	if t == nil {
		return false
	}
	_, ok := t.Underlying().(*types.Chan)
	return ok
}

func (r *rw) file(f *ast.File) {
	// 1. the sync package is swapped for the modelled one (same type and method names)
	for _, imp := range f.Imports {
		if imp.Path.Value == `"sync"` {
			imp.Path.Value = strconv.Quote(VSPath)
			if imp.Name == nil {
				imp.Name = ast.NewIdent("sync")
			}
			r.st.SyncImport++
		}
	}
	astutil.AddNamedImport(r.fset, f, "verifvs", VSPath)

	// 2. statements and expressions, innermost first (post-order)
	astutil.Apply(f, nil, func(c *astutil.Cursor) bool {
		switch n := c.Node().(type) {
		case *ast.SendStmt:
			r.st.Send++
			c.Replace(&ast.ExprStmt{X: &ast.CallExpr{Fun: &ast.SelectorExpr{X: n.Chan, Sel: ast.NewIdent("Send")}, Args: []ast.Expr{n.Value}}})
		case *ast.UnaryExpr:
			if n.Op == token.ARROW {
				r.st.Recv++
				name := "Recv"
				if as, ok := c.Parent().(*ast.AssignStmt); ok && len(as.Lhs) == 2 && len(as.Rhs) == 1 {
					name = "Recv2"
				}
				if vs, ok := c.Parent().(*ast.ValueSpec); ok && len(vs.Names) == 2 && len(vs.Values) == 1 {
					name = "Recv2"
				}
				c.Replace(&ast.CallExpr{Fun: &ast.SelectorExpr{X: n.X, Sel: ast.NewIdent(name)}})
			}
		case *ast.CallExpr:
			if id, ok := n.Fun.(*ast.Ident); ok && r.info.Uses[id] != nil && r.info.Uses[id].Parent() == types.Universe {
				switch id.Name {
				case "make":
					if st, ok := n.Args[0].(*ast.StarExpr); ok {
						if ix, ok := st.X.(*ast.IndexExpr); ok {
							if se, ok := ix.X.(*ast.SelectorExpr); ok && se.Sel.Name == "Chan" {
								r.st.MakeChan++
								var size ast.Expr = &ast.BasicLit{Kind: token.INT, Value: "0"}
								if len(n.Args) > 1 {
									size = n.Args[1]
								}
								c.Replace(&ast.CallExpr{Fun: &ast.IndexExpr{X: vsSel("NewChan"), Index: ix.Index}, Args: []ast.Expr{size}})
							}
						}
					} else if r.isChan(n.Args[0]) {
						r.st.Unsupported = append(r.st.Unsupported, "make of named channel type")
					}
				case "close":
					r.st.Close++
					c.Replace(&ast.CallExpr{Fun: &ast.SelectorExpr{X: n.Args[0], Sel: ast.NewIdent("Close")}})
				case "len", "cap":
					if len(n.Args) == 1 && r.isChan(n.Args[0]) {
						r.st.LenCap++
						m := "Len"
						if id.Name == "cap" {
							m = "Cap"
						}
						c.Replace(&ast.CallExpr{Fun: &ast.SelectorExpr{X: n.Args[0], Sel: ast.NewIdent(m)}})
					}
				}
			}
		case *ast.GoStmt:
			r.st.GoStmt++
			c.Replace(r.goStmt(n))
		case *ast.SelectStmt:
			r.st.Select++
			c.Replace(r.selectStmt(n))
		case *ast.RangeStmt:
			if r.isChan(n.X) {
				r.st.Range++
				c.Replace(r.rangeStmt(n))
			}
		case *ast.ChanType:
			// every chan type (declarations, parameters, fields, and the argument of
			// make, which is visited before its CallExpr and recognised there)
			r.st.ChanType++
			c.Replace(&ast.StarExpr{X: &ast.IndexExpr{X: vsSel("Chan"), Index: n.Value}})
		}
		return true
	})
	// keep the verifvs import used even if nothing was rewritten
	f.Decls = append(f.Decls, &ast.GenDecl{Tok: token.VAR, Specs: []ast.Spec{&ast.ValueSpec{Names: []*ast.Ident{ast.NewIdent("_")}, Values: []ast.Expr{vsSel("Active")}}}})
}

// go f(a, b)  =>  { _f, _a, _b := f, a, b; verifvs.Go(func() { _f(_a, _b) }) }
// (function value and arguments are evaluated at the go statement, as in Go).
func (r *rw) goStmt(g *ast.GoStmt) ast.Stmt {
	call := g.Call
	var lhs, rhs []ast.Expr
	fn := call.Fun
	if _, isLit := fn.(*ast.FuncLit); !isLit {
		// method values and function variables are evaluated now
		if _, isIdent := fn.(*ast.Ident); !isIdent {
			t := r.tmp("f")
			lhs, rhs = append(lhs, t), append(rhs, fn)
			fn = t
		}
	}
	var args []ast.Expr
	for _, a := range call.Args {
		t := r.tmp("a")
		lhs, rhs = append(lhs, t), append(rhs, a)
		args = append(args, t)
	}
	inner := &ast.CallExpr{Fun: fn, Args: args, Ellipsis: call.Ellipsis}
	if _, isLit := fn.(*ast.FuncLit); isLit {
		inner.Fun = &ast.ParenExpr{X: fn}
	}
	goCall := &ast.ExprStmt{X: &ast.CallExpr{Fun: vsSel("Go"), Args: []ast.Expr{
		&ast.FuncLit{Type: &ast.FuncType{Params: &ast.FieldList{}}, Body: &ast.BlockStmt{List: []ast.Stmt{&ast.ExprStmt{X: inner}}}},
	}}}
	if len(lhs) == 0 {
		return goCall
	}
	return &ast.BlockStmt{List: []ast.Stmt{
		&ast.AssignStmt{Lhs: lhs, Tok: token.DEFINE, Rhs: rhs},
		goCall,
	}}
}

// select { case c <- v: A; case x := <-d: B; default: C }  =>
// switch _s := verifvs.Select(hasDefault, verifvs.SendCase(c, v), verifvs.RecvCase(d)); _s.Index {
// case 0: A; case 1: x := verifvs.Got[T](_s); B; default: C }
// The operands were already rewritten (post-order), so a receive clause now
// reads `x := d.Recv()` and a send clause `c.Send(v)`.
func (r *rw) selectStmt(s *ast.SelectStmt) ast.Stmt {
	sel := r.tmp("s")
	var cases []ast.Expr
	hasDefault := false
	sw := &ast.SwitchStmt{Body: &ast.BlockStmt{}}
	idx := 0
	for _, cl := range s.Body.List {
		cc := cl.(*ast.CommClause)
		if cc.Comm == nil {
			hasDefault = true
			sw.Body.List = append(sw.Body.List, &ast.CaseClause{List: nil, Body: cc.Body})
			continue
		}
		var body []ast.Stmt
		switch c := cc.Comm.(type) {
		case *ast.ExprStmt:
			call := c.X.(*ast.CallExpr)
			se := call.Fun.(*ast.SelectorExpr)
			switch se.Sel.Name {
			case "Send":
				cases = append(cases, &ast.CallExpr{Fun: vsSel("SendCase"), Args: []ast.Expr{se.X, call.Args[0]}})
			default: // Recv
				cases = append(cases, &ast.CallExpr{Fun: vsSel("RecvCase"), Args: []ast.Expr{se.X}})
			}
		case *ast.AssignStmt:
			call := unparen(c.Rhs[0]).(*ast.CallExpr)
			se := call.Fun.(*ast.SelectorExpr)
			cases = append(cases, &ast.CallExpr{Fun: vsSel("RecvCase"), Args: []ast.Expr{se.X}})
			got := "Got"
			if len(c.Lhs) == 2 {
				got = "Got2"
			}
			// element type: recover from the Chan's type argument via a helper generic call
			body = append(body, &ast.AssignStmt{Lhs: c.Lhs, Tok: c.Tok, Rhs: []ast.Expr{
				&ast.CallExpr{Fun: vsSel(got + "Of"), Args: []ast.Expr{se.X, sel}},
			}})
			// silence "declared and not used" for receive variables the body ignores
			if c.Tok == token.DEFINE {
				for _, l := range c.Lhs {
					if id, ok := l.(*ast.Ident); ok && id.Name != "_" {
						body = append(body, &ast.AssignStmt{Lhs: []ast.Expr{ast.NewIdent("_")}, Tok: token.ASSIGN, Rhs: []ast.Expr{ast.NewIdent(id.Name)}})
					}
				}
			}
		default:
			r.st.Unsupported = append(r.st.Unsupported, fmt.Sprintf("select clause %T", cc.Comm))
		}
		body = append(body, cc.Body...)
		sw.Body.List = append(sw.Body.List, &ast.CaseClause{List: []ast.Expr{&ast.BasicLit{Kind: token.INT, Value: strconv.Itoa(idx)}}, Body: body})
		idx++
	}
	hd := "false"
	if hasDefault {
		hd = "true"
	}
	args := append([]ast.Expr{ast.NewIdent(hd)}, cases...)
	sw.Init = &ast.AssignStmt{Lhs: []ast.Expr{sel}, Tok: token.DEFINE, Rhs: []ast.Expr{&ast.CallExpr{Fun: vsSel("Select"), Args: args}}}
	sw.Tag = &ast.SelectorExpr{X: sel, Sel: ast.NewIdent("Index")}
	return sw
}

func unparen(e ast.Expr) ast.Expr {
	for {
		p, ok := e.(*ast.ParenExpr)
		if !ok {
			return e
		}
		e = p.X
	}
}

// for v := range ch { B }  =>  for { v, _ok := ch.Recv2(); if !_ok { break }; B }
func (r *rw) rangeStmt(n *ast.RangeStmt) ast.Stmt {
	ok := r.tmp("ok")
	var key ast.Expr = ast.NewIdent("_")
	if n.Key != nil {
		key = n.Key
	}
	tok := token.DEFINE
	if n.Tok == token.ASSIGN {
		// v already declared: ok must be declared separately
		return &ast.ForStmt{Body: &ast.BlockStmt{List: append([]ast.Stmt{
			&ast.DeclStmt{Decl: &ast.GenDecl{Tok: token.VAR, Specs: []ast.Spec{&ast.ValueSpec{Names: []*ast.Ident{ok}, Type: ast.NewIdent("bool")}}}},
			&ast.AssignStmt{Lhs: []ast.Expr{key, ok}, Tok: token.ASSIGN, Rhs: []ast.Expr{&ast.CallExpr{Fun: &ast.SelectorExpr{X: n.X, Sel: ast.NewIdent("Recv2")}}}},
			&ast.IfStmt{Cond: &ast.UnaryExpr{Op: token.NOT, X: ok}, Body: &ast.BlockStmt{List: []ast.Stmt{&ast.BranchStmt{Tok: token.BREAK}}}},
		}, n.Body.List...)}}
	}
	return &ast.ForStmt{Body: &ast.BlockStmt{List: append([]ast.Stmt{
		&ast.AssignStmt{Lhs: []ast.Expr{key, ok}, Tok: tok, Rhs: []ast.Expr{&ast.CallExpr{Fun: &ast.SelectorExpr{X: n.X, Sel: ast.NewIdent("Recv2")}}}},
		&ast.IfStmt{Cond: &ast.UnaryExpr{Op: token.NOT, X: ok}, Body: &ast.BlockStmt{List: []ast.Stmt{&ast.BranchStmt{Tok: token.BREAK}}}},
	}, n.Body.List...)}}
}
