package gen

import (
	"bytes"
	"fmt"
	"go/ast"
	"go/importer"
	"go/parser"
	"go/token"
	"go/types"
	"io"
	"os"
	"os/exec"
	"path/filepath"
	"runtime"
	"sort"
	"strconv"
	"strings"
	"sync"
)

// TypeCheck type-checks the generated packages of every accepted item with
// go/types: generated packages are checked from source (imports among them
// resolved recursively), everything else comes from compiler export data
// obtained once with `go list -export -deps` inside the scratch module. This
// is what `go build` checks (no redeclaration, no missing / unused import, no
// unused variable or label, selectors resolve) at ~10-50 ms per package.
// Result: item key -> error messages (absent = clean).
func (b *Batch) TypeCheck() (map[string][]string, error) {
	// 1. external import paths used by generated code
	ext := map[string]bool{}
	fset := token.NewFileSet()
	for _, it := range b.Items {
		if it.Exit != 0 {
			continue
		}
		for _, rel := range it.Files {
			if !strings.HasSuffix(rel, ".go") {
				continue
			}
			f, err := parser.ParseFile(fset, filepath.Join(it.OutDir, rel), nil, parser.ImportsOnly)
			if err != nil {
				continue
			}
			for _, im := range f.Imports {
				p, _ := strconv.Unquote(im.Path.Value)
				if !strings.HasPrefix(p, "vscratch/") {
					ext[p] = true
				}
			}
		}
	}
	var paths []string
	for p := range ext {
		paths = append(paths, p)
	}
	sort.Strings(paths)
	// 2. export data
	stub := filepath.Join(b.Mod, "stubdeps")
	_ = os.MkdirAll(stub, 0o755)
	var sb strings.Builder
	sb.WriteString("package stubdeps\n\nimport (\n")
	for _, p := range paths {
		fmt.Fprintf(&sb, "\t_ %q\n", p)
	}
	sb.WriteString(")\n")
	_ = os.WriteFile(filepath.Join(stub, "stub.go"), []byte(sb.String()), 0o644)
	cmd := exec.Command("go", "list", "-export", "-deps", "-f", "{{.ImportPath}}\t{{.Export}}", "./stubdeps")
	cmd.Dir = b.Mod
	cmd.Env = GoEnv()
	var stderr bytes.Buffer
	cmd.Stderr = &stderr
	out, err := cmd.Output()
	if err != nil {
		return nil, fmt.Errorf("go list -export: %v\n%s", err, stderr.String())
	}
	exports := map[string]string{}
	for _, l := range strings.Split(string(out), "\n") {
		p := strings.SplitN(l, "\t", 2)
		if len(p) == 2 && p[1] != "" {
			exports[p[0]] = p[1]
		}
	}
	// 3. check items in parallel
	res := map[string][]string{}
	var mu sync.Mutex
	var wg sync.WaitGroup
	ch := make(chan *Item, 64)
	for w := 0; w < runtime.NumCPU(); w++ {
		wg.Add(1)
		go func() {
			defer wg.Done()
			fs := token.NewFileSet()
			gc := importer.ForCompiler(fs, "gc", func(path string) (io.ReadCloser, error) {
				e, ok := exports[path]
				if !ok {
					return nil, fmt.Errorf("no export data for %q", path)
				}
				return os.Open(e)
			})
			for it := range ch {
				c := &itemChecker{it: it, fset: fs, gc: gc, pkgs: map[string]*types.Package{}, busy: map[string]bool{}}
				c.run()
				if len(c.errs) > 0 {
					mu.Lock()
					res[it.Key] = c.errs
					mu.Unlock()
				}
			}
		}()
	}
	for _, it := range b.Items {
		if it.Exit == 0 {
			ch <- it
		}
	}
	close(ch)
	wg.Wait()
	return res, nil
}

type itemChecker struct {
	it   *Item
	fset *token.FileSet
	gc   types.Importer
	pkgs map[string]*types.Package
	busy map[string]bool
	errs []string
}

func (c *itemChecker) run() {
	dirs := map[string]bool{}
	for _, rel := range c.it.Files {
		if strings.HasSuffix(rel, ".go") {
			dirs[filepath.ToSlash(filepath.Dir(rel))] = true
		}
	}
	var ds []string
	for d := range dirs {
		ds = append(ds, d)
	}
	sort.Strings(ds)
	for _, d := range ds {
		_, _ = c.Import("vscratch/gen/" + c.it.Key + "/" + d)
	}
}

func (c *itemChecker) Import(path string) (*types.Package, error) {
	prefix := "vscratch/gen/" + c.it.Key + "/"
	if !strings.HasPrefix(path, prefix) {
		if strings.HasPrefix(path, "vscratch/") {
			return nil, fmt.Errorf("import of %q leaves the item", path)
		}
		return c.gc.Import(path)
	}
	if p, ok := c.pkgs[path]; ok {
		return p, nil
	}
	if c.busy[path] {
		return nil, fmt.Errorf("import cycle through %q", strings.TrimPrefix(path, prefix))
	}
	c.busy[path] = true
	defer delete(c.busy, path)
	dir := filepath.Join(c.it.OutDir, strings.TrimPrefix(path, prefix))
	ents, err := os.ReadDir(dir)
	if err != nil {
		return nil, fmt.Errorf("package %q was not generated", strings.TrimPrefix(path, prefix))
	}
	var files []*ast.File
	for _, e := range ents {
		if e.IsDir() || !strings.HasSuffix(e.Name(), ".go") {
			continue
		}
		f, err := parser.ParseFile(c.fset, filepath.Join(dir, e.Name()), nil, parser.SkipObjectResolution)
		if err != nil {
			c.errs = append(c.errs, c.clean(err.Error()))
			continue
		}
		files = append(files, f)
	}
	names := map[string]bool{}
	for _, f := range files {
		names[f.Name.Name] = true
	}
	if len(names) > 1 {
		var ns []string
		for n := range names {
			ns = append(ns, n)
		}
		sort.Strings(ns)
		c.errs = append(c.errs, fmt.Sprintf("%s: found packages %s in one directory", strings.TrimPrefix(path, prefix), strings.Join(ns, " and ")))
	}
	n := 0
	conf := types.Config{Importer: c, Error: func(err error) {
		n++
		if n <= 5 {
			c.errs = append(c.errs, c.clean(err.Error()))
		}
	}}
	pkg, _ := conf.Check(path, c.fset, files, nil)
	c.pkgs[path] = pkg
	return pkg, nil
}

func (c *itemChecker) clean(msg string) string {
	return strings.ReplaceAll(msg, c.it.OutDir+string(filepath.Separator), "")
}
