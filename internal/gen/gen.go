// Package gen is the generate-compile-run pipeline: it builds the thriftgo
// binary from /repo's working tree, runs it on rendered IDL programs under
// given options, assembles a scratch Go module (replace thriftgo => /repo),
// discovers the generated API from the generated source (never from naming
// rules), builds a generic reflection driver linked with the generated
// packages and talks to it over JSON lines.
package gen

import (
	"bufio"
	"bytes"
	"context"
	"embed"
	"encoding/json"
	"fmt"
	"go/ast"
	"go/parser"
	"go/token"
	"io"
	"os"
	"os/exec"
	"path/filepath"
	"regexp"
	"runtime"
	"sort"
	"strconv"
	"strings"
	"sync"
	"time"

	"verif/internal/idl"
	"verif/internal/refsem"
)

//go:embed driversrc/*.txt
var driverFS embed.FS

func GoEnv() []string {
	env := []string{}
	for _, e := range os.Environ() {
		if strings.HasPrefix(e, "THRIFTGO_") || strings.HasPrefix(e, "GOFLAGS=") {
			continue
		}
		env = append(env, e)
	}
	return append(env, "GOFLAGS=-mod=mod", "GOPROXY=off", "GOSUMDB=off", "GOTOOLCHAIN=local")
}

// BuildThriftgo builds the compiler from /repo's working tree.
func BuildThriftgo(scratch string) (string, error) {
	bin := filepath.Join(scratch, "thriftgo")
	cmd := exec.Command("go", "build", "-o", bin, ".")
	cmd.Dir = "/repo"
	cmd.Env = GoEnv()
	if out, err := cmd.CombinedOutput(); err != nil {
		return "", fmt.Errorf("building thriftgo: %v\n%s", err, out)
	}
	return bin, nil
}

// Item is one (program, configuration) pair.
type Item struct {
	Key       string // unique, path-safe
	Prog      *idl.Program
	Texts     map[string]string // rendered files (filled by Add if nil)
	Backend   string            // "go" | "fastgo"
	Opts      []string          // backend options, without package_prefix
	Recurse   bool
	ExtraArgs []string

	// results
	Exit     int
	Stdout   string
	Stderr   string
	OutDir   string            // absolute
	Files    []string          // generated files, relative to OutDir
	Types    map[string]GoType // IDL struct-like name (as passed to WriteStructBegin) -> Go type
	BuildErr string
	// WantVars: package-level constants / variables (by Go name) the driver
	// should expose; Vars is filled by Discover with those that are declared.
	WantVars []string
	Vars     map[string]GoType
	Ctors    map[string]bool // IDL struct-like names for which New<GoName>() exists
}

type GoType struct {
	Pkg  string // import path
	Name string // Go type name
	File string
}

// Batch is a scratch module with many items.
type Batch struct {
	Scratch      string
	Mod          string // module dir
	Thriftgo     string
	Items        []*Item
	ExtraDriver  map[string]string // file name -> source (a name starting with "extra_" replaces extra_none.go)
	WithServices bool              // generate recording handlers + client/processor factories
	Services     []*GoService
}

func NewBatch(scratch, thriftgo string) (*Batch, error) {
	b := &Batch{Scratch: scratch, Thriftgo: thriftgo, Mod: filepath.Join(scratch, "mod")}
	if err := os.MkdirAll(filepath.Join(b.Mod, "gen"), 0o755); err != nil {
		return nil, err
	}
	gomod := "module vscratch\n\ngo 1.20\n\nrequire (\n\tgithub.com/apache/thrift v0.13.0\n\tgithub.com/cloudwego/gopkg v0.2.0\n\tgithub.com/cloudwego/thriftgo v0.0.0\n)\n\nreplace github.com/cloudwego/thriftgo => /repo\n\nreplace golang.org/x/sync v0.11.0 => golang.org/x/sync v0.10.0\n"
	if err := os.WriteFile(filepath.Join(b.Mod, "go.mod"), []byte(gomod), 0o644); err != nil {
		return nil, err
	}
	sum, _ := os.ReadFile("/verif/go.sum")
	_ = os.WriteFile(filepath.Join(b.Mod, "go.sum"), sum, 0o644)
	return b, nil
}

func (b *Batch) Add(it *Item) *Item {
	if it.Texts == nil {
		it.Texts = map[string]string{}
		for _, f := range it.Prog.Files {
			it.Texts[f.Path] = idl.Render(f)
		}
	}
	if it.Backend == "" {
		it.Backend = "go"
	}
	b.Items = append(b.Items, it)
	return it
}

// Generate runs thriftgo for every item (in parallel). The process gets a
// fresh empty working directory and a scrubbed environment.
func (b *Batch) Generate() {
	var wg sync.WaitGroup
	ch := make(chan *Item)
	for w := 0; w < runtime.NumCPU(); w++ {
		wg.Add(1)
		go func() {
			defer wg.Done()
			for it := range ch {
				b.generate(it)
			}
		}()
	}
	for _, it := range b.Items {
		ch <- it
	}
	close(ch)
	wg.Wait()
}

func (b *Batch) generate(it *Item) {
	idlDir := filepath.Join(b.Scratch, "idl", it.Key)
	cwd := filepath.Join(b.Scratch, "cwd", it.Key)
	_ = os.MkdirAll(cwd, 0o755)
	for p, t := range it.Texts {
		full := filepath.Join(idlDir, p)
		_ = os.MkdirAll(filepath.Dir(full), 0o755)
		_ = os.WriteFile(full, []byte(t), 0o644)
	}
	it.OutDir = filepath.Join(b.Mod, "gen", it.Key)
	opts := append([]string{"package_prefix=vscratch/gen/" + it.Key}, it.Opts...)
	args := []string{"-g", it.Backend + ":" + strings.Join(opts, ","), "-o", it.OutDir}
	if it.Recurse {
		args = append(args, "-r")
	}
	args = append(args, it.ExtraArgs...)
	// Without -r a user generates every file of a program separately into the
	// same output root; do the same so that the packages of included files exist.
	mains := []string{it.Prog.Files[0].Path}
	if !it.Recurse {
		for _, f := range it.Prog.Files[1:] {
			mains = append(mains, f.Path)
		}
	}
	it.Exit = 0
	for _, mainFile := range mains {
		a := append(append([]string{}, args...), filepath.Join(idlDir, mainFile))
		ctx, cancel := context.WithTimeout(context.Background(), 5*time.Minute)
		cmd := exec.CommandContext(ctx, b.Thriftgo, a...)
		cmd.Dir = cwd
		cmd.Env = []string{"PATH=" + os.Getenv("PATH"), "HOME=" + cwd}
		var so, se bytes.Buffer
		cmd.Stdout, cmd.Stderr = &so, &se
		err := cmd.Run()
		cancel()
		it.Stdout += so.String()
		it.Stderr += se.String()
		if err != nil {
			it.Exit = -1
			if ee, ok := err.(*exec.ExitError); ok {
				it.Exit = ee.ExitCode()
			}
			break
		}
	}
	_ = filepath.Walk(it.OutDir, func(p string, info os.FileInfo, err error) error {
		if err == nil && !info.IsDir() {
			rel, _ := filepath.Rel(it.OutDir, p)
			it.Files = append(it.Files, rel)
		}
		return nil
	})
	sort.Strings(it.Files)
}

var structBeginRe = regexp.MustCompile(`WriteStructBegin\("([^"]*)"\)`)

// Discover finds, in every generated file, the Go types that have a Write
// method calling WriteStructBegin("<IDL name>").
func (b *Batch) Discover() {
	for _, it := range b.Items {
		it.Types = map[string]GoType{}
		it.Vars = map[string]GoType{}
		it.Ctors = map[string]bool{}
		if it.Exit != 0 {
			continue
		}
		want := map[string]bool{}
		for _, n := range it.WantVars {
			want[n] = true
		}
		funcs := map[string]bool{}
		defer func(it *Item) {
			for n, gt := range it.Types {
				if funcs[gt.Pkg+".New"+gt.Name] {
					it.Ctors[n] = true
				}
			}
		}(it)
		fset := token.NewFileSet()
		for _, rel := range it.Files {
			if !strings.HasSuffix(rel, ".go") {
				continue
			}
			full := filepath.Join(it.OutDir, rel)
			f, err := parser.ParseFile(fset, full, nil, parser.SkipObjectResolution)
			if err != nil {
				continue
			}
			pkg := "vscratch/gen/" + it.Key + "/" + filepath.ToSlash(filepath.Dir(rel))
			for _, d := range f.Decls {
				if gd, ok := d.(*ast.GenDecl); ok && (gd.Tok == token.CONST || gd.Tok == token.VAR) {
					for _, sp := range gd.Specs {
						for _, n := range sp.(*ast.ValueSpec).Names {
							if want[n.Name] {
								it.Vars[n.Name] = GoType{Pkg: pkg, Name: n.Name, File: rel}
							}
						}
					}
					continue
				}
				if fd, ok := d.(*ast.FuncDecl); ok && fd.Recv == nil && strings.HasPrefix(fd.Name.Name, "New") {
					funcs[pkg+"."+fd.Name.Name] = true
				}
				fd, ok := d.(*ast.FuncDecl)
				if !ok || fd.Recv == nil || fd.Name.Name != "Write" || fd.Body == nil || len(fd.Recv.List) != 1 {
					continue
				}
				st, ok := fd.Recv.List[0].Type.(*ast.StarExpr)
				if !ok {
					continue
				}
				id, ok := st.X.(*ast.Ident)
				if !ok {
					continue
				}
				ast.Inspect(fd.Body, func(n ast.Node) bool {
					c, ok := n.(*ast.CallExpr)
					if !ok {
						return true
					}
					se, ok := c.Fun.(*ast.SelectorExpr)
					if !ok || se.Sel.Name != "WriteStructBegin" || len(c.Args) != 1 {
						return true
					}
					if bl, ok := c.Args[0].(*ast.BasicLit); ok {
						name, _ := strconv.Unquote(bl.Value)
						it.Types[name] = GoType{Pkg: pkg, Name: id.Name, File: rel}
					}
					return true
				})
			}
		}
	}
}

// RegKey is the registry key of an IDL struct-like of an item.
func RegKey(it *Item, idlName string) string { return it.Key + "/" + idlName }

// WriteDriver emits the driver sources and the registry for all items that
// generated successfully (and are not marked with a build error).
func (b *Batch) WriteDriver() error {
	dir := filepath.Join(b.Mod, "drv")
	_ = os.RemoveAll(dir)
	if err := os.MkdirAll(dir, 0o755); err != nil {
		return err
	}
	ents, _ := driverFS.ReadDir("driversrc")
	for _, e := range ents {
		src, _ := driverFS.ReadFile("driversrc/" + e.Name())
		name := strings.TrimSuffix(e.Name(), ".txt")
		if name == "extra_none.go" {
			replaced := false
			for n := range b.ExtraDriver {
				if strings.HasPrefix(n, "extra_") {
					replaced = true
				}
			}
			if replaced {
				continue
			}
		}
		if err := os.WriteFile(filepath.Join(dir, name), src, 0o644); err != nil {
			return err
		}
	}
	for n, s := range b.ExtraDriver {
		if err := os.WriteFile(filepath.Join(dir, n), []byte(s), 0o644); err != nil {
			return err
		}
	}
	if b.WithServices {
		b.Services = b.DiscoverServices()
		if err := os.WriteFile(filepath.Join(dir, "svcglue.go"), []byte(b.ServiceGlue(b.Services)), 0o644); err != nil {
			return err
		}
	}
	var sb strings.Builder
	sb.WriteString("package main\n\nimport (\n")
	alias := map[string]string{}
	var pkgs []string
	for _, it := range b.Items {
		if it.Exit != 0 || it.BuildErr != "" {
			continue
		}
		for _, gt := range it.Types {
			if _, ok := alias[gt.Pkg]; !ok {
				alias[gt.Pkg] = fmt.Sprintf("p%d", len(alias))
				pkgs = append(pkgs, gt.Pkg)
			}
		}
		for _, gt := range it.Vars {
			if _, ok := alias[gt.Pkg]; !ok {
				alias[gt.Pkg] = fmt.Sprintf("p%d", len(alias))
				pkgs = append(pkgs, gt.Pkg)
			}
		}
	}
	sort.Strings(pkgs)
	for _, p := range pkgs {
		fmt.Fprintf(&sb, "\t%s %q\n", alias[p], p)
	}
	sb.WriteString(")\n\nfunc init() {\n")
	for _, it := range b.Items {
		if it.Exit != 0 || it.BuildErr != "" {
			continue
		}
		names := make([]string, 0, len(it.Types))
		for n := range it.Types {
			names = append(names, n)
		}
		sort.Strings(names)
		for _, n := range names {
			gt := it.Types[n]
			fmt.Fprintf(&sb, "\tregistry[%q] = func() any { return new(%s.%s) }\n", RegKey(it, n), alias[gt.Pkg], gt.Name)
			if it.Ctors[n] {
				fmt.Fprintf(&sb, "\tctors[%q] = func() any { return %s.New%s() }\n", RegKey(it, n), alias[gt.Pkg], gt.Name)
			}
		}
		vnames := make([]string, 0, len(it.Vars))
		for n := range it.Vars {
			vnames = append(vnames, n)
		}
		sort.Strings(vnames)
		for _, n := range vnames {
			gt := it.Vars[n]
			fmt.Fprintf(&sb, "\tvars[%q] = func() any { return %s.%s }\n", RegKey(it, n), alias[gt.Pkg], gt.Name)
		}
	}
	sb.WriteString("}\n")
	return os.WriteFile(filepath.Join(dir, "registry.go"), []byte(sb.String()), 0o644)
}

// BuildResult of `go build` / `go vet` over the scratch module.
type BuildResult struct {
	OK     bool
	Output string
	// PerItem maps item keys to the compiler messages that mention their files.
	PerItem map[string][]string
}

func (b *Batch) goCmd(args ...string) (string, error) {
	cmd := exec.Command("go", args...)
	cmd.Dir = b.Mod
	cmd.Env = GoEnv()
	out, err := cmd.CombinedOutput()
	return string(out), err
}

var genPathRe = regexp.MustCompile(`gen/([^/\s:]+)/`)

func attribute(out string) map[string][]string {
	m := map[string][]string{}
	for _, l := range strings.Split(out, "\n") {
		if mm := genPathRe.FindStringSubmatch(l); mm != nil {
			m[mm[1]] = append(m[mm[1]], l)
		}
	}
	return m
}

// BuildAll compiles every generated package (go build ./gen/...).
func (b *Batch) BuildAll(vet bool) *BuildResult { return b.BuildItems(nil, vet) }

// BuildItems compiles (and vets) the generated packages of the given items
// with the real toolchain; nil means all.
func (b *Batch) BuildItems(keys []string, vet bool) *BuildResult {
	pats := []string{"./gen/..."}
	if keys != nil {
		pats = nil
		for _, k := range keys {
			pats = append(pats, "./gen/"+k+"/...")
		}
	}
	out, err := b.goCmd(append([]string{"build", "-gcflags=-e"}, pats...)...)
	r := &BuildResult{OK: err == nil, Output: out, PerItem: attribute(out)}
	if err == nil && vet {
		out, err = b.goCmd(append([]string{"vet"}, pats...)...)
		if err != nil {
			r.OK = false
			r.Output += out
			for k, v := range attribute(out) {
				r.PerItem[k] = append(r.PerItem[k], v...)
			}
		}
	}
	return r
}

// Driver is a running driver process.
type Driver struct {
	cmd    *exec.Cmd
	in     io.WriteCloser
	enc    *json.Encoder
	w      *bufio.Writer
	dec    *json.Decoder
	n      int
	mu     sync.Mutex
	stderr *tailBuffer
}

type Req struct {
	ID    int         `json:"id"`
	Type  string      `json:"type"`
	Op    string      `json:"op"`
	Val   *refsem.Val `json:"val,omitempty"`
	Val2  *refsem.Val `json:"val2,omitempty"`
	Bytes string      `json:"bytes,omitempty"`
	Args  any         `json:"args,omitempty"`
}

type Resp struct {
	ID      int                    `json:"id"`
	Bytes   string                 `json:"bytes,omitempty"`
	Val     *refsem.Val            `json:"val,omitempty"`
	Getters map[string]*refsem.Val `json:"getters,omitempty"`
	IsSet   map[string]bool        `json:"isset,omitempty"`
	Tags    map[string]string      `json:"tags,omitempty"`
	Err     string                 `json:"err,omitempty"`
	Panic   string                 `json:"panic,omitempty"`
	Bool    *bool                  `json:"bool,omitempty"`
	Int     *int64                 `json:"int,omitempty"`
	Extra   map[string]any         `json:"extra,omitempty"`
}

// BuildDriver compiles the driver; on failure the per-item attribution says
// which generated packages broke the build.
func (b *Batch) BuildDriver() (string, *BuildResult) {
	bin := filepath.Join(b.Scratch, "driver")
	out, err := b.goCmd("build", "-o", bin, "./drv")
	return bin, &BuildResult{OK: err == nil, Output: out, PerItem: attribute(out)}
}

// DiedError: the driver process ended while requests were outstanding.
type DiedError struct {
	Done   []*Resp // responses received before it died
	Stderr string
}

func (e *DiedError) Error() string { return "driver died: " + e.Stderr }

func StartDriver(bin string) (*Driver, error) { return StartDriverLimited(bin, 0) }

// StartDriverLimited launches the driver, optionally under an address-space limit.
func StartDriverLimited(bin string, memKB int) (*Driver, error) {
	cmd := exec.Command(bin)
	if memKB > 0 {
		cmd = exec.Command("bash", "-c", fmt.Sprintf("ulimit -v %d; exec %q", memKB, bin))
	}
	cmd.Env = []string{"PATH=" + os.Getenv("PATH"), "GOMAXPROCS=4"}
	in, err := cmd.StdinPipe()
	if err != nil {
		return nil, err
	}
	outp, err := cmd.StdoutPipe()
	if err != nil {
		return nil, err
	}
	eb := &tailBuffer{max: 4000}
	cmd.Stderr = eb
	if err := cmd.Start(); err != nil {
		return nil, err
	}
	w := bufio.NewWriterSize(in, 1<<20)
	d := &Driver{cmd: cmd, in: in, w: w, enc: json.NewEncoder(w), dec: json.NewDecoder(bufio.NewReaderSize(outp, 1<<20)), stderr: eb}
	return d, nil
}

// tailBuffer keeps the first bytes written to it (the head of a Go fatal error
// names the cause).
type tailBuffer struct {
	mu  sync.Mutex
	b   []byte
	max int
}

func (t *tailBuffer) Write(p []byte) (int, error) {
	t.mu.Lock()
	if len(t.b) < t.max {
		n := t.max - len(t.b)
		if n > len(p) {
			n = len(p)
		}
		t.b = append(t.b, p[:n]...)
	}
	t.mu.Unlock()
	return len(p), nil
}

func (t *tailBuffer) String() string {
	t.mu.Lock()
	defer t.mu.Unlock()
	return string(t.b)
}

// Do sends a batch of requests and returns the responses in order.
func (d *Driver) Do(reqs []*Req) ([]*Resp, error) {
	d.mu.Lock()
	defer d.mu.Unlock()
	errc := make(chan error, 1)
	go func() {
		for _, q := range reqs {
			d.n++
			q.ID = d.n
			if err := d.enc.Encode(q); err != nil {
				errc <- err
				return
			}
		}
		_ = d.enc.Encode(&Req{Op: "flush"})
		errc <- d.w.Flush()
	}()
	out := make([]*Resp, len(reqs))
	for i := range reqs {
		var r Resp
		if err := d.dec.Decode(&r); err != nil {
			time.Sleep(200 * time.Millisecond) // let stderr arrive
			msg := d.stderr.String()
			if k := strings.Index(msg, "\n\n"); k > 0 {
				msg = msg[:k]
			}
			return nil, &DiedError{Done: out[:i], Stderr: strings.TrimSpace(msg)}
		}
		out[i] = &r
	}
	if err := <-errc; err != nil {
		return nil, err
	}
	return out, nil
}

func (d *Driver) Close() {
	_ = d.in.Close()
	done := make(chan struct{})
	go func() { _ = d.cmd.Wait(); close(done) }()
	select {
	case <-done:
	case <-time.After(10 * time.Second):
		_ = d.cmd.Process.Kill()
	}
}
