package gen

import (
	"fmt"
	"os"
	"regexp"
	"strings"
)

// DocumentedOptions: the option names of the README's Go backend option table (working tree).
func DocumentedOptions() ([]string, error) {
	b, err := os.ReadFile("/repo/README.md")
	if err != nil {
		return nil, err
	}
	s := string(b)
	i := strings.Index(s, "### Go backend options")
	if i < 0 {
		return nil, fmt.Errorf("README: no option table")
	}
	s = s[i:]
	if j := strings.Index(s, "\n## "); j >= 0 {
		s = s[:j]
	}
	re := regexp.MustCompile("(?m)^\\| `([a-z0-9_]+)` \\|")
	var out []string
	for _, m := range re.FindAllStringSubmatch(s, -1) {
		out = append(out, m[1])
	}
	return out, nil
}

// OptionAlone returns the option list under which option o can be exercised on
// its own (some options need a companion), or nil when it needs external files.
func OptionAlone(o string) []string {
	switch o {
	case "code_ref", "code_ref_slim", "exp_code_ref", "keep_code_ref_name":
		return nil
	case "with_field_mask":
		return []string{"with_field_mask", "with_reflection"}
	case "field_mask_halfway", "field_mask_zero_required":
		return []string{o, "with_field_mask", "with_reflection"}
	case "streamx":
		return []string{"streamx", "thrift_streaming"}
	case "enable_nested_struct":
		return []string{"enable_nested_struct", "template=slim"}
	}
	return []string{o}
}
