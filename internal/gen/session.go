package gen

import (
	"fmt"
	"os"
	"strings"
	"time"

	"verif/internal/evid"
)

// Session bundles what every generate-compile-run check does first.
type Session struct {
	Run     *evid.Run
	Scratch string
	Batch   *Batch
	Drv     *Driver
	cleanup func()
	bin     string
	memKB   int
	deaths  int
}

func NewSession(run *evid.Run, id string) *Session {
	s := &Session{Run: run, Scratch: os.Getenv("VERIF_SCRATCH")}
	if s.Scratch == "" {
		d, err := os.MkdirTemp("", "verif-"+id+"-")
		if err != nil {
			run.Fatal("%v", err)
		}
		s.Scratch = d
		s.cleanup = func() { os.RemoveAll(d) }
	}
	tg, err := BuildThriftgo(s.Scratch)
	if err != nil {
		run.Fatal("%v", err)
	}
	b, err := NewBatch(s.Scratch, tg)
	if err != nil {
		run.Fatal("%v", err)
	}
	s.Batch = b
	return s
}

// LimitMemory makes the driver run under `ulimit -v kb` (0 = unlimited).
func (s *Session) LimitMemory(kb int) { s.memKB = kb }

func (s *Session) Close() {
	if s.Drv != nil {
		s.Drv.Close()
	}
	if s.cleanup != nil {
		s.cleanup()
	}
}

// Start generates all items, builds the driver (items whose generated code
// does not compile are dropped with a coverage note: that is C01's subject)
// and launches it. mustWork lists item keys that have to be accepted and
// compile, otherwise the harness cannot do its job (harness error).
func (s *Session) Start(mustWork ...string) {
	run, b := s.Run, s.Batch
	t0 := time.Now()
	b.Generate()
	b.Discover()
	must := map[string]bool{}
	for _, k := range mustWork {
		must[k] = true
	}
	for _, it := range b.Items {
		if it.Exit != 0 {
			if must[it.Key] {
				run.Fatal("thriftgo rejected item %s (%s %v), exit %d:\n%s", it.Key, it.Backend, it.Opts, it.Exit, tailStr(it.Stderr+it.Stdout, 3000))
			}
			run.NotExhaustive(fmt.Sprintf("item %s (%s %v) rejected by thriftgo (exit %d): %s", it.Key, it.Backend, it.Opts, it.Exit, firstLineStr(it.Stderr)))
		}
	}
	if err := b.WriteDriver(); err != nil {
		run.Fatal("%v", err)
	}
	bin, br := b.BuildDriver()
	for tries := 0; !br.OK && tries < 4; tries++ {
		if len(br.PerItem) == 0 {
			run.Fatal("driver does not build:\n%s", tailStr(br.Output, 4000))
		}
		progress := false
		for k, msgs := range br.PerItem {
			for _, it := range b.Items {
				if it.Key == k && it.BuildErr == "" {
					it.BuildErr = strings.Join(msgs, "\n")
					progress = true
					if must[k] {
						run.Fatal("generated code of item %s (%s %v) does not compile:\n%s", k, it.Backend, it.Opts, tailStr(br.Output, 4000))
					}
					run.NotExhaustive(fmt.Sprintf("generated code of item %s (%s %v) does not compile (see C01): %s", k, it.Backend, it.Opts, firstLineStr(it.BuildErr)))
				}
			}
		}
		if !progress {
			run.Fatal("driver does not build:\n%s", tailStr(br.Output, 4000))
		}
		_ = b.WriteDriver()
		bin, br = b.BuildDriver()
	}
	if !br.OK {
		run.Fatal("driver does not build:\n%s", tailStr(br.Output, 4000))
	}
	run.Set("generate_and_build_s", time.Since(t0).Seconds())
	s.bin = bin
	drv, err := StartDriverLimited(bin, s.memKB)
	if err != nil {
		run.Fatal("%v", err)
	}
	s.Drv = drv
}

// Usable: the item was accepted and its code compiles.
func Usable(it *Item) bool { return it.Exit == 0 && it.BuildErr == "" }

// Do sends requests in chunks. If the driver process dies (a fatal error that
// recover cannot catch: out of memory, stack overflow, concurrent map write)
// the request it was working on gets Panic = "driver process died: ...", the
// driver is restarted and the remaining requests are sent.
func (s *Session) Do(reqs []*Req) []*Resp {
	var out []*Resp
	chunk := 4000
	for i := 0; i < len(reqs); {
		j := i + chunk
		if j > len(reqs) {
			j = len(reqs)
		}
		r, err := s.Drv.Do(reqs[i:j])
		if err == nil {
			out = append(out, r...)
			i = j
			continue
		}
		de, ok := err.(*DiedError)
		if !ok {
			s.Run.Fatal("driver: %v", err)
		}
		out = append(out, de.Done...)
		out = append(out, &Resp{Panic: "driver process died: " + de.Stderr})
		i += len(de.Done) + 1
		s.deaths++
		if s.deaths > 200 {
			s.Run.Fatal("driver died more than 200 times; last: %s", de.Stderr)
		}
		s.Drv.Close()
		d, err2 := StartDriverLimited(s.bin, s.memKB)
		if err2 != nil {
			s.Run.Fatal("restart driver: %v", err2)
		}
		s.Drv = d
	}
	return out
}

func firstLineStr(s string) string {
	s = strings.TrimSpace(s)
	if i := strings.IndexByte(s, '\n'); i >= 0 {
		return s[:i]
	}
	return s
}

func tailStr(s string, n int) string {
	if len(s) > n {
		return s[len(s)-n:]
	}
	return s
}
