package gen

import (
	"fmt"
	"go/ast"
	"go/parser"
	"go/token"
	"path/filepath"
	"sort"
	"strconv"
	"strings"
)

// GoService is a generated service interface discovered from source.
type GoService struct {
	Item    *Item
	Pkg     string // import path
	Name    string // Go interface name
	Methods []GoMethod
	Embeds  []string // embedded (base) interfaces as written ("Base" or "pkg.Base")
	imports map[string]string
	File    string
}

type GoMethod struct {
	Name    string
	Params  []string // type expressions, qualified for use from package main (without ctx)
	Result  string   // "" for void
	HasErr  bool
	rawFunc *ast.FuncType
}

var goBuiltins = map[string]bool{"bool": true, "byte": true, "int8": true, "int16": true, "int32": true, "int64": true, "int": true, "float64": true, "string": true, "error": true, "any": true, "uint8": true}

// DiscoverServices finds, in every generated file of usable items, interfaces
// whose explicit methods all take context.Context first. Methods are kept in
// source order (= IDL function order).
func (b *Batch) DiscoverServices() []*GoService {
	var out []*GoService
	for _, it := range b.Items {
		if it.Exit != 0 {
			continue
		}
		fset := token.NewFileSet()
		for _, rel := range it.Files {
			if !strings.HasSuffix(rel, ".go") {
				continue
			}
			f, err := parser.ParseFile(fset, filepath.Join(it.OutDir, rel), nil, parser.SkipObjectResolution)
			if err != nil {
				continue
			}
			pkg := "vscratch/gen/" + it.Key + "/" + filepath.ToSlash(filepath.Dir(rel))
			imports := map[string]string{}
			for _, im := range f.Imports {
				p, _ := strconv.Unquote(im.Path.Value)
				name := p[strings.LastIndex(p, "/")+1:]
				if im.Name != nil {
					name = im.Name.Name
				}
				imports[name] = p
			}
			for _, d := range f.Decls {
				gd, ok := d.(*ast.GenDecl)
				if !ok || gd.Tok != token.TYPE {
					continue
				}
				for _, sp := range gd.Specs {
					ts := sp.(*ast.TypeSpec)
					itf, ok := ts.Type.(*ast.InterfaceType)
					if !ok || itf.Methods == nil {
						continue
					}
					svc := &GoService{Item: it, Pkg: pkg, Name: ts.Name.Name, imports: imports, File: rel}
					isSvc := true
					for _, m := range itf.Methods.List {
						ft, ok := m.Type.(*ast.FuncType)
						if !ok {
							// embedded interface
							svc.Embeds = append(svc.Embeds, exprText(m.Type))
							continue
						}
						if len(m.Names) != 1 || ft.Params == nil || len(ft.Params.List) == 0 || exprText(ft.Params.List[0].Type) != "context.Context" {
							isSvc = false
							break
						}
						svc.Methods = append(svc.Methods, GoMethod{Name: m.Names[0].Name, rawFunc: ft})
					}
					if isSvc && (len(svc.Methods) > 0 || len(svc.Embeds) > 0) {
						out = append(out, svc)
					}
				}
			}
		}
	}
	return out
}

func exprText(e ast.Expr) string {
	switch x := e.(type) {
	case *ast.Ident:
		return x.Name
	case *ast.SelectorExpr:
		return exprText(x.X) + "." + x.Sel.Name
	case *ast.StarExpr:
		return "*" + exprText(x.X)
	case *ast.ArrayType:
		return "[]" + exprText(x.Elt)
	case *ast.MapType:
		return "map[" + exprText(x.Key) + "]" + exprText(x.Value)
	}
	return "?"
}

// glue emits handler types, client and processor factories for all services.
type glue struct {
	alias map[string]string // import path -> alias
	sb    strings.Builder
}

func (g *glue) use(path string) string {
	if a, ok := g.alias[path]; ok {
		return a
	}
	a := fmt.Sprintf("q%d", len(g.alias))
	g.alias[path] = a
	return a
}

// qual rewrites a type expression of a generated file for package main.
func (g *glue) qual(s *GoService, e ast.Expr) string {
	switch x := e.(type) {
	case *ast.Ident:
		if goBuiltins[x.Name] {
			return x.Name
		}
		return g.use(s.Pkg) + "." + x.Name
	case *ast.SelectorExpr:
		if id, ok := x.X.(*ast.Ident); ok {
			if p, ok := s.imports[id.Name]; ok {
				return g.use(p) + "." + x.Sel.Name
			}
		}
		return exprText(x)
	case *ast.StarExpr:
		return "*" + g.qual(s, x.X)
	case *ast.ArrayType:
		return "[]" + g.qual(s, x.Elt)
	case *ast.MapType:
		return "map[" + g.qual(s, x.Key) + "]" + g.qual(s, x.Value)
	}
	return "any"
}

// ServiceGlue returns the source of a driver file with, for every discovered
// service: a recording handler, and registry entries for client / processor
// factories and the Go method names in IDL order.
func (b *Batch) ServiceGlue(svcs []*GoService) string {
	g := &glue{alias: map[string]string{}}
	byKey := map[string]*GoService{}
	for _, s := range svcs {
		byKey[s.Pkg+"."+s.Name] = s
	}
	var body strings.Builder
	hname := func(s *GoService) string {
		return "h_" + strings.NewReplacer("/", "_", ".", "_", "-", "_").Replace(strings.TrimPrefix(s.Pkg, "vscratch/gen/")) + "_" + s.Name
	}
	for _, s := range svcs {
		if s.Item.BuildErr != "" {
			continue
		}
		hn := hname(s)
		fmt.Fprintf(&body, "type %s struct {\n", hn)
		for _, e := range s.Embeds {
			// resolve the embedded interface to its handler type
			var base *GoService
			if i := strings.Index(e, "."); i >= 0 {
				if p, ok := s.imports[e[:i]]; ok {
					base = byKey[p+"."+e[i+1:]]
				}
			} else {
				base = byKey[s.Pkg+"."+e]
			}
			if base != nil {
				fmt.Fprintf(&body, "\t%s\n", hname(base))
			}
		}
		body.WriteString("}\n\n")
		var mnames []string
		for _, m := range s.Methods {
			ft := m.rawFunc
			var params, args []string
			n := 0
			for i, p := range ft.Params.List {
				cnt := len(p.Names)
				if cnt == 0 {
					cnt = 1
				}
				for k := 0; k < cnt; k++ {
					if i == 0 && k == 0 {
						params = append(params, "ctx context.Context")
						continue
					}
					params = append(params, fmt.Sprintf("a%d %s", n, g.qual(s, p.Type)))
					args = append(args, fmt.Sprintf("a%d", n))
					n++
				}
			}
			resT := ""
			if ft.Results != nil {
				for _, r := range ft.Results.List {
					if t := exprText(r.Type); t != "error" {
						resT = g.qual(s, r.Type)
					}
				}
			}
			key := s.Item.Key + "/" + s.Name + "." + m.Name
			if resT != "" {
				fmt.Fprintf(&body, "func (%s) %s(%s) (r %s, err error) {\n\terr = handlerCall(%q, reflect.ValueOf(&r).Elem(), %s)\n\treturn\n}\n\n", hn, m.Name, strings.Join(params, ", "), resT, key, strings.Join(append([]string{}, args...), ", "))
			} else {
				fmt.Fprintf(&body, "func (%s) %s(%s) (err error) {\n\treturn handlerCall(%q, reflect.Value{}, %s)\n}\n\n", hn, m.Name, strings.Join(params, ", "), key, strings.Join(args, ", "))
			}
			mnames = append(mnames, strconv.Quote(m.Name))
		}
		a := g.use(s.Pkg)
		fmt.Fprintf(&body, "func init() {\n\tsvcClients[%q] = func(c thrift.TClient) any { return %s.New%sClient(c) }\n\tsvcProcessors[%q] = func() thrift.TProcessor { return %s.New%sProcessor(%s{}) }\n\tsvcMethods[%q] = []string{%s}\n}\n\n",
			s.Item.Key+"/"+s.Name, a, s.Name, s.Item.Key+"/"+s.Name, a, s.Name, hn, s.Item.Key+"/"+s.Name, strings.Join(mnames, ", "))
	}
	var sb strings.Builder
	sb.WriteString("package main\n\nimport (\n\t\"context\"\n\t\"reflect\"\n\n\t\"github.com/apache/thrift/lib/go/thrift\"\n")
	var paths []string
	for p := range g.alias {
		paths = append(paths, p)
	}
	sort.Strings(paths)
	for _, p := range paths {
		fmt.Fprintf(&sb, "\t%s %q\n", g.alias[p], p)
	}
	sb.WriteString(")\n\nvar _ = context.Background\nvar _ = reflect.ValueOf\n\n")
	sb.WriteString(body.String())
	return sb.String()
}
