package universe

import (
	"fmt"
	"strings"

	"verif/internal/idl"
)

// Way is one way of writing a value of a type, with the constant and the struct
// (default of a default-requiredness and of an optional field) built from it.
type Way struct {
	Name string
	T    *idl.Type
	V    *idl.Value
	// filled by Attach
	C *idl.Const
	S *idl.Struct
}

// ConstEnv is the vocabulary the ways are written over.
type ConstEnv struct {
	Inc, Main                       *idl.File
	E, IncE                         *idl.Enum
	Inner                           *idl.Struct
	TdI32, TdE, TdS, TdL, IncTdE    *idl.Typedef
	cI, cS, cD, cB, cE, cL, cM, cSt *idl.Const
	kI, kS, kD, kB, kE, icL         *idl.Const
}

// NewConstEnv builds the two files (ns is the go namespace prefix).
func NewConstEnv(ns string) *ConstEnv {
	e := &ConstEnv{}
	i32, str, dbl, bl := idl.T(idl.I32), idl.T(idl.String), idl.T(idl.Double), idl.T(idl.Bool)
	e.Inc = &idl.File{Path: "inc.thrift", Namespaces: []*idl.Namespace{{Lang: "go", Name: ns + ".inc"}}}
	e.IncE = &idl.Enum{Name: "IncE", Values: []*idl.EnumValue{{Name: "P", Value: 3, Explicit: true}, {Name: "Q"}}}
	e.Inc.Add(e.IncE)
	e.IncTdE = &idl.Typedef{Name: "IncTdE", Type: idl.EnumT(e.IncE)}
	e.Inc.Add(e.IncTdE)
	e.kI = &idl.Const{Name: "Kinci", Type: i32, Value: idl.VI(42)}
	e.kS = &idl.Const{Name: "Kincs", Type: str, Value: idl.VS("from inc")}
	e.kD = &idl.Const{Name: "Kincd", Type: dbl, Value: idl.VD(2.5)}
	e.kB = &idl.Const{Name: "Kincb", Type: bl, Value: idl.VB(true)}
	e.kE = &idl.Const{Name: "Kince", Type: idl.EnumT(e.IncE), Value: idl.VE(e.IncE, e.IncE.Values[1])}
	e.icL = &idl.Const{Name: "Kincl", Type: idl.ListOf(i32), Value: idl.VL(idl.VI(7), idl.VI(8))}
	for _, c := range []*idl.Const{e.kI, e.kS, e.kD, e.kB, e.kE, e.icL} {
		e.Inc.Add(c)
	}
	e.Main = &idl.File{Path: "k.thrift", Includes: []*idl.Include{{Path: "inc.thrift", File: e.Inc}}, Namespaces: []*idl.Namespace{{Lang: "go", Name: ns + ".k"}}}
	e.E = &idl.Enum{Name: "E", Values: []*idl.EnumValue{{Name: "A"}, {Name: "B", Value: 5, Explicit: true}, {Name: "C", Value: -2, Explicit: true}}}
	e.Main.Add(e.E)
	e.Inner = &idl.Struct{Cat: "struct", Name: "Inner", Fields: []*idl.Field{fld(1, "a", i32, idl.ReqDefault, nil), fld(2, "b", str, idl.ReqOptional, nil), fld(3, "l", idl.ListOf(i32), idl.ReqDefault, nil), fld(4, "e", idl.EnumT(e.E), idl.ReqOptional, nil)}}
	e.Main.Add(e.Inner)
	e.TdI32 = &idl.Typedef{Name: "TdI32", Type: i32}
	e.TdE = &idl.Typedef{Name: "TdE", Type: idl.EnumT(e.E)}
	e.TdS = &idl.Typedef{Name: "TdS", Type: idl.StructT(e.Inner)}
	e.TdL = &idl.Typedef{Name: "TdL", Type: idl.ListOf(str)}
	for _, t := range []*idl.Typedef{e.TdI32, e.TdE, e.TdS, e.TdL} {
		e.Main.Add(t)
	}
	e.cI = &idl.Const{Name: "Kloci", Type: i32, Value: idl.VI(-9)}
	e.cS = &idl.Const{Name: "Klocs", Type: str, Value: idl.VS("loc")}
	e.cD = &idl.Const{Name: "Klocd", Type: dbl, Value: idl.VD(0.5)}
	e.cB = &idl.Const{Name: "Klocb", Type: bl, Value: idl.VB(false)}
	e.cE = &idl.Const{Name: "Kloce", Type: idl.EnumT(e.E), Value: idl.VE(e.E, e.E.Values[1])}
	e.cL = &idl.Const{Name: "Klocl", Type: idl.ListOf(str), Value: idl.VL(idl.VS("x"), idl.VS("y"))}
	e.cM = &idl.Const{Name: "Klocm", Type: idl.MapOf(str, i32), Value: idl.VM([2]*idl.Value{idl.VS("k"), idl.VI(1)})}
	e.cSt = &idl.Const{Name: "Klocst", Type: idl.StructT(e.Inner), Value: idl.VM([2]*idl.Value{idl.VS("a"), idl.VI(4)})}
	for _, c := range []*idl.Const{e.cI, e.cS, e.cD, e.cB, e.cE, e.cL, e.cM, e.cSt} {
		e.Main.Add(c)
	}
	return e
}

func lit(s string, q byte) *idl.Value { return &idl.Value{K: idl.VLit, Lit: s, Quote: q} }
func num(text string) *idl.Value {
	return &idl.Value{K: idl.VInt, Text: text, Int: mustInt(text)}
}
func mustInt(t string) int64 {
	var v int64
	if strings.HasPrefix(t, "0x") {
		fmt.Sscanf(t[2:], "%x", &v)
	} else {
		fmt.Sscanf(t, "%d", &v)
	}
	return v
}
func dtext(t string) *idl.Value        { return &idl.Value{K: idl.VDouble, Text: t} }
func kv(k, v *idl.Value) [2]*idl.Value { return [2]*idl.Value{k, v} }

// Ways enumerates every way of writing a value over e.
func Ways(e *ConstEnv) []*Way {
	i32, i64, str, dbl, bl, bin, byt, i16 := idl.T(idl.I32), idl.T(idl.I64), idl.T(idl.String), idl.T(idl.Double), idl.T(idl.Bool), idl.T(idl.Binary), idl.T(idl.Byte), idl.T(idl.I16)
	E := idl.EnumT(e.E)
	var ws []*Way
	add := func(n string, t *idl.Type, v *idl.Value) { ws = append(ws, &Way{Name: n, T: t, V: v}) }
	// bool
	add("bool_true", bl, idl.VB(true))
	add("bool_false", bl, idl.VB(false))
	add("bool_1", bl, idl.VI(1))
	add("bool_0", bl, idl.VI(0))
	add("bool_const", bl, idl.VC(e.cB))
	add("bool_incconst", bl, idl.VC(e.kB))
	// integers
	for _, x := range []struct {
		n string
		t *idl.Type
	}{{"byte", byt}, {"i16", i16}, {"i32", i32}, {"i64", i64}, {"tdi32", idl.TypedefT(e.TdI32)}} {
		add(x.n+"_lit", x.t, idl.VI(5))
		add(x.n+"_neg", x.t, idl.VI(-3))
		add(x.n+"_zero", x.t, idl.VI(0))
		add(x.n+"_hex", x.t, num("0x1f"))
		add(x.n+"_const", x.t, idl.VC(e.cI))
		add(x.n+"_incconst", x.t, idl.VC(e.kI))
	}
	add("i64_max", i64, idl.VI(9223372036854775807))
	add("i64_min1", i64, idl.VI(-9223372036854775807))
	add("i32_min", i32, idl.VI(-2147483648))
	add("byte_max", byt, idl.VI(127))
	add("i32_true", i32, idl.VB(true))
	add("i32_enumvalue", i32, idl.VE(e.E, e.E.Values[1]))
	// double
	add("double_lit", dbl, idl.VD(1.5))
	add("double_neg", dbl, idl.VD(-0.25))
	add("double_exp", dbl, dtext("1.5e3"))
	add("double_exp2", dbl, dtext("2E-2"))
	add("double_big", dbl, dtext("1e300"))
	add("double_int", dbl, idl.VI(2))
	add("double_negint", dbl, idl.VI(-7))
	add("double_const", dbl, idl.VC(e.cD))
	add("double_incconst", dbl, idl.VC(e.kD))
	add("double_intconst", dbl, idl.VC(e.cI))
	// strings: quote styles x escape alphabet
	strs := []struct{ n, s string }{{"plain", "plain"}, {"empty", ""}, {"tab", `a\tb`}, {"newline", `l1\nl2`}, {"hex", `\x41z`}, {"backslash", `back\\slash`}, {"utf8", "é"}, {"dq", `q"d`}, {"sq", `q'd`}, {"both", `a"b'c`}, {"unicode", `新`}, {"percent", "50% %d"}, {"backtick", "a`b"}}
	for _, x := range strs {
		add("string_dq_"+x.n, str, lit(x.s, '"'))
		add("string_sq_"+x.n, str, lit(x.s, '\''))
	}
	add("string_const", str, idl.VC(e.cS))
	add("string_incconst", str, idl.VC(e.kS))
	add("binary_lit", bin, lit("bin", '"'))
	add("binary_hex", bin, lit(`\x00\xff`, '"'))
	add("binary_empty", bin, lit("", '"'))
	// enums
	add("enum_name", E, idl.VE(e.E, e.E.Values[0]))
	add("enum_name_neg", E, idl.VE(e.E, e.E.Values[2]))
	add("enum_number", E, idl.VI(5))
	add("enum_number_undeclared", E, idl.VI(77))
	add("enum_const", E, idl.VC(e.cE))
	add("enum_via_typedef", E, &idl.Value{K: idl.VEnumRef, Enum: e.E, EV: e.E.Values[1], Via: e.TdE})
	add("tdenum_name", idl.TypedefT(e.TdE), idl.VE(e.E, e.E.Values[1]))
	add("tdenum_via_typedef", idl.TypedefT(e.TdE), &idl.Value{K: idl.VEnumRef, Enum: e.E, EV: e.E.Values[2], Via: e.TdE})
	add("incenum_name", idl.EnumT(e.IncE), idl.VE(e.IncE, e.IncE.Values[0]))
	add("incenum_number", idl.EnumT(e.IncE), idl.VI(4))
	add("incenum_const", idl.EnumT(e.IncE), idl.VC(e.kE))
	add("incenum_via_inctypedef", idl.EnumT(e.IncE), &idl.Value{K: idl.VEnumRef, Enum: e.IncE, EV: e.IncE.Values[1], Via: e.IncTdE})
	add("inctdenum_name", idl.TypedefT(e.IncTdE), idl.VE(e.IncE, e.IncE.Values[1]))
	// containers
	add("list_empty", idl.ListOf(i32), idl.VL())
	add("list_lits", idl.ListOf(i32), idl.VL(idl.VI(1), idl.VI(-2), num("0x10")))
	add("list_refs", idl.ListOf(i32), idl.VL(idl.VC(e.cI), idl.VC(e.kI), idl.VE(e.E, e.E.Values[1])))
	add("list_const", idl.ListOf(str), idl.VC(e.cL))
	add("list_incconst", idl.ListOf(i32), idl.VC(e.icL))
	add("list_nested", idl.ListOf(idl.ListOf(str)), idl.VL(idl.VL(idl.VS("a"), idl.VS("b")), idl.VL()))
	add("list_enum", idl.ListOf(E), idl.VL(idl.VE(e.E, e.E.Values[0]), idl.VI(5), idl.VE(e.E, e.E.Values[2])))
	add("list_double", idl.ListOf(dbl), idl.VL(idl.VD(1.5), idl.VI(2), dtext("1e3")))
	add("list_bool", idl.ListOf(bl), idl.VL(idl.VB(true), idl.VB(false)))
	add("tdlist", idl.TypedefT(e.TdL), idl.VL(idl.VS("p"), idl.VS("q")))
	add("set_string", idl.SetOf(str), idl.VL(idl.VS("a"), idl.VS("b")))
	add("set_empty", idl.SetOf(i32), idl.VL())
	add("map_empty", idl.MapOf(str, i32), idl.VM())
	add("map_lits", idl.MapOf(str, i32), idl.VM(kv(idl.VS("x"), idl.VI(1)), kv(idl.VS("y"), idl.VI(2))))
	add("map_refs", idl.MapOf(str, i32), idl.VM(kv(idl.VC(e.cS), idl.VC(e.cI)), kv(idl.VS("z"), idl.VC(e.kI))))
	add("map_const", idl.MapOf(str, i32), idl.VC(e.cM))
	add("map_nested", idl.MapOf(i32, idl.ListOf(str)), idl.VM(kv(idl.VI(1), idl.VL(idl.VS("a"))), kv(idl.VI(2), idl.VL())))
	add("map_enumkey", idl.MapOf(E, str), idl.VM(kv(idl.VE(e.E, e.E.Values[0]), idl.VS("a")), kv(idl.VI(5), idl.VS("b"))))
	add("map_enumval", idl.MapOf(str, E), idl.VM(kv(idl.VS("k"), idl.VE(e.E, e.E.Values[1]))))
	add("map_map", idl.MapOf(str, idl.MapOf(str, i32)), idl.VM(kv(idl.VS("o"), idl.VM(kv(idl.VS("i"), idl.VI(1))))))
	add("map_binkey", idl.MapOf(bin, i32), idl.VM(kv(idl.VS("bk"), idl.VI(1))))
	// structs
	S := idl.StructT(e.Inner)
	add("struct_empty", S, idl.VM())
	add("struct_one", S, idl.VM(kv(idl.VS("a"), idl.VI(1))))
	add("struct_all", S, idl.VM(kv(idl.VS("a"), idl.VI(1)), kv(idl.VS("b"), idl.VS("x")), kv(idl.VS("l"), idl.VL(idl.VI(1), idl.VI(2))), kv(idl.VS("e"), idl.VE(e.E, e.E.Values[1]))))
	add("struct_refs", S, idl.VM(kv(idl.VS("a"), idl.VC(e.kI)), kv(idl.VS("b"), idl.VC(e.cS))))
	add("struct_const", S, idl.VC(e.cSt))
	add("tdstruct", idl.TypedefT(e.TdS), idl.VM(kv(idl.VS("a"), idl.VI(2))))
	add("list_struct", idl.ListOf(S), idl.VL(idl.VM(kv(idl.VS("a"), idl.VI(1))), idl.VM()))
	add("map_struct", idl.MapOf(str, S), idl.VM(kv(idl.VS("k"), idl.VM(kv(idl.VS("b"), idl.VS("v"))))))
	// struct constants named inside container literals and struct literals
	add("list_struct_constref", idl.ListOf(S), idl.VL(idl.VC(e.cSt), idl.VM(kv(idl.VS("a"), idl.VI(2))), idl.VC(e.cSt)))
	add("set_struct_constref", idl.SetOf(S), idl.VL(idl.VC(e.cSt)))
	add("map_struct_constref", idl.MapOf(str, S), idl.VM(kv(idl.VS("k"), idl.VC(e.cSt)), kv(idl.VS("l"), idl.VM())))
	return ws
}

// Attach adds the constant and the struct of a way to file f.
func Attach(f *idl.File, w *Way) {
	w.C = &idl.Const{Name: "Kx" + strings.ReplaceAll(w.Name, "_", ""), Type: w.T, Value: w.V}
	f.Add(w.C)
	w.S = &idl.Struct{Cat: "struct", Name: "Df" + strings.ReplaceAll(w.Name, "_", ""), Fields: []*idl.Field{fld(1, "f", w.T, idl.ReqDefault, w.V), fld(2, "g", w.T, idl.ReqOptional, w.V), fld(3, "tail", idl.T(idl.I32), idl.ReqDefault, nil)}}
	f.Add(w.S)
}


// SamePkgFamily: an include whose Go package NAME equals the including file's
// (api.v1.common included from api.v2.common) and which defines constants of
// the same names as the including file; every way refers to the INCLUDED
// constant with a qualified identifier.
func SamePkgFamily(ns string) (main, inc *idl.File, ways []*Way) {
	i32, str := idl.T(idl.I32), idl.T(idl.String)
	inc = &idl.File{Path: "v1/common.thrift", Namespaces: []*idl.Namespace{{Lang: "go", Name: ns + ".v1.common"}}}
	il := &idl.Const{Name: "LIMIT", Type: i32, Value: idl.VI(10)}
	in := &idl.Const{Name: "NAME", Type: str, Value: idl.VS("one")}
	ie := &idl.Enum{Name: "Mode", Values: []*idl.EnumValue{{Name: "A", Value: 1, Explicit: true}, {Name: "B", Value: 2, Explicit: true}}}
	is := &idl.Struct{Cat: "struct", Name: "S1", Fields: []*idl.Field{fld(1, "v", i32, idl.ReqDefault, nil)}}
	ik := &idl.Const{Name: "MODE", Type: idl.EnumT(ie), Value: idl.VE(ie, ie.Values[0])}
	inc.Add(il)
	inc.Add(in)
	inc.Add(ie)
	inc.Add(is)
	inc.Add(ik)
	main = &idl.File{Path: "v2/common.thrift", Includes: []*idl.Include{{Path: "../v1/common.thrift", File: inc}}, Namespaces: []*idl.Namespace{{Lang: "go", Name: ns + ".v2.common"}}}
	ml := &idl.Const{Name: "LIMIT", Type: i32, Value: idl.VI(50)}
	mn := &idl.Const{Name: "NAME", Type: str, Value: idl.VS("two")}
	me := &idl.Enum{Name: "Mode", Values: []*idl.EnumValue{{Name: "A", Value: 7, Explicit: true}, {Name: "B", Value: 8, Explicit: true}}}
	mk := &idl.Const{Name: "MODE", Type: idl.EnumT(me), Value: idl.VE(me, me.Values[1])}
	main.Add(ml)
	main.Add(mn)
	main.Add(me)
	main.Add(mk)
	// keeps the import of the included package alive
	main.Add(&idl.Struct{Cat: "struct", Name: "UsesInc", Fields: []*idl.Field{fld(1, "s", idl.StructT(is), idl.ReqDefault, nil)}})
	add := func(n string, t *idl.Type, v *idl.Value) { ways = append(ways, &Way{Name: n, T: t, V: v}) }
	add("samepkg_int", i32, idl.VC(il))
	add("samepkg_string", str, idl.VC(in))
	add("samepkg_local_int", i32, idl.VC(ml))
	add("samepkg_map", idl.MapOf(str, i32), idl.VM([2]*idl.Value{idl.VS("inc"), idl.VC(il)}, [2]*idl.Value{idl.VS("loc"), idl.VC(ml)}))
	add("samepkg_list", idl.ListOf(str), idl.VL(idl.VC(in), idl.VC(mn)))
	add("samepkg_enum_const", idl.EnumT(ie), idl.VC(ik))
	add("samepkg_enum_value", idl.EnumT(ie), idl.VE(ie, ie.Values[1]))
	add("samepkg_local_enum_value", idl.EnumT(me), idl.VE(me, me.Values[0]))
	return
}


// CollideFamily: constants whose IDL names differ but whose Go names coincide
// (max_size / MaxSize / Max_size), locally and in an include; every way refers
// to one of them.
func CollideFamily(ns string) (main, inc *idl.File, ways []*Way) {
	i32, str := idl.T(idl.I32), idl.T(idl.String)
	inc = &idl.File{Path: "cinc.thrift", Namespaces: []*idl.Namespace{{Lang: "go", Name: ns + ".cinc"}}}
	i1 := &idl.Const{Name: "burst_rate", Type: i32, Value: idl.VI(100)}
	i2 := &idl.Const{Name: "BurstRate", Type: i32, Value: idl.VI(200)}
	inc.Add(i1)
	inc.Add(i2)
	inc.Add(&idl.Struct{Cat: "struct", Name: "IS", Fields: []*idl.Field{fld(1, "v", i32, idl.ReqDefault, nil)}})
	main = &idl.File{Path: "cmain.thrift", Includes: []*idl.Include{{Path: "cinc.thrift", File: inc}}, Namespaces: []*idl.Namespace{{Lang: "go", Name: ns + ".cmain"}}}
	m1 := &idl.Const{Name: "max_size", Type: i32, Value: idl.VI(10)}
	m2 := &idl.Const{Name: "MaxSize", Type: i32, Value: idl.VI(20)}
	m3 := &idl.Const{Name: "Max_size", Type: i32, Value: idl.VI(30)}
	s1 := &idl.Const{Name: "label_text", Type: str, Value: idl.VS("first")}
	s2 := &idl.Const{Name: "LabelText", Type: str, Value: idl.VS("second")}
	for _, c := range []*idl.Const{m1, m2, m3, s1, s2} {
		main.Add(c)
	}
	add := func(n string, t *idl.Type, v *idl.Value) { ways = append(ways, &Way{Name: n, T: t, V: v}) }
	add("collide_first", i32, idl.VC(m1))
	add("collide_second", i32, idl.VC(m2))
	add("collide_third", i32, idl.VC(m3))
	add("collide_str_second", str, idl.VC(s2))
	add("collide_inc_first", i32, idl.VC(i1))
	add("collide_inc_second", i32, idl.VC(i2))
	add("collide_list", idl.ListOf(i32), idl.VL(idl.VC(m1), idl.VC(m2), idl.VC(m3), idl.VC(i1), idl.VC(i2)))
	add("collide_map", idl.MapOf(str, i32), idl.VM([2]*idl.Value{idl.VC(s1), idl.VC(m2)}, [2]*idl.Value{idl.VC(s2), idl.VC(i2)}))
	return
}
