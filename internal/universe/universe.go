// Package universe holds the bounded-exhaustive enumerators of IDL programs
// shared by the generate-compile-run checks: the *type kernel* program has one
// struct-like per field shape, so generated code size is linear in the
// universe and every (type constructor x leaf class x requiredness) arm of the
// generator's templates is reached.
package universe

import (
	"fmt"

	"verif/internal/idl"
)

// Env is the fixed vocabulary of leaf definitions a kernel program is built on.
type Env struct {
	Inc, Main                        *idl.File
	E, IncE                          *idl.Enum
	Inner, IncS, U, X                *idl.Struct
	InnerD                           *idl.Struct // element struct with optional fields that have declared defaults
	TdI32, TdE, TdS, TdL, TdTd, IncT *idl.Typedef
	TdME, TdLE                       *idl.Typedef // typedef'd containers holding enums
	TdBin                            *idl.Typedef // typedef binary (as value, element and map key)
	// StandardRoots: leave out / keep only the roots whose field 1 has a declared default
	// (lets a check put them into a program of their own)
	NoDefaultRoots, OnlyDefaultRoots bool
}

func fld(id int32, name string, t *idl.Type, req idl.Req, def *idl.Value) *idl.Field {
	return &idl.Field{ID: id, ExplicitID: true, Name: name, Type: t, Req: req, Default: def}
}

// NewEnv creates the two files and the leaf definitions.
func NewEnv(ns string) *Env {
	e := &Env{}
	i32, str := idl.T(idl.I32), idl.T(idl.String)
	e.Inc = &idl.File{Path: "inc.thrift", Namespaces: []*idl.Namespace{{Lang: "go", Name: ns + ".inc"}}}
	e.IncE = &idl.Enum{Name: "IncE", Values: []*idl.EnumValue{{Name: "P", Value: 3, Explicit: true}, {Name: "Q"}}}
	e.Inc.Add(e.IncE)
	e.IncS = &idl.Struct{Cat: "struct", Name: "IncS", Fields: []*idl.Field{fld(1, "a", i32, idl.ReqDefault, nil), fld(2, "b", str, idl.ReqOptional, nil)}}
	e.Inc.Add(e.IncS)
	e.IncT = &idl.Typedef{Name: "IncT", Type: idl.MapOf(str, idl.StructT(e.IncS))}
	e.Inc.Add(e.IncT)

	e.Main = &idl.File{Path: "k.thrift", Includes: []*idl.Include{{Path: "inc.thrift", File: e.Inc}}, Namespaces: []*idl.Namespace{{Lang: "go", Name: ns + ".k"}}}
	e.E = &idl.Enum{Name: "E", Values: []*idl.EnumValue{{Name: "A"}, {Name: "B", Value: 5, Explicit: true}, {Name: "C", Value: -2, Explicit: true}}}
	e.Main.Add(e.E)
	e.Inner = &idl.Struct{Cat: "struct", Name: "Inner", Fields: []*idl.Field{fld(1, "a", i32, idl.ReqDefault, nil), fld(2, "b", str, idl.ReqOptional, nil)}}
	e.Main.Add(e.Inner)
	e.InnerD = &idl.Struct{Cat: "struct", Name: "InnerD", Fields: []*idl.Field{fld(1, "a", i32, idl.ReqDefault, nil), fld(2, "q", i32, idl.ReqOptional, idl.VI(7)), fld(3, "s", str, idl.ReqOptional, idl.VS("dq")), fld(4, "d", i32, idl.ReqDefault, idl.VI(5))}}
	e.Main.Add(e.InnerD)
	e.U = &idl.Struct{Cat: "union", Name: "U", Fields: []*idl.Field{fld(1, "n", idl.T(idl.I64), idl.ReqDefault, nil), fld(2, "s", str, idl.ReqDefault, nil)}}
	e.Main.Add(e.U)
	e.X = &idl.Struct{Cat: "exception", Name: "X", Fields: []*idl.Field{fld(1, "code", i32, idl.ReqDefault, nil), fld(2, "msg", str, idl.ReqOptional, nil)}}
	e.Main.Add(e.X)
	e.TdI32 = &idl.Typedef{Name: "TdI32", Type: i32}
	e.Main.Add(e.TdI32)
	e.TdE = &idl.Typedef{Name: "TdE", Type: idl.EnumT(e.E)}
	e.Main.Add(e.TdE)
	e.TdS = &idl.Typedef{Name: "TdS", Type: idl.StructT(e.Inner)}
	e.Main.Add(e.TdS)
	e.TdL = &idl.Typedef{Name: "TdL", Type: idl.ListOf(i32)}
	e.Main.Add(e.TdL)
	e.TdTd = &idl.Typedef{Name: "TdTd", Type: idl.TypedefT(e.TdI32)}
	e.Main.Add(e.TdTd)
	e.TdME = &idl.Typedef{Name: "TdME", Type: idl.MapOf(idl.EnumT(e.E), str)}
	e.Main.Add(e.TdME)
	e.TdLE = &idl.Typedef{Name: "TdLE", Type: idl.ListOf(idl.EnumT(e.E))}
	e.Main.Add(e.TdLE)
	e.TdBin = &idl.Typedef{Name: "TdBin", Type: idl.T(idl.Binary)}
	e.Main.Add(e.TdBin)
	return e
}

type Named struct {
	Name string
	T    *idl.Type
}

// Leaves: every leaf class of DESIGN §2.1.
func (e *Env) Leaves() []Named {
	return []Named{
		{"bool", idl.T(idl.Bool)}, {"byte", idl.T(idl.Byte)}, {"i16", idl.T(idl.I16)}, {"i32", idl.T(idl.I32)}, {"i64", idl.T(idl.I64)},
		{"double", idl.T(idl.Double)}, {"string", idl.T(idl.String)}, {"binary", idl.T(idl.Binary)},
		{"enum", idl.EnumT(e.E)}, {"struct", idl.StructT(e.Inner)}, {"union", idl.StructT(e.U)}, {"exception", idl.StructT(e.X)},
		{"tdbase", idl.TypedefT(e.TdI32)}, {"tdenum", idl.TypedefT(e.TdE)}, {"tdstruct", idl.TypedefT(e.TdS)}, {"tdcont", idl.TypedefT(e.TdL)}, {"tdtd", idl.TypedefT(e.TdTd)},
		{"incstruct", idl.StructT(e.IncS)}, {"incenum", idl.EnumT(e.IncE)}, {"inctd", idl.TypedefT(e.IncT)},
		{"tdmapenum", idl.TypedefT(e.TdME)}, {"tdlistenum", idl.TypedefT(e.TdLE)}, {"structdef", idl.StructT(e.InnerD)}, {"tdbinary", idl.TypedefT(e.TdBin)},
	}
}

// KeyLeaves: leaf classes used as map keys (thrift allows any type; Go needs
// comparable keys, which struct pointers and strings-for-binary are).
func (e *Env) KeyLeaves(all bool) []Named {
	ks := []Named{{"i32", idl.T(idl.I32)}, {"string", idl.T(idl.String)}, {"enum", idl.EnumT(e.E)}}
	if all {
		ks = append(ks, Named{"i64", idl.T(idl.I64)}, Named{"bool", idl.T(idl.Bool)}, Named{"byte", idl.T(idl.Byte)}, Named{"i16", idl.T(idl.I16)}, Named{"double", idl.T(idl.Double)},
			Named{"binary", idl.T(idl.Binary)}, Named{"tdbinary", idl.TypedefT(e.TdBin)}, Named{"tdbase", idl.TypedefT(e.TdI32)}, Named{"tdenum", idl.TypedefT(e.TdE)}, Named{"struct", idl.StructT(e.Inner)}, Named{"incenum", idl.EnumT(e.IncE)})
	}
	return ks
}

// Types1: leaves plus one container level over every leaf.
func (e *Env) Types1(allKeys bool) []Named {
	ls := e.Leaves()
	out := append([]Named{}, ls...)
	for _, l := range ls {
		out = append(out, Named{"list_" + l.Name, idl.ListOf(l.T)})
	}
	for _, l := range ls {
		out = append(out, Named{"set_" + l.Name, idl.SetOf(l.T)})
	}
	for _, k := range e.KeyLeaves(allKeys) {
		for _, l := range ls {
			out = append(out, Named{"map_" + k.Name + "_" + l.Name, idl.MapOf(k.T, l.T)})
		}
	}
	if !allKeys {
		// struct and binary keys at least once
		out = append(out, Named{"map_struct_i32", idl.MapOf(idl.StructT(e.Inner), idl.T(idl.I32))}, Named{"map_binary_string", idl.MapOf(idl.T(idl.Binary), idl.T(idl.String))},
			Named{"map_i64_struct", idl.MapOf(idl.T(idl.I64), idl.StructT(e.Inner))}, Named{"map_bool_list", idl.MapOf(idl.T(idl.Bool), idl.T(idl.I16))},
			// keys written through typedefs of non-integer types
			Named{"map_tdbinary_i32", idl.MapOf(idl.TypedefT(e.TdBin), idl.T(idl.I32))}, Named{"map_tdenum_string", idl.MapOf(idl.TypedefT(e.TdE), idl.T(idl.String))}, Named{"map_tdstruct_i32", idl.MapOf(idl.TypedefT(e.TdS), idl.T(idl.I32))})
	}
	return out
}

// Types2: the container-in-container patterns over a representative leaf set.
func (e *Env) Types2() []Named {
	reps := []Named{{"i32", idl.T(idl.I32)}, {"string", idl.T(idl.String)}, {"enum", idl.EnumT(e.E)}, {"struct", idl.StructT(e.Inner)}, {"tdcont", idl.TypedefT(e.TdL)}, {"incstruct", idl.StructT(e.IncS)}}
	var out []Named
	for _, l := range reps {
		out = append(out,
			Named{"list_list_" + l.Name, idl.ListOf(idl.ListOf(l.T))},
			Named{"list_map_" + l.Name, idl.ListOf(idl.MapOf(idl.T(idl.String), l.T))},
			Named{"map_list_" + l.Name, idl.MapOf(idl.T(idl.I32), idl.ListOf(l.T))},
			Named{"map_map_" + l.Name, idl.MapOf(idl.T(idl.String), idl.MapOf(idl.T(idl.I32), l.T))},
			Named{"set_list_" + l.Name, idl.SetOf(idl.ListOf(l.T))},
			Named{"list_set_" + l.Name, idl.ListOf(idl.SetOf(l.T))},
		)
	}
	out = append(out, Named{"deep4", idl.ListOf(idl.MapOf(idl.T(idl.String), idl.SetOf(idl.ListOf(idl.StructT(e.Inner)))))})
	return out
}

// Kernel is one struct-like with the shape under test in field 1 ("f") and a
// sentinel field 2 ("tail") that must never be disturbed.
type Kernel struct {
	S     *idl.Struct
	Shape string
	T     *idl.Type
	Req   idl.Req
}

var reqNames = map[idl.Req]string{idl.ReqDefault: "def", idl.ReqRequired: "req", idl.ReqOptional: "opt"}

// Kernels adds one struct per (type, requiredness) to e.Main.
func (e *Env) Kernels(types []Named, reqs []idl.Req) []*Kernel {
	var out []*Kernel
	for _, t := range types {
		for _, r := range reqs {
			name := fmt.Sprintf("K_%s_%s", t.Name, reqNames[r])
			s := &idl.Struct{Cat: "struct", Name: name, Fields: []*idl.Field{fld(1, "f", t.T, r, nil), fld(2, "tail", idl.T(idl.I32), idl.ReqDefault, nil)}}
			e.Main.Add(s)
			out = append(out, &Kernel{S: s, Shape: t.Name, T: t.T, Req: r})
		}
	}
	return out
}

// Program returns the two-file program (main first).
func (e *Env) Program() *idl.Program { return &idl.Program{Files: []*idl.File{e.Main, e.Inc}} }

// Root is a struct-like used as the root of value vectors.
type Root struct {
	Name   string // IDL name (as passed to WriteStructBegin)
	S      *idl.Struct
	Kernel *Kernel // nil for hand-written roots
}

// Shape names the root for violation classes.
func (r *Root) Shape() string {
	if r.Kernel != nil {
		return r.Kernel.Shape + "/" + reqNames[r.Kernel.Req]
	}
	return r.Name
}

// StandardRoots adds to e.Main the kernels over types plus: fields with
// declared defaults of every base type (optional and default requiredness),
// a wide struct with implicit / negative / large ids, a recursive struct, and
// returns them together with the union / exception / inner leaves.
func (e *Env) StandardRoots(types []Named) []*Root {
	var roots []*Root
	for _, k := range e.Kernels(types, []idl.Req{idl.ReqDefault, idl.ReqRequired, idl.ReqOptional}) {
		roots = append(roots, &Root{Name: k.S.Name, S: k.S, Kernel: k})
	}
	i32 := idl.T(idl.I32)
	defs := []struct {
		n string
		t *idl.Type
		v *idl.Value
	}{
		{"bool", idl.T(idl.Bool), idl.VB(true)}, {"byte", idl.T(idl.Byte), idl.VI(7)}, {"i16", idl.T(idl.I16), idl.VI(-3)}, {"i32", i32, idl.VI(100)}, {"i64", idl.T(idl.I64), idl.VI(1 << 40)},
		{"double", idl.T(idl.Double), idl.VD(2.5)}, {"string", idl.T(idl.String), idl.VS("dflt")}, {"binary", idl.T(idl.Binary), idl.VS("bin")}, {"enum", idl.EnumT(e.E), idl.VE(e.E, e.E.Values[1])},
		{"list", idl.ListOf(i32), idl.VL(idl.VI(1), idl.VI(2))}, {"map", idl.MapOf(idl.T(idl.String), i32), idl.VM([2]*idl.Value{idl.VS("k"), idl.VI(1)})},
		// a struct-literal default: the field is already non-nil before anything is read into it
		// (every field of InnerD is named: what a struct literal does with fields it does not name is not at issue here)
		{"struct", idl.StructT(e.InnerD), idl.VM([2]*idl.Value{idl.VS("a"), idl.VI(5)}, [2]*idl.Value{idl.VS("q"), idl.VI(9)}, [2]*idl.Value{idl.VS("s"), idl.VS("zz")}, [2]*idl.Value{idl.VS("d"), idl.VI(6)})},
	}
	if e.OnlyDefaultRoots {
		roots = nil
	}
	for _, d := range defs {
		if e.NoDefaultRoots {
			break
		}
		for _, rq := range []idl.Req{idl.ReqOptional, idl.ReqDefault} {
			s := &idl.Struct{Cat: "struct", Name: fmt.Sprintf("D_%s_%s", d.n, reqNames[rq]), Fields: []*idl.Field{
				{ID: 1, ExplicitID: true, Name: "f", Type: d.t, Req: rq, Default: d.v}, {ID: 2, ExplicitID: true, Name: "tail", Type: i32}}}
			e.Main.Add(s)
			roots = append(roots, &Root{Name: s.Name, S: s, Kernel: &Kernel{S: s, Shape: "default_" + d.n, T: d.t, Req: rq}})
		}
	}
	if e.OnlyDefaultRoots {
		return roots
	}
	wide := &idl.Struct{Cat: "struct", Name: "Wide", Fields: []*idl.Field{
		{Name: "a", Type: i32}, {Name: "b", Type: idl.T(idl.String), Req: idl.ReqOptional}, {ID: -1, ExplicitID: true, Name: "neg", Type: i32, Req: idl.ReqOptional},
		{ID: 300, ExplicitID: true, Name: "big", Type: idl.T(idl.I64), Req: idl.ReqRequired}, {Name: "after", Type: idl.StructT(e.Inner), Req: idl.ReqOptional}}}
	e.Main.Add(wide)
	node := &idl.Struct{Cat: "struct", Name: "Node", Fields: []*idl.Field{{ID: 1, ExplicitID: true, Name: "v", Type: i32}}}
	node.Fields = append(node.Fields, &idl.Field{ID: 2, ExplicitID: true, Name: "next", Type: idl.StructT(node), Req: idl.ReqOptional}, &idl.Field{ID: 3, ExplicitID: true, Name: "kids", Type: idl.ListOf(idl.StructT(node)), Req: idl.ReqOptional})
	e.Main.Add(node)
	// nine required fields: the bitset of required fields crosses a byte boundary
	req9 := &idl.Struct{Cat: "struct", Name: "Req9"}
	for i := 1; i <= 9; i++ {
		req9.Fields = append(req9.Fields, &idl.Field{ID: int32(i), ExplicitID: true, Name: fmt.Sprintf("r%d", i), Type: i32, Req: idl.ReqRequired})
	}
	e.Main.Add(req9)
	// 14, 15, 16, 17 and 24 required fields: the required-field bitset ends inside / at the end of a word
	var manyReq []*Root
	for _, n := range []int{14, 15, 16, 17, 24} {
		st := &idl.Struct{Cat: "struct", Name: fmt.Sprintf("Req%d", n)}
		for i := 1; i <= n; i++ {
			st.Fields = append(st.Fields, &idl.Field{ID: int32(i), ExplicitID: true, Name: fmt.Sprintf("r%d", i), Type: i32, Req: idl.ReqRequired})
		}
		e.Main.Add(st)
		manyReq = append(manyReq, &Root{Name: st.Name, S: st})
	}
	// field ids in every spelling the grammar allows (decimal with leading zeros, hex, octal)
	spelled := &idl.Struct{Cat: "struct", Name: "SpelledIds", Fields: []*idl.Field{
		{ID: 10, ExplicitID: true, IDText: "010", Name: "ten", Type: i32}, {ID: 17, ExplicitID: true, IDText: "0017", Name: "seventeen", Type: idl.T(idl.String), Req: idl.ReqOptional},
		{ID: 8, ExplicitID: true, IDText: "08", Name: "eight", Type: i32, Req: idl.ReqRequired}, {Name: "nine", Type: i32}, {ID: 32, ExplicitID: true, IDText: "0x20", Name: "hex", Type: i32},
		{ID: 64, ExplicitID: true, IDText: "0o100", Name: "oct", Type: i32}, {ID: -10, ExplicitID: true, IDText: "-010", Name: "negten", Type: i32, Req: idl.ReqOptional}}}
	e.Main.Add(spelled)
	roots = append(roots, &Root{Name: "SpelledIds", S: spelled})
	roots = append(roots, manyReq...)
	roots = append(roots, &Root{Name: "Wide", S: wide}, &Root{Name: "Node", S: node}, &Root{Name: "Req9", S: req9}, &Root{Name: "U", S: e.U}, &Root{Name: "X", S: e.X}, &Root{Name: "Inner", S: e.Inner})
	return roots
}
