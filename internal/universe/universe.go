// Package universe holds the bounded-exhaustive enumerators of IDL programs
// shared by the generate-compile-run checks: the *type kernel* program has one
// struct-like per field shape, so generated code size is linear in the
// universe and every (type constructor x leaf class x requiredness) arm of the
// generator's templates is reached.
package universe

import (
	"fmt"

	"verif/internal/idl"
)

// Env is the fixed vocabulary of leaf definitions a kernel program is built on.
type Env struct {
	Inc, Main                        *idl.File
	E, IncE                          *idl.Enum
	Inner, IncS, U, X                *idl.Struct
	TdI32, TdE, TdS, TdL, TdTd, IncT *idl.Typedef
}

func fld(id int32, name string, t *idl.Type, req idl.Req, def *idl.Value) *idl.Field {
	return &idl.Field{ID: id, ExplicitID: true, Name: name, Type: t, Req: req, Default: def}
}

// NewEnv creates the two files and the leaf definitions.
func NewEnv(ns string) *Env {
	e := &Env{}
	i32, str := idl.T(idl.I32), idl.T(idl.String)
	e.Inc = &idl.File{Path: "inc.thrift", Namespaces: []*idl.Namespace{{Lang: "go", Name: ns + ".inc"}}}
	e.IncE = &idl.Enum{Name: "IncE", Values: []*idl.EnumValue{{Name: "P", Value: 3, Explicit: true}, {Name: "Q"}}}
	e.Inc.Add(e.IncE)
	e.IncS = &idl.Struct{Cat: "struct", Name: "IncS", Fields: []*idl.Field{fld(1, "a", i32, idl.ReqDefault, nil), fld(2, "b", str, idl.ReqOptional, nil)}}
	e.Inc.Add(e.IncS)
	e.IncT = &idl.Typedef{Name: "IncT", Type: idl.MapOf(str, idl.StructT(e.IncS))}
	e.Inc.Add(e.IncT)

	e.Main = &idl.File{Path: "k.thrift", Includes: []*idl.Include{{Path: "inc.thrift", File: e.Inc}}, Namespaces: []*idl.Namespace{{Lang: "go", Name: ns + ".k"}}}
	e.E = &idl.Enum{Name: "E", Values: []*idl.EnumValue{{Name: "A"}, {Name: "B", Value: 5, Explicit: true}, {Name: "C", Value: -2, Explicit: true}}}
	e.Main.Add(e.E)
	e.Inner = &idl.Struct{Cat: "struct", Name: "Inner", Fields: []*idl.Field{fld(1, "a", i32, idl.ReqDefault, nil), fld(2, "b", str, idl.ReqOptional, nil)}}
	e.Main.Add(e.Inner)
	e.U = &idl.Struct{Cat: "union", Name: "U", Fields: []*idl.Field{fld(1, "n", idl.T(idl.I64), idl.ReqDefault, nil), fld(2, "s", str, idl.ReqDefault, nil)}}
	e.Main.Add(e.U)
	e.X = &idl.Struct{Cat: "exception", Name: "X", Fields: []*idl.Field{fld(1, "code", i32, idl.ReqDefault, nil), fld(2, "msg", str, idl.ReqOptional, nil)}}
	e.Main.Add(e.X)
	e.TdI32 = &idl.Typedef{Name: "TdI32", Type: i32}
	e.Main.Add(e.TdI32)
	e.TdE = &idl.Typedef{Name: "TdE", Type: idl.EnumT(e.E)}
	e.Main.Add(e.TdE)
	e.TdS = &idl.Typedef{Name: "TdS", Type: idl.StructT(e.Inner)}
	e.Main.Add(e.TdS)
	e.TdL = &idl.Typedef{Name: "TdL", Type: idl.ListOf(i32)}
	e.Main.Add(e.TdL)
	e.TdTd = &idl.Typedef{Name: "TdTd", Type: idl.TypedefT(e.TdI32)}
	e.Main.Add(e.TdTd)
	return e
}

type Named struct {
	Name string
	T    *idl.Type
}

// Leaves: every leaf class of DESIGN §2.1.
func (e *Env) Leaves() []Named {
	return []Named{
		{"bool", idl.T(idl.Bool)}, {"byte", idl.T(idl.Byte)}, {"i16", idl.T(idl.I16)}, {"i32", idl.T(idl.I32)}, {"i64", idl.T(idl.I64)},
		{"double", idl.T(idl.Double)}, {"string", idl.T(idl.String)}, {"binary", idl.T(idl.Binary)},
		{"enum", idl.EnumT(e.E)}, {"struct", idl.StructT(e.Inner)}, {"union", idl.StructT(e.U)}, {"exception", idl.StructT(e.X)},
		{"tdbase", idl.TypedefT(e.TdI32)}, {"tdenum", idl.TypedefT(e.TdE)}, {"tdstruct", idl.TypedefT(e.TdS)}, {"tdcont", idl.TypedefT(e.TdL)}, {"tdtd", idl.TypedefT(e.TdTd)},
		{"incstruct", idl.StructT(e.IncS)}, {"incenum", idl.EnumT(e.IncE)}, {"inctd", idl.TypedefT(e.IncT)},
	}
}

// KeyLeaves: leaf classes used as map keys (thrift allows any type; Go needs
// comparable keys, which struct pointers and strings-for-binary are).
func (e *Env) KeyLeaves(all bool) []Named {
	ks := []Named{{"i32", idl.T(idl.I32)}, {"string", idl.T(idl.String)}, {"enum", idl.EnumT(e.E)}}
	if all {
		ks = append(ks, Named{"i64", idl.T(idl.I64)}, Named{"bool", idl.T(idl.Bool)}, Named{"byte", idl.T(idl.Byte)}, Named{"i16", idl.T(idl.I16)}, Named{"double", idl.T(idl.Double)},
			Named{"binary", idl.T(idl.Binary)}, Named{"tdbase", idl.TypedefT(e.TdI32)}, Named{"tdenum", idl.TypedefT(e.TdE)}, Named{"struct", idl.StructT(e.Inner)}, Named{"incenum", idl.EnumT(e.IncE)})
	}
	return ks
}

// Types1: leaves plus one container level over every leaf.
func (e *Env) Types1(allKeys bool) []Named {
	ls := e.Leaves()
	out := append([]Named{}, ls...)
	for _, l := range ls {
		out = append(out, Named{"list_" + l.Name, idl.ListOf(l.T)})
	}
	for _, l := range ls {
		out = append(out, Named{"set_" + l.Name, idl.SetOf(l.T)})
	}
	for _, k := range e.KeyLeaves(allKeys) {
		for _, l := range ls {
			out = append(out, Named{"map_" + k.Name + "_" + l.Name, idl.MapOf(k.T, l.T)})
		}
	}
	if !allKeys {
		// struct and binary keys at least once
		out = append(out, Named{"map_struct_i32", idl.MapOf(idl.StructT(e.Inner), idl.T(idl.I32))}, Named{"map_binary_string", idl.MapOf(idl.T(idl.Binary), idl.T(idl.String))},
			Named{"map_i64_struct", idl.MapOf(idl.T(idl.I64), idl.StructT(e.Inner))}, Named{"map_bool_list", idl.MapOf(idl.T(idl.Bool), idl.T(idl.I16))})
	}
	return out
}

// Types2: the container-in-container patterns over a representative leaf set.
func (e *Env) Types2() []Named {
	reps := []Named{{"i32", idl.T(idl.I32)}, {"string", idl.T(idl.String)}, {"enum", idl.EnumT(e.E)}, {"struct", idl.StructT(e.Inner)}, {"tdcont", idl.TypedefT(e.TdL)}, {"incstruct", idl.StructT(e.IncS)}}
	var out []Named
	for _, l := range reps {
		out = append(out,
			Named{"list_list_" + l.Name, idl.ListOf(idl.ListOf(l.T))},
			Named{"list_map_" + l.Name, idl.ListOf(idl.MapOf(idl.T(idl.String), l.T))},
			Named{"map_list_" + l.Name, idl.MapOf(idl.T(idl.I32), idl.ListOf(l.T))},
			Named{"map_map_" + l.Name, idl.MapOf(idl.T(idl.String), idl.MapOf(idl.T(idl.I32), l.T))},
			Named{"set_list_" + l.Name, idl.SetOf(idl.ListOf(l.T))},
			Named{"list_set_" + l.Name, idl.ListOf(idl.SetOf(l.T))},
		)
	}
	out = append(out, Named{"deep4", idl.ListOf(idl.MapOf(idl.T(idl.String), idl.SetOf(idl.ListOf(idl.StructT(e.Inner)))))})
	return out
}

// Kernel is one struct-like with the shape under test in field 1 ("f") and a
// sentinel field 2 ("tail") that must never be disturbed.
type Kernel struct {
	S     *idl.Struct
	Shape string
	T     *idl.Type
	Req   idl.Req
}

var reqNames = map[idl.Req]string{idl.ReqDefault: "def", idl.ReqRequired: "req", idl.ReqOptional: "opt"}

// Kernels adds one struct per (type, requiredness) to e.Main.
func (e *Env) Kernels(types []Named, reqs []idl.Req) []*Kernel {
	var out []*Kernel
	for _, t := range types {
		for _, r := range reqs {
			name := fmt.Sprintf("K_%s_%s", t.Name, reqNames[r])
			s := &idl.Struct{Cat: "struct", Name: name, Fields: []*idl.Field{fld(1, "f", t.T, r, nil), fld(2, "tail", idl.T(idl.I32), idl.ReqDefault, nil)}}
			e.Main.Add(s)
			out = append(out, &Kernel{S: s, Shape: t.Name, T: t.T, Req: r})
		}
	}
	return out
}

// Program returns the two-file program (main first).
func (e *Env) Program() *idl.Program { return &idl.Program{Files: []*idl.File{e.Main, e.Inc}} }
