package docs

import (
	"verif/internal/idl"
)

// Interplay builds a semantically valid multi-file program that uses every
// definition kind together: base.thrift (enum, struct, exception, typedef,
// consts, service), shared.thrift (diamond leaf) and main.thrift (includes
// both; typedef chains across files, containers of everything, defaults of
// every shape, a service extending base.Base with throws). All references
// are pointers, so every binding is known by construction.
type InterplayProgram struct {
	Prog               *idl.Program
	Shared, Base, Main *idl.File
	Color              *idl.Enum
	Point, Big, Req    *idl.Struct
	Err, Err2          *idl.Struct
	Choice             *idl.Struct
	BaseSvc, MainSvc   *idl.Service
	Unused             *idl.Struct
}

func fld(id int32, name string, t *idl.Type, req idl.Req, def *idl.Value) *idl.Field {
	return &idl.Field{ID: id, ExplicitID: true, Name: name, Type: t, Req: req, Default: def}
}

func Interplay() *InterplayProgram {
	p := &InterplayProgram{}
	i32, i64, str, dbl, bl, bin, byt, i16 := idl.T(idl.I32), idl.T(idl.I64), idl.T(idl.String), idl.T(idl.Double), idl.T(idl.Bool), idl.T(idl.Binary), idl.T(idl.Byte), idl.T(idl.I16)

	// ---- shared.thrift
	shared := &idl.File{Path: "shared.thrift", Namespaces: []*idl.Namespace{{Lang: "go", Name: "vp.shared"}}}
	tag := &idl.Struct{Cat: "struct", Name: "Tag", Fields: []*idl.Field{fld(1, "key", str, idl.ReqRequired, nil), fld(2, "value", str, idl.ReqOptional, nil)}}
	shared.Add(tag)
	level := &idl.Enum{Name: "Level", Values: []*idl.EnumValue{{Name: "LOW", Value: 1, Explicit: true}, {Name: "HIGH", Value: 5, Explicit: true}}}
	shared.Add(level)
	maxLevel := &idl.Const{Name: "MAX_LEVEL", Type: idl.EnumT(level), Value: idl.VE(level, level.Values[1])}
	shared.Add(maxLevel)

	// ---- base.thrift
	base := &idl.File{Path: "base.thrift", Includes: []*idl.Include{{Path: "shared.thrift", File: shared}},
		Namespaces: []*idl.Namespace{{Lang: "go", Name: "vp.base"}, {Lang: "py", Name: "vp_base"}}}
	color := &idl.Enum{Name: "Color", Values: []*idl.EnumValue{{Name: "RED"}, {Name: "GREEN"}, {Name: "BLUE", Value: 7, Explicit: true, Anns: ann("go.name", "Azure")}, {Name: "BLACK"}}, Anns: ann("e.k", "v1", "e.k", "v2")}
	base.Add(color)
	point := &idl.Struct{Cat: "struct", Name: "Point", Fields: []*idl.Field{fld(1, "x", i32, idl.ReqDefault, nil), fld(2, "y", i32, idl.ReqDefault, idl.VI(-4)), fld(3, "label", str, idl.ReqOptional, nil)}, Anns: ann("s.a", "1", "s.b", "2")}
	base.Add(point)
	errT := &idl.Struct{Cat: "exception", Name: "Err", Fields: []*idl.Field{fld(1, "code", i32, idl.ReqDefault, nil), fld(2, "msg", str, idl.ReqOptional, idl.VS("oops"))}}
	base.Add(errT)
	ident := &idl.Typedef{Name: "Ident", Type: i64}
	base.Add(ident)
	points := &idl.Typedef{Name: "Points", Type: idl.ListOf(idl.StructT(point))}
	base.Add(points)
	hue := &idl.Typedef{Name: "Hue", Type: idl.EnumT(color)}
	base.Add(hue)
	origin := &idl.Const{Name: "ORIGIN_X", Type: i32, Value: idl.VI(3)}
	base.Add(origin)
	defColor := &idl.Const{Name: "DEFAULT_COLOR", Type: idl.EnumT(color), Value: idl.VE(color, color.Values[1])}
	base.Add(defColor)
	greeting := &idl.Const{Name: "GREETING", Type: str, Value: idl.VS(`hi "there" it's`)}
	base.Add(greeting)
	baseSvc := &idl.Service{Name: "Base", Functions: []*idl.Function{
		{Name: "ping"},
		{Name: "locate", Ret: idl.StructT(point), Args: []*idl.Field{fld(1, "id", idl.TypedefT(ident), idl.ReqDefault, nil)}, Throws: []*idl.Field{fld(1, "e", idl.StructT(errT), idl.ReqDefault, nil)}},
	}}
	base.Add(baseSvc)

	// ---- main.thrift
	main := &idl.File{Path: "main.thrift", Includes: []*idl.Include{{Path: "base.thrift", File: base}, {Path: "shared.thrift", File: shared}},
		Namespaces: []*idl.Namespace{{Lang: "go", Name: "vp.app", Anns: ann("ns.a", "x", "ns.b", "y")}, {Lang: "java", Name: "vp.main"}, {Lang: "*", Name: "vpstar"}}}
	idAlias := &idl.Typedef{Name: "UserId", Type: idl.TypedefT(ident), Anns: ann("td.a", "1")}
	main.Add(idAlias)
	tint := &idl.Typedef{Name: "Tint", Type: idl.TypedefT(hue)}
	main.Add(tint)
	err2 := &idl.Struct{Cat: "exception", Name: "Err2", Fields: []*idl.Field{fld(1, "why", str, idl.ReqRequired, nil)}}
	main.Add(err2)
	choice := &idl.Struct{Cat: "union", Name: "Choice", Fields: []*idl.Field{fld(1, "n", i64, idl.ReqDefault, nil), fld(2, "s", str, idl.ReqDefault, nil), fld(3, "p", idl.StructT(point), idl.ReqDefault, nil), fld(4, "l", idl.ListOf(i32), idl.ReqDefault, nil)}}
	main.Add(choice)
	names := &idl.Const{Name: "NAMES", Type: idl.ListOf(str), Value: idl.VL(idl.VS("a"), idl.VS("b"), idl.VS("c"))}
	main.Add(names)
	weights := &idl.Const{Name: "WEIGHTS", Type: idl.MapOf(str, i32), Value: idl.VM([2]*idl.Value{idl.VS("x"), idl.VI(1)}, [2]*idl.Value{idl.VS("y"), idl.VI(2)}, [2]*idl.Value{idl.VS("z"), idl.VC(origin)})}
	main.Add(weights)
	palette := &idl.Const{Name: "PALETTE", Type: idl.SetOf(idl.EnumT(color)), Value: idl.VL(idl.VE(color, color.Values[0]), idl.VE(color, color.Values[2]), idl.VI(8))}
	main.Add(palette)
	home := &idl.Const{Name: "HOME", Type: idl.StructT(point), Value: idl.VM([2]*idl.Value{idl.VS("x"), idl.VI(1)}, [2]*idl.Value{idl.VS("label"), idl.VS("home")})}
	main.Add(home)
	ratio := &idl.Const{Name: "RATIO", Type: dbl, Value: idl.VD(0.25)}
	main.Add(ratio)
	flag := &idl.Const{Name: "FLAG", Type: bl, Value: idl.VB(true)}
	main.Add(flag)
	req := &idl.Struct{Cat: "struct", Name: "Request", Fields: []*idl.Field{
		fld(1, "id", idl.TypedefT(idAlias), idl.ReqRequired, nil),
		fld(2, "color", idl.EnumT(color), idl.ReqDefault, idl.VE(color, color.Values[2])),
		fld(3, "tint", idl.TypedefT(tint), idl.ReqOptional, idl.VE(color, color.Values[1])),
		fld(4, "where", idl.StructT(point), idl.ReqOptional, nil),
		fld(5, "tags", idl.ListOf(idl.StructT(tag)), idl.ReqDefault, nil),
		fld(6, "level", idl.EnumT(level), idl.ReqDefault, idl.VC(maxLevel)),
		fld(7, "note", str, idl.ReqOptional, idl.VC(greeting)),
	}, Anns: ann("r.a", "1")}
	req.Fields[0].Anns = ann("go.tag", `json:"ID" k:"v"`, "f.a", "1", "f.a", "2")
	main.Add(req)
	big := &idl.Struct{Cat: "struct", Name: "Big", Fields: []*idl.Field{
		fld(1, "b", bl, idl.ReqDefault, idl.VB(true)),
		fld(2, "y", byt, idl.ReqOptional, idl.VI(7)),
		fld(3, "s16", i16, idl.ReqRequired, nil),
		fld(4, "i", i32, idl.ReqOptional, idl.VC(origin)),
		fld(5, "l", i64, idl.ReqDefault, idl.VI(1<<40)),
		fld(6, "d", dbl, idl.ReqOptional, idl.VD(1.5)),
		fld(7, "s", str, idl.ReqDefault, idl.VS("dflt")),
		fld(8, "bin", bin, idl.ReqOptional, nil),
		fld(9, "ls", idl.ListOf(str), idl.ReqDefault, idl.VL(idl.VS("p"), idl.VS("q"))),
		fld(10, "st", idl.SetOf(i32), idl.ReqOptional, nil),
		fld(11, "m", idl.MapOf(str, idl.ListOf(idl.StructT(point))), idl.ReqDefault, nil),
		fld(12, "me", idl.MapOf(idl.EnumT(color), idl.TypedefT(idAlias)), idl.ReqOptional, nil),
		fld(13, "pts", idl.TypedefT(points), idl.ReqDefault, nil),
		fld(14, "ch", idl.StructT(choice), idl.ReqOptional, nil),
		fld(15, "mi", idl.MapOf(i32, str), idl.ReqDefault, idl.VM([2]*idl.Value{idl.VI(1), idl.VS("one")}, [2]*idl.Value{idl.VI(2), idl.VS("two")})),
		fld(-1, "neg", i32, idl.ReqOptional, nil),
	}}
	main.Add(big)
	node := &idl.Struct{Cat: "struct", Name: "Node", Fields: []*idl.Field{fld(1, "v", i32, idl.ReqDefault, nil)}}
	node.Fields = append(node.Fields, fld(2, "next", idl.StructT(node), idl.ReqOptional, nil), fld(3, "kids", idl.ListOf(idl.StructT(node)), idl.ReqOptional, nil))
	main.Add(node)
	unused := &idl.Struct{Cat: "struct", Name: "Unused", Fields: []*idl.Field{fld(1, "z", i32, idl.ReqDefault, nil)}}
	main.Add(unused)
	mainSvc := &idl.Service{Name: "Main", Extends: baseSvc, Functions: []*idl.Function{
		{Name: "get", Ret: idl.StructT(big), Args: []*idl.Field{fld(1, "req", idl.StructT(req), idl.ReqDefault, nil), fld(2, "n", i32, idl.ReqDefault, nil)}, Throws: []*idl.Field{fld(1, "e", idl.StructT(errT), idl.ReqDefault, nil), fld(2, "e2", idl.StructT(err2), idl.ReqDefault, nil)}, Anns: ann("fn.a", "1", "fn.b", "2")},
		{Name: "put", Args: []*idl.Field{fld(1, "n", idl.StructT(node), idl.ReqDefault, nil)}},
		{Name: "fire", Oneway: true, Args: []*idl.Field{fld(1, "c", idl.StructT(choice), idl.ReqDefault, nil)}},
		{Name: "count", Ret: i32, Throws: []*idl.Field{fld(1, "e2", idl.StructT(err2), idl.ReqDefault, nil)}},
		{Name: "colors", Ret: idl.MapOf(str, idl.EnumT(color))},
	}, Anns: ann("svc.a", "1", "svc.b", "2", "svc.a", "3")}
	main.Add(mainSvc)

	p.Prog = &idl.Program{Files: []*idl.File{main, base, shared}}
	p.Shared, p.Base, p.Main = shared, base, main
	p.Color, p.Point, p.Big, p.Req, p.Err, p.Err2, p.Choice = color, point, big, req, errT, err2, choice
	p.BaseSvc, p.MainSvc, p.Unused = baseSvc, mainSvc, unused
	return p
}

// Texts renders every file of a program with the readable layout.
func Texts(p *idl.Program) map[string]string {
	m := map[string]string{}
	for _, f := range p.Files {
		m[f.Path] = idl.Render(f)
	}
	return m
}
