// Package docs is the document universe shared by C03 (faithful AST) and C17
// (dump/parse round trip): every definition kind with every optional part
// present/absent, single definitions, ordered pairs and triples.
package docs

import (
	"fmt"
	"strings"

	"verif/internal/idl"
)

// ---------------------------------------------------------------- universe

func ann(kv ...string) []idl.Ann {
	var a []idl.Ann
	for i := 0; i+1 < len(kv); i += 2 {
		a = append(a, idl.Ann{Key: kv[i], Values: []string{kv[i+1]}})
	}
	return a
}

type Defv struct {
	Name string
	D    any // *idl.Const / Typedef / Enum / Struct / Service
}

func Universe() (defs []Defv, headers [][]any) {
	add := func(n string, d any) { defs = append(defs, Defv{n, d}) }
	i32, str, dbl := idl.T(idl.I32), idl.T(idl.String), idl.T(idl.Double)
	// --- constants: every const-value shape and spelling
	vals := []struct {
		n string
		t *idl.Type
		v *idl.Value
	}{
		{"int", i32, idl.VI(7)},
		{"neg", i32, idl.VI(-3)},
		{"zero", idl.T(idl.I64), idl.VI(0)},
		{"hex", i32, &idl.Value{K: idl.VInt, Int: 26, Text: "0x1A"}},
		{"oct", i32, &idl.Value{K: idl.VInt, Int: 8, Text: "0o10"}},
		{"plus", i32, &idl.Value{K: idl.VInt, Int: 5, Text: "+5"}},
		{"big", idl.T(idl.I64), idl.VI(9223372036854775807)},
		{"dbl", dbl, idl.VD(1.5)},
		{"dblneg", dbl, idl.VD(-2.25)},
		{"dbldot", dbl, &idl.Value{K: idl.VDouble, Text: ".5"}},
		{"dblexp", dbl, &idl.Value{K: idl.VDouble, Text: "1.5e3"}},
		{"dblexp2", dbl, &idl.Value{K: idl.VDouble, Text: "2E-2"}},
		{"dblexp3", dbl, &idl.Value{K: idl.VDouble, Text: "1e10"}},
		{"dblexp4", dbl, &idl.Value{K: idl.VDouble, Text: "-7.25e+2"}},
		{"dblint", dbl, idl.VI(2)},
		{"lit", str, idl.VS("hello")},
		{"litempty", str, idl.VS("")},
		{"litq", str, idl.VS(`a"b'c`)},
		{"litesc", str, idl.VS(`x\n\t\x41 y`)},
		{"litpunct", str, idl.VS("a,b;c{d}(e)#f//g/*h*/")},
		{"litutf8", str, idl.VS("héllo € 中")},
		{"bool", idl.T(idl.Bool), idl.VB(true)},
		{"ident", idl.RawT("Foo"), &idl.Value{K: idl.VRawIdent, Raw: "Foo.BAR"}},
		{"identinc", idl.RawT("inc.Foo"), &idl.Value{K: idl.VRawIdent, Raw: "inc.Foo.BAR"}},
		{"list0", idl.ListOf(i32), idl.VL()},
		{"list", idl.ListOf(i32), idl.VL(idl.VI(1), idl.VI(2), idl.VI(3))},
		{"listnest", idl.ListOf(idl.ListOf(str)), idl.VL(idl.VL(idl.VS("a")), idl.VL())},
		{"map0", idl.MapOf(str, i32), idl.VM()},
		{"map", idl.MapOf(str, i32), idl.VM([2]*idl.Value{idl.VS("k"), idl.VI(1)}, [2]*idl.Value{idl.VS("l"), idl.VI(2)})},
		{"mapnest", idl.MapOf(str, idl.ListOf(i32)), idl.VM([2]*idl.Value{idl.VS("k"), idl.VL(idl.VI(1))})},
		{"structlit", idl.RawT("S"), idl.VM([2]*idl.Value{idl.VS("a"), idl.VI(1)}, [2]*idl.Value{idl.VS("b"), idl.VM()})},
	}
	for _, v := range vals {
		add("const-"+v.n, &idl.Const{Name: "C_" + v.n, Type: v.t, Value: v.v})
	}
	add("const-ann", &idl.Const{Name: "CA", Type: i32, Value: idl.VI(1), Anns: ann("k", "v", "k", "w", "j", "x")})
	// --- types
	cpp := idl.MapOf(str, i32)
	cpp.HasCpp, cpp.CppType = true, "std::map"
	cppl := idl.ListOf(i32)
	cppl.HasCpp, cppl.CppType = true, "std::deque"
	cpps := idl.SetOf(i32)
	cpps.HasCpp, cpps.CppType = true, "x"
	annT := idl.T(idl.String)
	annT.Anns = ann("t", "1", "u", "2", "t", "3")
	annL := idl.ListOf(annT)
	annL.Anns = ann("l", "x")
	types := []struct {
		n string
		t *idl.Type
	}{
		{"bool", idl.T(idl.Bool)}, {"byte", idl.T(idl.Byte)}, {"i16", idl.T(idl.I16)}, {"i64", idl.T(idl.I64)}, {"binary", idl.T(idl.Binary)},
		{"raw", idl.RawT("Other")}, {"rawinc", idl.RawT("inc.Other")},
		{"list", idl.ListOf(i32)}, {"set", idl.SetOf(str)}, {"map", idl.MapOf(i32, str)},
		{"nest", idl.MapOf(str, idl.ListOf(idl.SetOf(idl.T(idl.I64))))},
		{"cppmap", cpp}, {"cpplist", cppl}, {"cppset", cpps}, {"anntype", annT}, {"annlist", annL},
	}
	for _, t := range types {
		add("typedef-"+t.n, &idl.Typedef{Name: "T_" + t.n, Type: t.t})
	}
	add("typedef-ann", &idl.Typedef{Name: "TA", Type: i32, Anns: ann("a", "1", "a", "2")})
	// --- enums
	add("enum-empty", &idl.Enum{Name: "E0"})
	add("enum-implicit", &idl.Enum{Name: "E1", Values: []*idl.EnumValue{{Name: "A"}, {Name: "B"}, {Name: "C"}}})
	add("enum-explicit", &idl.Enum{Name: "E2", Values: []*idl.EnumValue{{Name: "A", Value: 5, Explicit: true}, {Name: "B"}, {Name: "C", Value: -2, Explicit: true}, {Name: "D"}, {Name: "E", Value: 16, Explicit: true, ValText: "0x10"}, {Name: "F"}}})
	add("enum-ann", &idl.Enum{Name: "E3", Values: []*idl.EnumValue{{Name: "A", Anns: ann("x", "1", "x", "2")}, {Name: "B", Value: 3, Explicit: true, Anns: ann("y", "z")}}, Anns: ann("e", "f")})
	// --- struct-likes
	fieldSets := []struct {
		n  string
		fs []*idl.Field
	}{
		{"empty", nil},
		{"implicit", []*idl.Field{{Name: "a", Type: i32}, {Name: "b", Type: str}}},
		{"explicit", []*idl.Field{{ID: 1, ExplicitID: true, Name: "a", Type: i32}, {ID: 5, ExplicitID: true, Name: "b", Type: str, Req: idl.ReqRequired}, {Name: "c", Type: dbl, Req: idl.ReqOptional}, {ID: -1, ExplicitID: true, Name: "d", Type: i32}, {Name: "e", Type: i32}}},
		{"hexid", []*idl.Field{{ID: 16, ExplicitID: true, IDText: "0x10", Name: "a", Type: i32}, {Name: "b", Type: i32}}},
		{"defaults", []*idl.Field{{ID: 1, ExplicitID: true, Name: "a", Type: i32, Default: idl.VI(3)}, {ID: 2, ExplicitID: true, Name: "b", Type: str, Default: idl.VS("x"), Req: idl.ReqOptional}, {ID: 3, ExplicitID: true, Name: "c", Type: idl.ListOf(i32), Default: idl.VL(idl.VI(1))}, {ID: 4, ExplicitID: true, Name: "d", Type: idl.RawT("E"), Default: &idl.Value{K: idl.VRawIdent, Raw: "E.A"}}, {ID: 5, ExplicitID: true, Name: "e", Type: dbl, Default: &idl.Value{K: idl.VDouble, Text: "2.5e1"}}}},
		{"anns", []*idl.Field{{ID: 1, ExplicitID: true, Name: "a", Type: annT, Anns: ann("go.tag", `json:"a"`, "k", "v", "go.tag", "x")}, {ID: 2, ExplicitID: true, Name: "b", Type: cpp, Default: idl.VM(), Anns: ann("k", "")}}},
	}
	for _, cat := range []string{"struct", "union", "exception"} {
		for _, fs := range fieldSets {
			if cat != "struct" && (fs.n == "hexid" || fs.n == "anns") {
				continue
			}
			add(cat+"-"+fs.n, &idl.Struct{Cat: cat, Name: "S_" + fs.n, Fields: fs.fs})
		}
	}
	add("struct-ann", &idl.Struct{Cat: "struct", Name: "SA", Fields: fieldSets[1].fs, Anns: ann("s", "1", "t", "2", "s", "3")})
	// --- services
	arg := func(n string) *idl.Field { return &idl.Field{Name: n, Type: i32} }
	argx := func(id int32, n string) *idl.Field {
		return &idl.Field{ID: id, ExplicitID: true, Name: n, Type: idl.RawT("Ex")}
	}
	fns := []*idl.Function{
		{Name: "f0"},
		{Name: "f1", Ret: i32, Args: []*idl.Field{arg("a")}},
		{Name: "f2", Ret: idl.ListOf(str), Args: []*idl.Field{{ID: 2, ExplicitID: true, Name: "a", Type: str, Req: idl.ReqRequired}, arg("b")}, Throws: []*idl.Field{argx(1, "e")}},
		{Name: "f3", Oneway: true, Args: []*idl.Field{arg("a")}},
		{Name: "f4", Ret: idl.RawT("inc.R"), Throws: []*idl.Field{}},
		{Name: "f5", Args: []*idl.Field{arg("a")}, Throws: []*idl.Field{argx(1, "e"), argx(2, "g")}, Anns: ann("fa", "1", "fa", "2")},
		{Name: "f6", Ret: annT, Args: []*idl.Field{arg("a"), arg("b"), arg("c")}, Throws: []*idl.Field{{Name: "e", Type: idl.RawT("Ex")}}},
	}
	add("service-empty", &idl.Service{Name: "Svc0"})
	add("service-ext", &idl.Service{Name: "Svc1", ExtendRaw: "Base", Functions: fns[:2]})
	add("service-extinc", &idl.Service{Name: "Svc2", ExtendRaw: "inc.Base", Functions: fns[2:4], Anns: ann("sa", "x")})
	add("service-all", &idl.Service{Name: "Svc3", Functions: fns})
	for i, fn := range fns {
		add(fmt.Sprintf("service-fn%d", i), &idl.Service{Name: "SvcF", Functions: []*idl.Function{fn}})
	}
	// --- headers
	headers = [][]any{
		nil,
		{&idl.Include{Path: "inc.thrift"}},
		{&idl.Include{Path: "a/b.thrift"}, &idl.Include{Path: "../c.thrift"}, "cppinc.h", &idl.Namespace{Lang: "go", Name: "a.b.c"}},
		{&idl.Namespace{Lang: "*", Name: "x"}, &idl.Namespace{Lang: "go", Name: "y", Anns: ann("n", "1", "n", "2")}, &idl.Namespace{Lang: "py", Name: "z.w"}},
	}
	return
}

type Doc struct {
	Name string
	File *idl.File
}

func MkDoc(name string, hdr []any, ds ...Defv) Doc {
	f := &idl.File{Path: "doc.thrift"}
	for _, h := range hdr {
		switch x := h.(type) {
		case *idl.Include:
			f.Includes = append(f.Includes, x)
		case string:
			f.CppIncludes = append(f.CppIncludes, x)
		case *idl.Namespace:
			f.Namespaces = append(f.Namespaces, x)
		}
	}
	// definitions are shared between documents: File back-pointers are not used by
	// raw-name documents, so sharing is harmless
	for _, d := range ds {
		name += "+" + d.Name
		f.Add(d.D)
	}
	return Doc{name, f}
}

func Documents(thorough bool) []Doc {
	defs, headers := Universe()
	var docs []Doc
	for hi, h := range headers {
		docs = append(docs, MkDoc(fmt.Sprintf("h%d", hi), h))
	}
	for _, d := range defs {
		docs = append(docs, MkDoc("h0", nil, d))
	}
	// representatives of each kind for pairs/triples (all orders)
	rep := []string{"const-int", "const-map", "typedef-map", "enum-explicit", "struct-explicit", "union-implicit", "exception-defaults", "service-all"}
	var reps []Defv
	for _, r := range rep {
		for _, d := range defs {
			if d.Name == r {
				reps = append(reps, d)
			}
		}
	}
	for hi, h := range headers[1:] {
		for _, a := range reps[:4] {
			docs = append(docs, MkDoc(fmt.Sprintf("h%d", hi+1), h, a))
		}
	}
	for _, a := range reps {
		for _, b := range reps {
			if a.Name != b.Name {
				docs = append(docs, MkDoc("h0", nil, a, b))
			}
		}
	}
	// same kind twice (order within a kind)
	for _, d := range defs {
		for _, e := range defs {
			if d.Name < e.Name && strings.SplitN(d.Name, "-", 2)[0] == strings.SplitN(e.Name, "-", 2)[0] && (thorough || (strings.HasSuffix(d.Name, "t") || strings.HasSuffix(e.Name, "t"))) {
				docs = append(docs, MkDoc("h0", nil, e, d))
			}
		}
	}
	tri := reps
	if !thorough {
		tri = reps[2:6]
	}
	for _, a := range tri {
		for _, b := range tri {
			for _, c := range tri {
				if a.Name != b.Name && b.Name != c.Name && a.Name != c.Name {
					docs = append(docs, MkDoc("h2", headers[2], a, b, c))
				}
			}
		}
	}
	return docs
}
