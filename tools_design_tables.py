#!/usr/bin/env python3
# Regenerates the three tables of DESIGN.md §9 (fixed defects, known findings, seeded changes)
# from known_findings.json and seeded/*/meta.json. Tables live between <!-- BEGIN:x --> / <!-- END:x -->.
import json, glob, os, re
def esc(s): return s.replace('\n',' ').replace('|','/')
kf=json.load(open('/verif/known_findings.json'))
fixed='| property | commit | what failed |\n|---|---|---|\n'+'\n'.join("| %s | `%s` | %s |"%(f['property'],f['commit'],esc(f['fixed'].split(' ',2)[2])) for f in kf['fixed'])
# known findings: group the alias family
rows=[]; alias=[]
for f in kf['findings']:
    if f['class'].startswith('compile:alias:'): alias.append(f['class'][len('compile:alias:'):]); continue
    rows.append("| %s | `%s` | %s |"%(f['property'],esc(f['class']),esc(f['what'])[:420]))
if alias:
    rows.append("| C01 | `compile:alias:<name>:<backend>` (%d entries: %s) | an included file whose Go package name equals an identifier the templates use for a receiver, parameter or local: the import alias is shadowed inside generated functions and the code does not compile although thriftgo exits 0 |"%(len(alias),', '.join(alias)))
known='| property | class (exact match) | what fails |\n|---|---|---|\n'+'\n'.join(rows)
mrows=[]; n=0; missed=0
for d in sorted(glob.glob('/verif/seeded/*')):
    try: m=json.load(open(d+'/meta.json'))
    except Exception: continue
    c=m.get('confirmed',{})
    if not c: continue
    n+=1
    s=m.get('summary','')
    if isinstance(s,dict): s=json.dumps(s)
    s=esc(s)
    if len(s)>230: s=s[:227]+'...'
    cls=[x for x in c.get('violation_classes','').replace('class=','').replace(',',' ').split() if not x.startswith('compile:alias') and not x.startswith('plugin-request:Name2Category') and 'two-includes-same-base-name' not in x]
    cl=', '.join(cls[:2])+(' …' if len(cls)>2 else '')
    first=c.get('first_attempt_detected')
    if not first: missed+=1
    det='yes' if first else ('no — universe extended, now yes' if c.get('check_detects') else 'NO (still missed)')
    mrows.append("| `%s` | %s | %s | %s | `%s` |"%(os.path.basename(d), m.get('breaks_property',m.get('property')), s, det, esc(cl)))
mut='| id | property | change | detected at first attempt | reported classes |\n|---|---|---|---|---|\n'+'\n'.join(mrows)
p='/verif/DESIGN.md'
s=open(p).read()
for name,txt in (('fixed',fixed),('known',known),('mutants',mut)):
    s=re.sub(r'(<!-- BEGIN:%s -->\n).*?(\n<!-- END:%s -->)'%(name,name), lambda mm: mm.group(1)+txt+mm.group(2), s, flags=re.S)
s=re.sub(r'<!-- COUNT:mutants -->.*?<!-- /COUNT -->','<!-- COUNT:mutants -->%d changes, %d missed at the first attempt<!-- /COUNT -->'%(n,missed),s)
# §9.1: third column (quick: evaluations / time) from the evidence files, when they are quick-tier
def human(n):
    n=int(n)
    if n>=10_000_000: return '%.0f M'%(n/1e6)
    if n>=1_000_000: return '%.2f M'%(n/1e6)
    if n>=10_000: return '%.0f k'%(n/1e3)
    if n>=1_000: return '%.1f k'%(n/1e3)
    return str(n)
def row(m):
    cid=m.group(1)
    try: e=json.load(open('/verif/evidence/%s.json'%cid))
    except Exception: return m.group(0)
    if e.get('tier')!='quick': return m.group(0)
    c=e['coverage']; w=e.get('wall_s',0)
    if 'states' in c and 'transitions' in c and e.get('level')=='model_checking':
        col='%s states, %s transitions / %d s'%(human(c['states']),human(c['transitions']),round(w))
    else:
        col='%s / %d s'%(human(c.get('evaluations',0)),round(w))
    return '| %s |%s| %s |%s|'%(cid,m.group(2),col,m.group(4))
s=re.sub(r'^\| (C\d\d) \|([^|\n]*)\|([^|\n]*)\|([^|\n]*)\|$', row, s, flags=re.M)
open(p,'w').write(s)
print('fixed',len(kf['fixed']),'known',len(kf['findings']),'mutants',n,'missed first',missed)
