// C16 — trimming keeps exactly what kept services need; meaning is unchanged.
//
// In-process on trim.TrimBatchContentWithConfig (parse, check, trim, dump):
// a pointer model of a 4-file program (main -> b -> c, main -> c, diamond on d)
// reaches struct-likes through every edge kind (argument, result, throws,
// field, list / set element, map key and value, typedef target incl. typedefs
// of included files, base service in an included file, type of a constant) and
// has unreferenced struct-likes at every position (each file, each kind, one
// referenced only from another unreferenced type, one used only by a service
// of an included file that nobody extends). Variants: every single "extra
// unreferenced struct" position x arguments {no filter; -m exact, unqualified,
// regexp, a method of the base service; preserve off; preserved struct list;
// @preserve comment}.
// Oracle: kept struct-likes == reference closure (+ preserved); constants,
// typedefs and enums all kept; an include is kept iff it is still needed; the
// output re-parses and passes CheckAll + ResolveSymbols; trimming the output
// again changes nothing; with -m only matching methods (and the base methods
// they need) remain.
package main

import (
	"encoding/hex"
	"flag"
	"fmt"
	"os"
	"os/exec"
	"path/filepath"
	"sort"
	"strings"

	"verif/internal/evid"
	"verif/internal/gen"
	"verif/internal/idl"
	"verif/internal/refsem"

	"github.com/cloudwego/thriftgo/parser"
	"github.com/cloudwego/thriftgo/semantic"
	"github.com/cloudwego/thriftgo/tool/trimmer/trim"
)

func fld(id int32, name string, t *idl.Type) *idl.Field {
	return &idl.Field{ID: id, ExplicitID: true, Name: name, Type: t}
}

type model struct {
	files   []*idl.File // main first
	main    *idl.File
	structs map[string]*idl.Struct
	svcs    map[string]*idl.Service
	comment map[*idl.Struct]string // leading comment (for @preserve)
}

func st(m *model, f *idl.File, cat, name string, fields ...*idl.Field) *idl.Struct {
	s := &idl.Struct{Cat: cat, Name: name, Fields: fields}
	f.Add(s)
	m.structs[name] = s
	return s
}

// build constructs the program; extra places one more unreferenced struct-like.
func build(extraFile, extraCat string) *model {
	m := &model{structs: map[string]*idl.Struct{}, svcs: map[string]*idl.Service{}, comment: map[*idl.Struct]string{}}
	i32, str := idl.T(idl.I32), idl.T(idl.String)
	d := &idl.File{Path: "d.thrift", Namespaces: []*idl.Namespace{{Lang: "go", Name: "t.dpk"}}}
	dShared := st(m, d, "struct", "DShared", fld(1, "v", i32))
	st(m, d, "struct", "DUnused", fld(1, "v", i32))

	c := &idl.File{Path: "c.thrift", Includes: []*idl.Include{{Path: "d.thrift", File: d}}, Namespaces: []*idl.Namespace{{Lang: "go", Name: "t.cpk"}}}
	ce := &idl.Enum{Name: "CE", Values: []*idl.EnumValue{{Name: "A"}, {Name: "B"}}}
	c.Add(ce)
	cLeaf := st(m, c, "struct", "CLeaf", fld(1, "v", i32), fld(2, "e", idl.EnumT(ce)))
	cField := st(m, c, "struct", "CField", fld(1, "v", i32))
	cArg := st(m, c, "struct", "CArg", fld(1, "f", idl.StructT(cField)), fld(2, "s", idl.StructT(dShared)))
	cRes := st(m, c, "union", "CRes", fld(1, "n", i32), fld(2, "l", idl.StructT(cLeaf)))
	cErr := st(m, c, "exception", "CErr", fld(1, "m", str))
	cElem := st(m, c, "struct", "CElem", fld(1, "v", i32))
	cSetElem := st(m, c, "struct", "CSetElem", fld(1, "v", i32))
	cKey := st(m, c, "struct", "CKey", fld(1, "v", i32))
	cVal := st(m, c, "struct", "CVal", fld(1, "v", i32))
	cTdTarget := st(m, c, "struct", "CTdTarget", fld(1, "v", i32))
	cTd := &idl.Typedef{Name: "CTd", Type: idl.StructT(cTdTarget)}
	c.Add(cTd)
	cTdOnly := st(m, c, "struct", "CTdOnlyTarget", fld(1, "v", i32)) // reachable only as target of a typedef nobody uses: typedef targets are roots
	c.Add(&idl.Typedef{Name: "CTdUnusedAlias", Type: idl.ListOf(idl.StructT(cTdOnly))})
	cConstT := st(m, c, "struct", "CConstT", fld(1, "v", i32))
	c.Add(&idl.Const{Name: "CK", Type: idl.StructT(cConstT), Value: idl.VM([2]*idl.Value{idl.VS("v"), idl.VI(1)})})
	// constants of container type whose element structs are reachable in no other way
	cConstElem := st(m, c, "struct", "CConstElem", fld(1, "v", i32))
	c.Add(&idl.Const{Name: "CKL", Type: idl.ListOf(idl.StructT(cConstElem)), Value: idl.VL(idl.VM([2]*idl.Value{idl.VS("v"), idl.VI(1)}))})
	cConstMapVal := st(m, c, "struct", "CConstMapVal", fld(1, "v", i32))
	c.Add(&idl.Const{Name: "CKM", Type: idl.MapOf(str, idl.SetOf(idl.StructT(cConstMapVal))), Value: idl.VM()})
	dConstElem := st(m, d, "struct", "DConstElem", fld(1, "v", i32))
	c.Add(&idl.Const{Name: "CKD", Type: idl.ListOf(idl.StructT(dConstElem)), Value: idl.VL()})
	// a union in the included file whose member structs are reachable through it alone
	cUnionOnlyA := st(m, c, "struct", "CUnionOnlyA", fld(1, "v", i32))
	cUnionOnlyB := st(m, c, "struct", "CUnionOnlyB", fld(1, "v", i32))
	cUnionOnlyX := st(m, c, "exception", "CUnionOnlyX", fld(1, "m", str))
	cU2 := st(m, c, "union", "CU2", fld(1, "a", idl.StructT(cUnionOnlyA)), fld(2, "b", idl.ListOf(idl.StructT(cUnionOnlyB))), fld(3, "x", idl.StructT(cUnionOnlyX)))
	cUnusedA := st(m, c, "struct", "CUnusedA", fld(1, "v", i32))
	st(m, c, "struct", "CUnusedB", fld(1, "a", idl.StructT(cUnusedA)))
	st(m, c, "union", "CUnusedU", fld(1, "v", i32))
	st(m, c, "exception", "CUnusedX", fld(1, "v", str))
	cOtherOnly := st(m, c, "struct", "COtherOnly", fld(1, "v", i32))
	// a base of the base, in the same included file
	cRootRes := st(m, c, "struct", "CRootRes", fld(1, "v", i32))
	cRoot := &idl.Service{Name: "CRoot", Functions: []*idl.Function{{Name: "root", Ret: idl.StructT(cRootRes)}}}
	c.Add(cRoot)
	m.svcs["CRoot"] = cRoot
	cBase := &idl.Service{Name: "CBase", Extends: cRoot, Functions: []*idl.Function{
		{Name: "base", Ret: idl.StructT(cRes), Args: []*idl.Field{fld(1, "a", idl.StructT(cArg))}, Throws: []*idl.Field{fld(1, "e", idl.StructT(cErr))}},
		{Name: "ping"}}}
	c.Add(cBase)
	m.svcs["CBase"] = cBase
	cOther := &idl.Service{Name: "COther", Functions: []*idl.Function{{Name: "m", Ret: idl.StructT(cOtherOnly)}}}
	c.Add(cOther)
	m.svcs["COther"] = cOther

	b := &idl.File{Path: "b.thrift", Includes: []*idl.Include{{Path: "c.thrift", File: c}, {Path: "d.thrift", File: d}}, Namespaces: []*idl.Namespace{{Lang: "go", Name: "t.bpk"}}}
	bMid := st(m, b, "struct", "BMid", fld(1, "l", idl.StructT(cLeaf)), fld(2, "e", idl.ListOf(idl.StructT(cElem))), fld(3, "m", idl.MapOf(idl.StructT(cKey), idl.StructT(cVal))), fld(4, "t", idl.TypedefT(cTd)), fld(5, "s", idl.SetOf(idl.StructT(cSetElem))), fld(6, "d", idl.StructT(dShared)))
	st(m, b, "struct", "BUnused", fld(1, "l", idl.StructT(cLeaf)))
	bTd := &idl.Typedef{Name: "BTd", Type: idl.TypedefT(cTd)}
	b.Add(bTd)

	// main -> via -> deep: "via" keeps nothing of its own, "deep" holds only things that are always kept
	deep := &idl.File{Path: "deep.thrift", Namespaces: []*idl.Namespace{{Lang: "go", Name: "t.deeppk"}}}
	deep.Add(&idl.Enum{Name: "DeepE", Values: []*idl.EnumValue{{Name: "A"}}})
	deep.Add(&idl.Const{Name: "DEEP_K", Type: i32, Value: idl.VI(1)})
	deepPres := st(m, deep, "struct", "DeepPreserved", fld(1, "v", i32))
	m.comment[deepPres] = "// @preserve"
	st(m, deep, "struct", "DeepUnused", fld(1, "v", i32))
	via := &idl.File{Path: "via.thrift", Includes: []*idl.Include{{Path: "deep.thrift", File: deep}}, Namespaces: []*idl.Namespace{{Lang: "go", Name: "t.viapk"}}}
	st(m, via, "struct", "ViaUnused", fld(1, "v", i32))
	mainf := &idl.File{Path: "main.thrift", Includes: []*idl.Include{{Path: "b.thrift", File: b}, {Path: "c.thrift", File: c}, {Path: "via.thrift", File: via}}, Namespaces: []*idl.Namespace{{Lang: "go", Name: "t.mpk"}}}
	mNested := st(m, mainf, "struct", "MNested", fld(1, "v", i32))
	mArg := st(m, mainf, "struct", "MArg", fld(1, "n", idl.StructT(mNested)), fld(2, "bt", idl.TypedefT(bTd)))
	mErr := st(m, mainf, "exception", "MErr", fld(1, "m", str))
	mOnlyOther := st(m, mainf, "struct", "MOnlyOther", fld(1, "v", i32))
	st(m, mainf, "struct", "MUnused", fld(1, "v", i32))
	mPres := st(m, mainf, "struct", "MPreservedByComment", fld(1, "v", i32))
	m.comment[mPres] = "// @preserve"
	st(m, mainf, "struct", "MPreservedByList", fld(1, "v", i32))
	// an exception and a union kept only by their @preserve comment, each with a member struct reachable through it alone
	mPresXOnly := st(m, mainf, "struct", "MPresXOnly", fld(1, "v", i32))
	mPresX := st(m, mainf, "exception", "MPreservedX", fld(1, "d", idl.StructT(mPresXOnly)), fld(2, "m", str))
	m.comment[mPresX] = "// @preserve"
	mPresUOnly := st(m, mainf, "struct", "MPresUOnly", fld(1, "v", i32))
	mPresU := st(m, mainf, "union", "MPreservedU", fld(1, "d", idl.ListOf(idl.StructT(mPresUOnly))), fld(2, "n", i32))
	m.comment[mPresU] = "// @preserve"
	mSelf := st(m, mainf, "struct", "MSelf", fld(1, "v", i32))
	mSelf.Fields = append(mSelf.Fields, &idl.Field{ID: 2, ExplicitID: true, Name: "next", Type: idl.StructT(mSelf), Req: idl.ReqOptional})
	mainSvc := &idl.Service{Name: "Main", Extends: cBase, Functions: []*idl.Function{
		{Name: "get", Ret: idl.StructT(bMid), Args: []*idl.Field{fld(1, "a", idl.StructT(mArg))}, Throws: []*idl.Field{fld(1, "e", idl.StructT(mErr))}},
		{Name: "other", Args: []*idl.Field{fld(1, "x", idl.StructT(mOnlyOther)), fld(2, "s", idl.StructT(mSelf)), fld(3, "u", idl.StructT(cU2))}},
		{Name: "get_more", Ret: i32}}}
	mainf.Add(mainSvc)
	m.svcs["Main"] = mainSvc
	m.files = []*idl.File{mainf, b, c, d, via, deep}
	m.main = mainf
	if extraFile != "" {
		for _, f := range m.files {
			if f.Path == extraFile {
				st(m, f, extraCat, "ZExtra", fld(1, "v", i32))
			}
		}
	}
	return m
}

func (m *model) texts() map[string]string {
	out := map[string]string{}
	for _, f := range m.files {
		t := idl.Render(f)
		for s, cmt := range m.comment {
			if s.File == f {
				t = strings.Replace(t, "\n"+s.Cat+" "+s.Name+" ", "\n"+cmt+"\n"+s.Cat+" "+s.Name+" ", 1)
			}
		}
		out[f.Path] = t
	}
	return out
}

// ---------------------------------------------------------------- reference semantics (App. A.4)

type keep struct {
	structs map[*idl.Struct]bool
	funcs   map[*idl.Function]bool
	svcs    map[*idl.Service]bool
}

func (k *keep) typ(t *idl.Type) {
	switch t.Kind {
	case idl.List, idl.Set:
		k.typ(t.Elem)
	case idl.Map:
		k.typ(t.Key)
		k.typ(t.Elem)
	case idl.TypedefK:
		k.typ(t.Typedef.Type)
	case idl.StructK:
		if !k.structs[t.Struct] {
			k.structs[t.Struct] = true
			for _, f := range t.Struct.Fields {
				k.typ(f.Type)
			}
		}
	}
}

func (k *keep) function(fn *idl.Function) {
	k.funcs[fn] = true
	if fn.Ret != nil {
		k.typ(fn.Ret)
	}
	for _, a := range fn.Args {
		k.typ(a.Type)
	}
	for _, a := range fn.Throws {
		k.typ(a.Type)
	}
}

type targs struct {
	name      string
	methods   []string
	preserve  *bool
	preserved []string
	// match: does the filter keep function fn of service s (reached from Main)?
	match func(chain []string, fn string) bool
}

func closure(m *model, a targs) *keep {
	k := &keep{structs: map[*idl.Struct]bool{}, funcs: map[*idl.Function]bool{}, svcs: map[*idl.Service]bool{}}
	// roots: constants' types, typedef targets (all files)
	for _, f := range m.files {
		for _, d := range f.Defs {
			if d.Const != nil {
				k.typ(d.Const.Type)
			}
			if d.Typedef != nil {
				k.typ(d.Typedef.Type)
			}
		}
	}
	// services of the main file and their bases
	for _, d := range m.main.Defs {
		if d.Service == nil {
			continue
		}
		var chain []*idl.Service
		for s := d.Service; s != nil; s = s.Extends {
			chain = append(chain, s)
		}
		if a.match == nil {
			for _, s := range chain {
				k.svcs[s] = true
				for _, fn := range s.Functions {
					k.function(fn)
				}
			}
			continue
		}
		// with a method filter: a function is kept if it matches under the name of
		// the service it is written in or of any service deriving from it on the chain
		deepest := -1
		for i, s := range chain {
			var names []string
			for _, x := range chain[:i+1] {
				names = append(names, x.Name)
			}
			for _, fn := range s.Functions {
				if a.match(names, fn.Name) {
					k.function(fn)
					if i > deepest {
						deepest = i
					}
				}
			}
		}
		for i := 0; i <= deepest; i++ {
			k.svcs[chain[i]] = true
		}
	}
	preserveOn := a.preserve == nil || *a.preserve
	if preserveOn {
		for _, n := range a.preserved {
			if s := m.structs[n]; s != nil {
				k.typ(idl.StructT(s))
			}
		}
		for s := range m.comment {
			k.typ(idl.StructT(s))
		}
	}
	return k
}

// neededFiles: a file is kept iff it is main, or reachable through includes
// from main via files that keep it: it defines something kept, or any
// constant / enum / typedef (always kept), or includes a needed file.
func neededFiles(m *model, k *keep) map[*idl.File]bool {
	self := map[*idl.File]bool{}
	for _, f := range m.files {
		for _, d := range f.Defs {
			switch {
			case d.Const != nil, d.Enum != nil, d.Typedef != nil:
				self[f] = true
			case d.Struct != nil && k.structs[d.Struct]:
				self[f] = true
			case d.Service != nil && k.svcs[d.Service]:
				self[f] = true
			}
		}
	}
	need := map[*idl.File]bool{}
	var rec func(f *idl.File) bool
	rec = func(f *idl.File) bool {
		n := self[f]
		for _, inc := range f.Includes {
			if rec(inc.File) {
				n = true
			}
		}
		if n {
			need[f] = true
		}
		return n
	}
	rec(m.main)
	need[m.main] = true
	return need
}

// ---------------------------------------------------------------- observation

type observed struct {
	structs  map[string][]string // file -> sorted struct-like names
	services map[string][]string // file -> "Svc.fn"
	consts   map[string]int
	typedefs map[string]int
	enums    map[string]int
	includes map[string][]string
}

func observe(content map[string]string, mainPath string) (*observed, error) {
	o := &observed{structs: map[string][]string{}, services: map[string][]string{}, consts: map[string]int{}, typedefs: map[string]int{}, enums: map[string]int{}, includes: map[string][]string{}}
	ast, err := parser.ParseBatchString(mainPath, content, nil)
	if err != nil {
		return nil, fmt.Errorf("re-parse: %w", err)
	}
	if _, err := semantic.NewChecker(semantic.Options{}).CheckAll(ast); err != nil {
		return nil, fmt.Errorf("check: %w", err)
	}
	if err := semantic.ResolveSymbols(ast); err != nil {
		return nil, fmt.Errorf("resolve: %w", err)
	}
	for t := range ast.DepthFirstSearch() {
		fn := t.Filename
		for _, s := range t.GetStructLikes() {
			o.structs[fn] = append(o.structs[fn], s.Name)
		}
		sort.Strings(o.structs[fn])
		for _, s := range t.Services {
			o.services[fn] = append(o.services[fn], s.Name+"{")
			for _, f := range s.Functions {
				o.services[fn] = append(o.services[fn], s.Name+"."+f.Name)
			}
		}
		sort.Strings(o.services[fn])
		o.consts[fn], o.typedefs[fn], o.enums[fn] = len(t.Constants), len(t.Typedefs), len(t.Enums)
		for _, inc := range t.Includes {
			o.includes[fn] = append(o.includes[fn], inc.Path)
		}
		sort.Strings(o.includes[fn])
	}
	return o, nil
}

func trimOnce(content map[string]string, mainPath string, a targs) (out map[string]string, err error, pan string) {
	defer func() {
		if x := recover(); x != nil {
			pan = fmt.Sprint(x)
		}
	}()
	arg := trim.TrimASTArg{TrimMethods: append([]string{}, a.methods...), Preserve: a.preserve, PreserveStructs: a.preserved}
	out, err = trim.TrimBatchContentWithConfig(mainPath, content, arg)
	return
}

func main() {
	flag.String("replay", "", "unused")
	run := evid.New("C16", "exploration")
	thorough := run.Thorough()
	off := false
	argsList := []targs{
		{name: "no-filter"},
		{name: "preserve-off", preserve: &off},
		{name: "preserved-list", preserved: []string{"MPreservedByList", "CUnusedB"}},
		{name: "m-exact", methods: []string{"Main.get"}, match: func(ch []string, fn string) bool { return has(ch, "Main") && fn == "get" }},
		{name: "m-unqualified", methods: []string{"other"}, match: func(ch []string, fn string) bool { return has(ch, "Main") && fn == "other" }},
		{name: "m-regexp", methods: []string{`Main\.get.*`}, match: func(ch []string, fn string) bool { return has(ch, "Main") && strings.HasPrefix(fn, "get") }},
		{name: "m-base-method", methods: []string{"Main.base"}, match: func(ch []string, fn string) bool { return has(ch, "Main") && fn == "base" }},
		{name: "m-two", methods: []string{"Main.get_more", "Main.ping"}, match: func(ch []string, fn string) bool { return has(ch, "Main") && (fn == "get_more" || fn == "ping") }},
		{name: "m-exact-preserve-off", methods: []string{"Main.get"}, preserve: &off, match: func(ch []string, fn string) bool { return has(ch, "Main") && fn == "get" }},
	}
	type variant struct{ file, cat string }
	variants := []variant{{"", ""}}
	for _, f := range []string{"main.thrift", "b.thrift", "c.thrift", "d.thrift"} {
		for _, c := range []string{"struct", "union", "exception"} {
			if thorough || c == "struct" || f == "c.thrift" {
				variants = append(variants, variant{f, c})
			}
		}
	}
	outcomes := map[string]int64{}
	for _, v := range variants {
		for _, a := range argsList {
			m := build(v.file, v.cat)
			k := closure(m, a)
			need := neededFiles(m, k)
			name := fmt.Sprintf("extra=%s/%s args=%s", v.file, v.cat, a.name)
			removable := 0
			for _, s := range m.structs {
				if !k.structs[s] {
					removable++
				}
			}
			run.Eval(name, removable > 0)
			texts := m.texts()
			rp := map[string]any{"variant": name, "methods": a.methods, "preserved": a.preserved, "idl": texts}
			out, err, pan := trimOnce(texts, "main.thrift", a)
			if pan != "" {
				run.Violate(evid.Violation{Class: "panic:" + a.name, What: "trimmer panicked: " + firstLine(pan), Replay: rp})
				continue
			}
			if err != nil {
				run.Violate(evid.Violation{Class: "trim-error:" + a.name, What: "trimming a valid program failed: " + firstLine(err.Error()), Replay: rp})
				continue
			}
			rp["trimmed"] = out
			o, err := observe(out, "main.thrift")
			if err != nil {
				run.Violate(evid.Violation{Class: "output-invalid:" + a.name + ":" + errShape(err), What: "the trimmed IDL set is not valid: " + firstLine(err.Error()), Replay: rp})
				continue
			}
			ok := true
			bad := func(class, what string) {
				ok = false
				run.Violate(evid.Violation{Class: class, What: name + ": " + what, Replay: rp})
			}
			for _, f := range m.files {
				if !need[f] {
					if _, present := out[f.Path]; present && inIncludes(o, f.Path) {
						bad("include-not-removed:"+f.Path, fmt.Sprintf("%s is no longer needed but still included", f.Path))
					}
					continue
				}
				if _, present := o.structs[f.Path]; !present && f != m.main {
					if _, inOut := out[f.Path]; !inOut || !inIncludes(o, f.Path) {
						bad("needed-include-removed:"+f.Path, fmt.Sprintf("%s is still needed but was removed", f.Path))
						continue
					}
				}
				var want []string
				nc, nt, ne := 0, 0, 0
				var wantSvc []string
				for _, d := range f.Defs {
					switch {
					case d.Struct != nil && k.structs[d.Struct]:
						want = append(want, d.Struct.Name)
					case d.Const != nil:
						nc++
					case d.Typedef != nil:
						nt++
					case d.Enum != nil:
						ne++
					case d.Service != nil && k.svcs[d.Service]:
						wantSvc = append(wantSvc, d.Service.Name+"{")
						for _, fn := range d.Service.Functions {
							if k.funcs[fn] {
								wantSvc = append(wantSvc, d.Service.Name+"."+fn.Name)
							}
						}
					}
				}
				sort.Strings(want)
				sort.Strings(wantSvc)
				got := o.structs[f.Path]
				if strings.Join(want, ",") != strings.Join(got, ",") {
					missing, extra := diffSets(want, got)
					if len(missing) > 0 {
						bad("needed-struct-removed:"+edgeOf(missing[0]), fmt.Sprintf("%s: struct-likes %v are reachable but were removed", f.Path, missing))
					}
					if len(extra) > 0 {
						bad("unneeded-struct-kept:"+strings.TrimSuffix(extra[0], "")+"@"+a.name, fmt.Sprintf("%s: struct-likes %v are not reachable (and not preserved) but were kept", f.Path, extra))
					}
				}
				if o.consts[f.Path] != nc || o.typedefs[f.Path] != nt || o.enums[f.Path] != ne {
					bad("const-typedef-enum-dropped:"+f.Path, fmt.Sprintf("%s: constants/typedefs/enums %d/%d/%d, want %d/%d/%d", f.Path, o.consts[f.Path], o.typedefs[f.Path], o.enums[f.Path], nc, nt, ne))
				}
				if strings.Join(wantSvc, ",") != strings.Join(o.services[f.Path], ",") {
					bad("services-differ:"+a.name+":"+f.Path, fmt.Sprintf("%s: services/methods kept %v, want %v", f.Path, o.services[f.Path], wantSvc))
				}
			}
			// idempotence
			out2, err2, pan2 := trimOnce(out, "main.thrift", a)
			if pan2 != "" || err2 != nil {
				bad("retrim-failed:"+a.name, fmt.Sprintf("trimming the trimmed output failed: %v %s", err2, firstLine(pan2)))
			} else {
				o2, err := observe(out2, "main.thrift")
				if err != nil {
					bad("retrim-invalid:"+a.name, "second trimming produced an invalid IDL set: "+firstLine(err.Error()))
				} else if fmt.Sprint(o2) != fmt.Sprint(o) {
					bad("not-idempotent:"+a.name, fmt.Sprintf("trimming again changed the result: %v vs %v", o2.structs, o.structs))
				}
			}
			if ok {
				outcomes["ok:"+a.name]++
			}
		}
	}
	level2(run, argsList, outcomes)
	run.Set("variants", len(variants))
	run.Set("argument_sets", len(argsList))
	run.Set("outcome_classes", outcomes)
	m0 := build("", "")
	run.Sample(map[string]any{"main.thrift": m0.texts()["main.thrift"], "arguments": "-m Main.get"})
	run.Set("rule", "one evaluation = one (program variant, trimmer arguments) trimmed in-process, re-parsed, re-checked and compared with the reference closure; non-trivial iff at least one struct-like is removable in the model")
	run.Assume("roots are the services of the main file (and their bases), every constant's type and every typedef's target in every file; enums are always kept")
	run.Finish()
}

// level2: the trimmer binary with -r, and the generated code of the trimmed IDL.
//
//	(a) `trimmer -r <src> -o <dir> [-m ...] [-p false] main.thrift` writes the same IDL set as the API;
//	(b) code generated from the trimmed IDL (API output and `-g go:trim_idl`) compiles, contains
//	    exactly the kept struct-likes, and writes / reads every value of every kept type exactly
//	    as the code generated from the untrimmed IDL does (and as the reference codec says).
func level2(run *evid.Run, argsList []targs, outcomes map[string]int64) {
	ses := gen.NewSession(run, "c16")
	defer ses.Close()
	m := build("", "")
	texts := m.texts()
	// ---- (a) the binary
	bin := filepath.Join(ses.Scratch, "trimmer")
	{
		cmd := exec.Command("go", "build", "-o", bin, "./tool/trimmer")
		cmd.Dir = "/repo"
		cmd.Env = gen.GoEnv()
		if out, err := cmd.CombinedOutput(); err != nil {
			run.Fatal("building the trimmer: %v\n%s", err, out)
		}
	}
	src := filepath.Join(ses.Scratch, "trim-src")
	for rel, t := range texts {
		os.MkdirAll(filepath.Dir(filepath.Join(src, rel)), 0o755)
		os.WriteFile(filepath.Join(src, rel), []byte(t), 0o644)
	}
	trimmed := map[string]map[string]string{}
	for _, a := range argsList {
		api, err, pan := trimOnce(texts, "main.thrift", a)
		if err != nil || pan != "" {
			continue // reported by level 1
		}
		trimmed[a.name] = api
		if len(a.preserved) > 0 {
			continue // the preserved-struct list has no command-line form
		}
		outDir := filepath.Join(ses.Scratch, "trim-out-"+a.name)
		args := []string{"-r", src, "-o", outDir}
		for _, mm := range a.methods {
			args = append(args, "-m", mm)
		}
		if a.preserve != nil && !*a.preserve {
			args = append(args, "-p", "false")
		}
		args = append(args, filepath.Join(src, "main.thrift"))
		cmd := exec.Command(bin, args...)
		cmd.Dir = ses.Scratch
		outb, err := cmd.CombinedOutput()
		run.Eval("binary|"+a.name, true)
		rp := map[string]any{"args": args, "idl": texts}
		if err != nil {
			run.Violate(evid.Violation{Class: "binary-failed:" + a.name, What: fmt.Sprintf("trimmer %v: %v: %s", args, err, firstLine(string(outb))), Replay: rp})
			continue
		}
		got := map[string]string{}
		filepath.Walk(outDir, func(p string, info os.FileInfo, err error) error {
			if err == nil && !info.IsDir() {
				b, _ := os.ReadFile(p)
				rel, _ := filepath.Rel(outDir, p)
				got[rel] = string(b)
			}
			return nil
		})
		oa, e1 := observe(api, "main.thrift")
		ob, e2 := observe(got, "main.thrift")
		if e1 != nil {
			continue
		}
		if e2 != nil {
			run.Violate(evid.Violation{Class: "binary-output-invalid:" + a.name, What: "the IDL set written by the trimmer binary is not valid: " + firstLine(e2.Error()), Replay: rp})
			continue
		}
		if fmt.Sprint(oa) != fmt.Sprint(ob) {
			run.Violate(evid.Violation{Class: "binary-differs-from-api:" + a.name, What: fmt.Sprintf("trimmer binary keeps %v / %v, the API %v / %v", ob.structs, ob.services, oa.structs, oa.services), Replay: rp})
			continue
		}
		outcomes["binary-same-as-api"]++
	}
	// ---- (b) generated code
	prog := &idl.Program{Files: m.files}
	orig := ses.Batch.Add(&gen.Item{Key: "orig", Prog: prog, Texts: texts, Recurse: true})
	type titem struct {
		it   *gen.Item
		args targs
		name string
	}
	var tis []titem
	for _, a := range argsList {
		if t, ok := trimmed[a.name]; ok && (a.name == "no-filter" || a.name == "m-exact" || a.name == "preserve-off" || a.name == "m-base-method") {
			tis = append(tis, titem{ses.Batch.Add(&gen.Item{Key: "t-" + a.name, Prog: prog, Texts: t, Recurse: true}), a, "api:" + a.name})
		}
	}
	tis = append(tis, titem{ses.Batch.Add(&gen.Item{Key: "trimidl", Prog: prog, Texts: texts, Opts: []string{"trim_idl"}, Recurse: true}), argsList[0], "option:trim_idl"})
	ses.Start("orig")
	for _, ti := range tis {
		run.Eval("generated|"+ti.name, true)
		rp := map[string]any{"trimmed_by": ti.name, "idl": texts}
		if ti.it.Exit != 0 {
			run.Violate(evid.Violation{Class: "trimmed-idl-rejected:" + ti.name, What: fmt.Sprintf("thriftgo rejects the trimmed IDL (%s): %s", ti.name, firstLine(ti.it.Stderr+ti.it.Stdout)), Replay: rp})
			continue
		}
		if ti.it.BuildErr != "" {
			run.Violate(evid.Violation{Class: "trimmed-code-does-not-compile:" + ti.name, What: fmt.Sprintf("code generated from the trimmed IDL (%s) does not compile: %s", ti.name, firstLine(ti.it.BuildErr)), Replay: rp})
			continue
		}
		k := closure(m, ti.args)
		var want, got []string
		for n, st := range m.structs {
			if k.structs[st] {
				want = append(want, n)
			}
		}
		for n := range ti.it.Types {
			if _, isModel := m.structs[n]; isModel {
				got = append(got, n)
			}
		}
		sort.Strings(want)
		sort.Strings(got)
		if strings.Join(want, ",") != strings.Join(got, ",") {
			missing, extra := diffSets(want, got)
			run.Violate(evid.Violation{Class: "generated-types-differ:" + ti.name, What: fmt.Sprintf("%s: generated struct-likes: missing %v, not needed %v", ti.name, missing, extra), Replay: rp})
			continue
		}
		// wire behaviour of every kept type
		var reqsO, reqsT []*gen.Req
		type vv struct {
			st  *idl.Struct
			v   *refsem.Val
			ref []byte
		}
		var vs []vv
		for _, n := range want {
			st := m.structs[n]
			for _, v := range refsem.StructDomain(st, 1, false) {
				ref := refsem.EncodeStruct(nil, st.Fields, refsem.Complete(st, v))
				vs = append(vs, vv{st, v, ref})
				reqsO = append(reqsO, &gen.Req{Type: gen.RegKey(orig, n), Op: "readwrite", Bytes: hex.EncodeToString(ref)})
				reqsT = append(reqsT, &gen.Req{Type: gen.RegKey(ti.it, n), Op: "readwrite", Bytes: hex.EncodeToString(ref)})
			}
		}
		ro, rt := ses.Do(reqsO), ses.Do(reqsT)
		okAll := true
		for i := range vs {
			run.Eval(fmt.Sprintf("wire|%s|%s|%d", ti.name, vs[i].st.Name, i), len(vs[i].ref) > 1)
			a, b := ro[i], rt[i]
			if a.Err != b.Err || a.Panic != b.Panic || a.Bytes != b.Bytes || (a.Val != nil && b.Val != nil && refsem.SameStruct(vs[i].st, a.Val, b.Val) != "") {
				run.Violate(evid.Violation{Class: "wire-behaviour-differs:" + ti.name + ":" + vs[i].st.Name, What: fmt.Sprintf("%s: %s reads+rewrites %x as %s (%s%s) from the trimmed IDL, %s (%s%s) from the original", ti.name, vs[i].st.Name, vs[i].ref, b.Bytes, b.Err, b.Panic, a.Bytes, a.Err, a.Panic), Replay: rp})
				okAll = false
				break
			}
		}
		if okAll {
			outcomes["generated-same-wire:"+ti.name]++
		}
	}
}

func has(ch []string, n string) bool {
	for _, x := range ch {
		if x == n {
			return true
		}
	}
	return false
}

func inIncludes(o *observed, path string) bool {
	for _, incs := range o.includes {
		for _, p := range incs {
			if p == path {
				return true
			}
		}
	}
	return false
}

func diffSets(want, got []string) (missing, extra []string) {
	w, g := map[string]bool{}, map[string]bool{}
	for _, x := range want {
		w[x] = true
	}
	for _, x := range got {
		g[x] = true
	}
	for _, x := range want {
		if !g[x] {
			missing = append(missing, x)
		}
	}
	for _, x := range got {
		if !w[x] {
			extra = append(extra, x)
		}
	}
	return
}

// edgeOf names the struct (which stands for the edge kind through which it is reached).
func edgeOf(name string) string { return name }

func errShape(err error) string {
	s := firstLine(err.Error())
	for _, cut := range []string{": \"", " \"", " from file"} {
		if i := strings.Index(s, cut); i > 0 {
			s = s[:i]
		}
	}
	if len(s) > 60 {
		s = s[:60]
	}
	return s
}

func firstLine(s string) string {
	s = strings.TrimSpace(s)
	if i := strings.IndexByte(s, '\n'); i >= 0 {
		return s[:i]
	}
	return s
}
