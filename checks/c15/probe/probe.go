// Package probe exercises the lookup API of thrift_reflection on one file
// descriptor. The same source is compiled into the check (in-process level)
// and, with its package clause rewritten, into the driver (generated level).
package probe

import (
	"fmt"
	"reflect"

	tr "github.com/cloudwego/thriftgo/thrift_reflection"
)

func where(fp, name string) string { return fp + "#" + name }

// Probe returns: "self" (identity lookups that failed), "refs" (every named
// type reference -> kind and defining file), "parents", "all_methods", "go".
func Probe(fd *tr.FileDescriptor) (out map[string]any) {
	out = map[string]any{}
	defer func() {
		if r := recover(); r != nil {
			out["panic"] = fmt.Sprint(r)
		}
	}()
	gd := tr.GetGlobalDescriptor(fd)
	var self []any
	bad := func(f string, a ...any) { self = append(self, fmt.Sprintf(f, a...)) }
	refs := map[string]any{}
	var walk func(path string, t *tr.TypeDescriptor)
	walk = func(path string, t *tr.TypeDescriptor) {
		if t == nil {
			return
		}
		if t.IsContainer() {
			walk(path+"/k", t.KeyType)
			walk(path+"/v", t.ValueType)
			return
		}
		if t.IsBasic() || t.Name == "void" {
			return
		}
		var hits []string
		if t.IsStruct() {
			if d, err := t.GetStructDescriptor(); err == nil && d != nil {
				hits = append(hits, "struct "+where(d.Filepath, d.Name))
			}
		}
		if t.IsUnion() {
			if d, err := t.GetUnionDescriptor(); err == nil && d != nil {
				hits = append(hits, "union "+where(d.Filepath, d.Name))
			}
		}
		if t.IsException() {
			if d, err := t.GetExceptionDescriptor(); err == nil && d != nil {
				hits = append(hits, "exception "+where(d.Filepath, d.Name))
			}
		}
		if t.IsEnum() {
			if d, err := t.GetEnumDescriptor(); err == nil && d != nil {
				hits = append(hits, "enum "+where(d.Filepath, d.Name))
			}
		}
		if t.IsTypedef() {
			if d, err := t.GetTypedefDescriptor(); err == nil && d != nil {
				hits = append(hits, "typedef "+where(d.Filepath, d.Alias))
			}
		}
		switch len(hits) {
		case 0:
			refs[path] = "unresolved " + t.Name
		case 1:
			refs[path] = hits[0]
		default:
			refs[path] = fmt.Sprint("ambiguous ", hits)
		}
	}
	gotypes := map[string]any{}
	structLike := func(kind string, l []*tr.StructDescriptor, look func(name, fp string) *tr.StructDescriptor, byName func(string) *tr.StructDescriptor) {
		for _, s := range l {
			if look(s.Name, fd.Filepath) != s {
				bad("Lookup%s(%q, %q) is not the %s's descriptor", kind, s.Name, fd.Filepath, kind)
			}
			if byName(s.Name) != s {
				bad("fd.Get%sDescriptor(%q) is not the %s's descriptor", kind, s.Name, kind)
			}
			for _, f := range s.Fields {
				if s.GetFieldById(f.ID) != f {
					bad("%s.GetFieldById(%d) is not field %s", s.Name, f.ID, f.Name)
				}
				if s.GetFieldByName(f.Name) != f {
					bad("%s.GetFieldByName(%q) is not the field", s.Name, f.Name)
				}
				walk(s.Name+"."+f.Name, f.Type)
			}
			if gt := s.GetGoType(); gt != nil {
				back := gd.GetStructDescriptorByGoType(reflect.New(gt).Interface()) == s
				gotypes[kind+":"+s.Name] = map[string]any{"type": gt.String(), "back": back}
			}
		}
	}
	structLike("Struct", fd.Structs, gd.LookupStruct, fd.GetStructDescriptor)
	structLike("Union", fd.Unions, gd.LookupUnion, fd.GetUnionDescriptor)
	structLike("Exception", fd.Exceptions, gd.LookupException, fd.GetExceptionDescriptor)
	for _, e := range fd.Enums {
		if gd.LookupEnum(e.Name, fd.Filepath) != e {
			bad("LookupEnum(%q, %q) is not the enum's descriptor", e.Name, fd.Filepath)
		}
		if fd.GetEnumDescriptor(e.Name) != e {
			bad("fd.GetEnumDescriptor(%q) is not the enum's descriptor", e.Name)
		}
		if gt := e.GetGoType(); gt != nil {
			back := gd.GetEnumDescriptorByGoType(reflect.New(gt).Interface()) == e
			gotypes["Enum:"+e.Name] = map[string]any{"type": gt.String(), "back": back}
		}
	}
	for _, t := range fd.Typedefs {
		if gd.LookupTypedef(t.Alias, fd.Filepath) != t {
			bad("LookupTypedef(%q, %q) is not the typedef's descriptor", t.Alias, fd.Filepath)
		}
		if fd.GetTypedefDescriptor(t.Alias) != t {
			bad("fd.GetTypedefDescriptor(%q) is not the typedef's descriptor", t.Alias)
		}
		walk("typedef:"+t.Alias, t.Type)
	}
	for _, c := range fd.Consts {
		if gd.LookupConst(c.Name, fd.Filepath) != c {
			bad("LookupConst(%q, %q) is not the constant's descriptor", c.Name, fd.Filepath)
		}
		if fd.GetConstDescriptor(c.Name) != c {
			bad("fd.GetConstDescriptor(%q) is not the constant's descriptor", c.Name)
		}
		walk("const:"+c.Name, c.Type)
	}
	parents := map[string]any{}
	all := map[string]any{}
	for _, s := range fd.Services {
		if gd.LookupService(s.Name, fd.Filepath) != s {
			bad("LookupService(%q, %q) is not the service's descriptor", s.Name, fd.Filepath)
		}
		if fd.GetServiceDescriptor(s.Name) != s {
			bad("fd.GetServiceDescriptor(%q) is not the service's descriptor", s.Name)
		}
		for _, m := range s.Methods {
			if s.GetMethodByName(m.Name) != m {
				bad("%s.GetMethodByName(%q) is not the method", s.Name, m.Name)
			}
			if fd.GetMethodDescriptor(s.Name, m.Name) != m {
				bad("fd.GetMethodDescriptor(%q, %q) is not the method", s.Name, m.Name)
			}
			if gd.LookupMethod(m.Name, s.Name, fd.Filepath) != m {
				bad("LookupMethod(%q, %q, %q) is not the method", m.Name, s.Name, fd.Filepath)
			}
			walk(s.Name+"."+m.Name+".ret", m.Response)
			for _, a := range m.Args {
				walk(s.Name+"."+m.Name+".arg."+a.Name, a.Type)
			}
			for _, a := range m.ThrowExceptions {
				walk(s.Name+"."+m.Name+".throw."+a.Name, a.Type)
			}
		}
		if p := s.GetParent(); p != nil {
			parents[s.Name] = where(p.Filepath, p.Name)
		} else {
			parents[s.Name] = ""
		}
		var names []any
		for _, m := range s.GetAllMethods() {
			names = append(names, m.Name)
		}
		all[s.Name] = names
	}
	// every include alias leads to the file the include names, and qualified lookups find its definitions
	for alias, path := range fd.Includes {
		inc := fd.GetIncludeFD(alias)
		if inc == nil || inc.Filepath != path {
			bad("GetIncludeFD(%q) does not lead to %s", alias, path)
			continue
		}
		for _, s := range inc.Structs {
			if fd.GetStructDescriptor(alias+"."+s.Name) != s {
				bad("fd.GetStructDescriptor(%q) is not the included struct", alias+"."+s.Name)
			}
		}
		for _, s := range inc.Enums {
			if fd.GetEnumDescriptor(alias+"."+s.Name) != s {
				bad("fd.GetEnumDescriptor(%q) is not the included enum", alias+"."+s.Name)
			}
		}
		for _, s := range inc.Typedefs {
			if fd.GetTypedefDescriptor(alias+"."+s.Alias) != s {
				bad("fd.GetTypedefDescriptor(%q) is not the included typedef", alias+"."+s.Alias)
			}
		}
		for _, s := range inc.Consts {
			if fd.GetConstDescriptor(alias+"."+s.Name) != s {
				bad("fd.GetConstDescriptor(%q) is not the included constant", alias+"."+s.Name)
			}
		}
		for _, s := range inc.Services {
			if fd.GetServiceDescriptor(alias+"."+s.Name) != s {
				bad("fd.GetServiceDescriptor(%q) is not the included service", alias+"."+s.Name)
			}
		}
	}
	if self == nil {
		self = []any{}
	}
	out["self"], out["refs"], out["parents"], out["all_methods"], out["go"] = self, refs, parents, all, gotypes
	return out
}
