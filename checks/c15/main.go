// C15 — reflection descriptors describe the IDL exactly.
//
// Two levels, same oracle (a structure built from the pointer model and
// compared field by field with a reflection dump of the descriptors):
//
//	in-process  thrift_reflection.RegisterAST on the parsed + resolved AST of
//	            every program of the universe, every file: names, ids,
//	            requiredness, type expressions with key / value types, default
//	            and constant values, enum numbers, every annotation value in
//	            order, comments, base service, oneway, includes, namespaces;
//	            lookups by name across includes land in the defining file;
//	            Marshal -> Unmarshal is the identity;
//	generated   the same programs generated with with_reflection, compiled and
//	            driven: GetFileDescriptorFor<File>() of every package, each Go
//	            struct-like type -> GetDescriptor() -> its own IDL definition,
//	            GetStructDescriptorByGoType / GetGoType map back, and the
//	            descriptor decoded at run time equals the in-process one.
//
// Universe: the interplay program, and variants with annotations carrying
// repeated keys on every node kind, constants of every shape, typedef chains
// across files and the same IDL base name in two directories.
// Not asserted: requiredness of union members and throws (optional by
// definition), the response descriptor of void methods.
package main

import (
	_ "embed"
	"encoding/json"
	"flag"
	"fmt"
	"reflect"
	"sort"
	"strconv"
	"strings"

	"verif/internal/evid"
	"verif/internal/gen"
	"verif/internal/idl"
	"verif/internal/progs"
	"verif/internal/universe"

	"verif/checks/c15/probe"

	"github.com/cloudwego/thriftgo/parser"
	"github.com/cloudwego/thriftgo/semantic"
	"github.com/cloudwego/thriftgo/thrift_reflection"
)

//go:embed probe/probe.go
var probeSrc string

// ---------------------------------------------------------------- generic dump

// jdump turns descriptor structs into maps / lists (pointer-keyed maps become
// sorted lists of pairs), dropping "Extra".
func jdump(v reflect.Value) any {
	switch v.Kind() {
	case reflect.Ptr, reflect.Interface:
		if v.IsNil() {
			return nil
		}
		return jdump(v.Elem())
	case reflect.Struct:
		m := map[string]any{}
		for i := 0; i < v.NumField(); i++ {
			f := v.Type().Field(i)
			if !f.IsExported() || f.Name == "Extra" {
				continue
			}
			m[f.Name] = jdump(v.Field(i))
		}
		return m
	case reflect.Slice:
		if v.IsNil() {
			return []any{}
		}
		l := []any{}
		for i := 0; i < v.Len(); i++ {
			l = append(l, jdump(v.Index(i)))
		}
		return l
	case reflect.Map:
		if v.Type().Key().Kind() == reflect.String {
			m := map[string]any{}
			it := v.MapRange()
			for it.Next() {
				m[it.Key().String()] = jdump(it.Value())
			}
			return m
		}
		var pairs []any
		it := v.MapRange()
		for it.Next() {
			pairs = append(pairs, []any{jdump(it.Key()), jdump(it.Value())})
		}
		sort.Slice(pairs, func(i, j int) bool { return fmt.Sprint(pairs[i]) < fmt.Sprint(pairs[j]) })
		return pairs
	case reflect.String:
		return v.String()
	case reflect.Bool:
		return v.Bool()
	case reflect.Int, reflect.Int8, reflect.Int16, reflect.Int32, reflect.Int64:
		return float64(v.Int())
	case reflect.Float64, reflect.Float32:
		return v.Float()
	}
	return fmt.Sprint(v)
}

// ---------------------------------------------------------------- expectation from the model

type exp struct {
	comments map[any]string // definition -> leading comment
	pathOf   func(f *idl.File) string
}

func annMap(a []idl.Ann) map[string]any {
	m := map[string]any{}
	for _, x := range a {
		for _, v := range x.Values {
			l, _ := m[x.Key].([]any)
			m[x.Key] = append(l, v)
		}
	}
	return m
}

func (e *exp) typ(cur *idl.File, t *idl.Type) any {
	if t == nil {
		return nil
	}
	m := map[string]any{"Name": idl.TypeName(cur, t), "Filepath": e.pathOf(cur), "KeyType": nil, "ValueType": nil}
	switch t.Kind {
	case idl.List, idl.Set:
		m["ValueType"] = e.typ(cur, t.Elem)
	case idl.Map:
		m["KeyType"] = e.typ(cur, t.Key)
		m["ValueType"] = e.typ(cur, t.Elem)
	}
	return m
}

func (e *exp) value(cur *idl.File, v *idl.Value) any {
	if v == nil {
		return nil
	}
	m := map[string]any{}
	switch v.K {
	case idl.VInt:
		m["Type"], m["ValueInt"] = "INT", float64(v.Int)
	case idl.VDouble:
		d := v.Dbl
		if v.Text != "" {
			d, _ = strconv.ParseFloat(v.Text, 64)
		}
		m["Type"], m["ValueDouble"] = "DOUBLE", d
	case idl.VLit:
		m["Type"], m["ValueString"] = "STRING", v.Lit
	case idl.VBoolIdent:
		m["Type"], m["ValueBool"] = "BOOL", v.B
	case idl.VList:
		l := []any{}
		for _, x := range v.List {
			l = append(l, e.value(cur, x))
		}
		m["Type"], m["ValueList"] = "LIST", l
	case idl.VMap:
		var pairs []any
		for _, kv := range v.Map {
			pairs = append(pairs, []any{e.value(cur, kv[0]), e.value(cur, kv[1])})
		}
		m["Type"], m["ValueMap"] = "MAP", pairs
	default:
		m["Type"], m["ValueIdentifier"] = "IDENTIFIER", idl.IdentText(cur, v)
	}
	return m
}

var reqName = map[idl.Req]string{idl.ReqDefault: "Default", idl.ReqRequired: "Required", idl.ReqOptional: "Optional"}

func fieldIDs(fs []*idl.Field) []int32 {
	out := make([]int32, len(fs))
	prev := int32(0)
	for i, f := range fs {
		id := prev + 1
		if f.ExplicitID {
			id = f.ID
		}
		out[i], prev = id, id
	}
	return out
}

func (e *exp) fields(cur *idl.File, fs []*idl.Field, judgeReq bool) any {
	l := []any{}
	ids := fieldIDs(fs)
	for i, f := range fs {
		m := map[string]any{"Name": f.Name, "ID": float64(ids[i]), "Type": e.typ(cur, f.Type), "Annotations": annMap(f.Anns), "Filepath": e.pathOf(cur)}
		if judgeReq {
			m["Requiredness"] = reqName[f.Req]
		}
		if f.Default != nil {
			m["DefaultValue"] = e.value(cur, f.Default)
		} else {
			m["DefaultValue"] = nil
		}
		l = append(l, m)
	}
	return l
}

func (e *exp) file(f *idl.File) map[string]any {
	m := map[string]any{"Filepath": e.pathOf(f)}
	inc := map[string]any{}
	for _, i := range f.Includes {
		inc[i.File.Prefix()] = e.pathOf(i.File)
	}
	m["Includes"] = inc
	var incPaths []any
	for _, i := range f.Includes {
		incPaths = append(incPaths, e.pathOf(i.File))
	}
	m["#include_paths"] = incPaths
	ns := map[string]any{}
	for _, n := range f.Namespaces {
		ns[n.Lang] = n.Name
	}
	m["Namespaces"] = ns
	structs, unions, excs, enums, tds, consts, svcs := []any{}, []any{}, []any{}, []any{}, []any{}, []any{}, []any{}
	for _, d := range f.Defs {
		switch {
		case d.Struct != nil:
			s := d.Struct
			x := map[string]any{"Name": s.Name, "Filepath": e.pathOf(f), "Fields": e.fields(f, s.Fields, s.Cat != "union"), "Annotations": annMap(s.Anns), "Comments": e.comments[s]}
			switch s.Cat {
			case "union":
				unions = append(unions, x)
			case "exception":
				excs = append(excs, x)
			default:
				structs = append(structs, x)
			}
		case d.Enum != nil:
			vals := []any{}
			prev := int64(-1)
			for _, v := range d.Enum.Values {
				n := prev + 1
				if v.Explicit {
					n = v.Value
				}
				prev = n
				vals = append(vals, map[string]any{"Name": v.Name, "Value": float64(n), "Annotations": annMap(v.Anns), "Filepath": e.pathOf(f)})
			}
			enums = append(enums, map[string]any{"Name": d.Enum.Name, "Values": vals, "Annotations": annMap(d.Enum.Anns), "Comments": e.comments[d.Enum], "Filepath": e.pathOf(f)})
		case d.Typedef != nil:
			tds = append(tds, map[string]any{"Alias": d.Typedef.Name, "Type": e.typ(f, d.Typedef.Type), "Annotations": annMap(d.Typedef.Anns), "Filepath": e.pathOf(f)})
		case d.Const != nil:
			consts = append(consts, map[string]any{"Name": d.Const.Name, "Type": e.typ(f, d.Const.Type), "Value": e.value(f, d.Const.Value), "Annotations": annMap(d.Const.Anns), "Filepath": e.pathOf(f)})
		case d.Service != nil:
			s := d.Service
			base := ""
			if s.Extends != nil {
				base = s.Extends.Name
				if s.Extends.File != f {
					base = s.Extends.File.Prefix() + "." + s.Extends.Name
				}
			}
			ms := []any{}
			for _, fn := range s.Functions {
				x := map[string]any{"Name": fn.Name, "IsOneway": fn.Oneway, "Args": e.fields(f, fn.Args, true), "ThrowExceptions": e.fields(f, fn.Throws, false), "Annotations": annMap(fn.Anns), "Filepath": e.pathOf(f)}
				if fn.Ret != nil {
					x["Response"] = e.typ(f, fn.Ret)
				}
				ms = append(ms, x)
			}
			svcs = append(svcs, map[string]any{"Name": s.Name, "Base": base, "Methods": ms, "Annotations": annMap(s.Anns), "Comments": e.comments[s], "Filepath": e.pathOf(f)})
		}
	}
	m["Structs"], m["Unions"], m["Exceptions"], m["Enums"], m["Typedefs"], m["Consts"], m["Services"] = structs, unions, excs, enums, tds, consts, svcs
	return m
}

// lookups expected from the model, in the probe's vocabulary.
func (e *exp) lookups(f *idl.File) map[string]any {
	refs := map[string]any{}
	var walk func(path string, t *idl.Type)
	walk = func(path string, t *idl.Type) {
		if t == nil {
			return
		}
		switch t.Kind {
		case idl.List, idl.Set:
			walk(path+"/v", t.Elem)
		case idl.Map:
			walk(path+"/k", t.Key)
			walk(path+"/v", t.Elem)
		case idl.EnumK:
			refs[path] = "enum " + e.pathOf(t.Enum.File) + "#" + t.Enum.Name
		case idl.StructK:
			refs[path] = t.Struct.Cat + " " + e.pathOf(t.Struct.File) + "#" + t.Struct.Name
		case idl.TypedefK:
			refs[path] = "typedef " + e.pathOf(t.Typedef.File) + "#" + t.Typedef.Name
		}
	}
	parents, all := map[string]any{}, map[string]any{}
	for _, d := range f.Defs {
		switch {
		case d.Struct != nil:
			for _, fl := range d.Struct.Fields {
				walk(d.Struct.Name+"."+fl.Name, fl.Type)
			}
		case d.Typedef != nil:
			walk("typedef:"+d.Typedef.Name, d.Typedef.Type)
		case d.Const != nil:
			walk("const:"+d.Const.Name, d.Const.Type)
		case d.Service != nil:
			s := d.Service
			for _, m := range s.Functions {
				walk(s.Name+"."+m.Name+".ret", m.Ret)
				for _, a := range m.Args {
					walk(s.Name+"."+m.Name+".arg."+a.Name, a.Type)
				}
				for _, a := range m.Throws {
					walk(s.Name+"."+m.Name+".throw."+a.Name, a.Type)
				}
			}
			parents[s.Name] = ""
			if s.Extends != nil {
				parents[s.Name] = e.pathOf(s.Extends.File) + "#" + s.Extends.Name
			}
			names := []any{}
			for x := s; x != nil; x = x.Extends {
				for _, m := range x.Functions {
					names = append(names, m.Name)
				}
			}
			all[s.Name] = names
		}
	}
	return map[string]any{"self": []any{}, "refs": refs, "parents": parents, "all_methods": all}
}

// cmpLookups compares a probe result with the model's expectation.
func cmpLookups(want, got map[string]any) string {
	if p, ok := got["panic"]; ok {
		return fmt.Sprintf("lookup API panicked: %v", p)
	}
	if l, _ := got["self"].([]any); len(l) > 0 {
		return fmt.Sprint(l[0])
	}
	for _, k := range []string{"refs", "parents", "all_methods"} {
		w, _ := want[k].(map[string]any)
		g, _ := got[k].(map[string]any)
		keys := make([]string, 0, len(w))
		for x := range w {
			keys = append(keys, x)
		}
		sort.Strings(keys)
		for _, x := range keys {
			if fmt.Sprint(w[x]) != fmt.Sprint(g[x]) {
				return fmt.Sprintf("%s[%s]: the IDL says %v, the lookup gives %v", k, x, w[x], g[x])
			}
		}
		for x := range g {
			if _, ok := w[x]; !ok {
				return fmt.Sprintf("%s[%s]: unexpected %v", k, x, g[x])
			}
		}
	}
	return ""
}

// roundtrip through JSON so that in-process probe results look like driver results.
func viaJSON(m map[string]any) map[string]any {
	b, _ := json.Marshal(m)
	var out map[string]any
	json.Unmarshal(b, &out)
	return out
}

// cmp: every key of want must be present and equal in got (got may have more).
func cmp(want, got any, path string) string {
	switch w := want.(type) {
	case map[string]any:
		g, ok := got.(map[string]any)
		if !ok {
			return fmt.Sprintf("%s: want a structure, got %v", path, got)
		}
		keys := make([]string, 0, len(w))
		for k := range w {
			keys = append(keys, k)
		}
		sort.Strings(keys)
		for _, k := range keys {
			if k == "#include_paths" {
				have := map[string]bool{}
				gi, _ := g["Includes"].(map[string]any)
				for _, p := range gi {
					have[fmt.Sprint(p)] = true
				}
				l, _ := w[k].([]any)
				for _, p := range l {
					if !have[fmt.Sprint(p)] {
						return fmt.Sprintf("%s.Includes: no entry for the included file %v", path, p)
					}
				}
				continue
			}
			if w[k] == nil {
				if g[k] != nil && k != "Comments" {
					return fmt.Sprintf("%s.%s: want nothing, got %v", path, k, g[k])
				}
				continue
			}
			if d := cmp(w[k], g[k], path+"."+k); d != "" {
				return d
			}
		}
		// string-keyed maps that are *data* (annotations, includes, namespaces) must not have extra keys
		if strings.HasSuffix(path, ".Annotations") || strings.HasSuffix(path, ".Includes") || strings.HasSuffix(path, ".Namespaces") {
			for k := range g {
				if _, ok := w[k]; !ok {
					return fmt.Sprintf("%s: unexpected key %q", path, k)
				}
			}
		}
		return ""
	case []any:
		g, ok := got.([]any)
		if got == nil {
			g, ok = []any{}, true
		}
		if !ok || len(g) != len(w) {
			return fmt.Sprintf("%s: want %d elements, got %v", path, len(w), got)
		}
		if strings.HasSuffix(path, ".ValueMap") {
			// pairs were sorted on the dump side; compare as multisets
			used := make([]bool, len(g))
		outer:
			for _, x := range w {
				for j, y := range g {
					if !used[j] && cmp(x, y, path) == "" {
						used[j] = true
						continue outer
					}
				}
				return fmt.Sprintf("%s: entry %v missing", path, x)
			}
			return ""
		}
		for i := range w {
			if d := cmp(w[i], g[i], fmt.Sprintf("%s[]", path)); d != "" {
				return d
			}
		}
		return ""
	case string:
		if path != "" && strings.HasSuffix(path, ".Comments") {
			gs, _ := got.(string)
			if !strings.Contains(gs, w) {
				return fmt.Sprintf("%s: comment %q not in %q", path, w, gs)
			}
			return ""
		}
		if strings.HasSuffix(path, ".Type") && !strings.Contains(path, "Value") {
			// ConstValueType / requiredness enums are dumped as numbers by reflection: compare by name below
		}
		if got != want {
			return fmt.Sprintf("%s: want %q, got %v", path, w, got)
		}
		return ""
	default:
		if fmt.Sprint(want) != fmt.Sprint(got) {
			return fmt.Sprintf("%s: want %v, got %v", path, want, got)
		}
		return ""
	}
}

// normalise enum-typed fields of the dump (ConstValueType numbers -> names).
func normalise(x any) any {
	switch v := x.(type) {
	case map[string]any:
		if _, isCV := v["ValueIdentifier"]; isCV {
			if n, ok := v["Type"].(float64); ok {
				v["Type"] = []string{"DOUBLE", "INT", "STRING", "BOOL", "LIST", "MAP", "IDENTIFIER"}[int(n)]
			}
			// keep only the member that the type selects
			keep := map[string]string{"INT": "ValueInt", "DOUBLE": "ValueDouble", "STRING": "ValueString", "BOOL": "ValueBool", "LIST": "ValueList", "MAP": "ValueMap", "IDENTIFIER": "ValueIdentifier"}[fmt.Sprint(v["Type"])]
			for _, k := range []string{"ValueInt", "ValueDouble", "ValueString", "ValueBool", "ValueList", "ValueMap", "ValueIdentifier"} {
				if k != keep {
					delete(v, k)
				}
			}
		}
		for k, y := range v {
			v[k] = normalise(y)
		}
		return v
	case []any:
		for i := range v {
			v[i] = normalise(v[i])
		}
		return v
	}
	return x
}

// ---------------------------------------------------------------- programs

type prog struct {
	name     string
	files    []*idl.File
	comments map[any]string
}

func withComments(files []*idl.File) (map[any]string, map[string]string) {
	cm := map[any]string{}
	texts := map[string]string{}
	for _, f := range files {
		t := idl.Render(f)
		for _, d := range f.Defs {
			switch {
			case d.Struct != nil:
				c := "// about " + d.Struct.Name
				cm[d.Struct] = c
				t = strings.Replace(t, "\n"+d.Struct.Cat+" "+d.Struct.Name+" ", "\n"+c+"\n"+d.Struct.Cat+" "+d.Struct.Name+" ", 1)
			case d.Enum != nil:
				c := "// about " + d.Enum.Name
				cm[d.Enum] = c
				t = strings.Replace(t, "\nenum "+d.Enum.Name+" ", "\n"+c+"\nenum "+d.Enum.Name+" ", 1)
			case d.Service != nil:
				c := "// about " + d.Service.Name
				cm[d.Service] = c
				t = strings.Replace(t, "\nservice "+d.Service.Name+" ", "\n"+c+"\nservice "+d.Service.Name+" ", 1)
			}
		}
		texts[f.Path] = t
	}
	return cm, texts
}

func programs() []*prog {
	var out []*prog
	for _, p := range append(progs.Programs(), progs.LookupPrograms()...) {
		out = append(out, &prog{name: p.Name, files: p.Files})
	}
	return out
}

// constants of every shape: the ways of writing a value that thriftgo accepts (probed one by one).
func constProgram(ses *gen.Session, run *evid.Run) *prog {
	pw := universe.Ways(universe.NewConstEnv("c15"))
	pb, err := gen.NewBatch(ses.Scratch+"/probe", ses.Batch.Thriftgo)
	if err != nil {
		run.Fatal("%v", err)
	}
	var probes []*gen.Item
	for i := range pw {
		e := universe.NewConstEnv("c15")
		universe.Attach(e.Main, universe.Ways(e)[i])
		probes = append(probes, pb.Add(&gen.Item{Key: fmt.Sprintf("probe%d", i), Prog: &idl.Program{Files: []*idl.File{e.Main, e.Inc}}, Opts: []string{"with_reflection"}, Recurse: true}))
	}
	pb.Generate()
	e := universe.NewConstEnv("c15")
	n := 0
	for i, w := range universe.Ways(e) {
		if probes[i].Exit == 0 {
			universe.Attach(e.Main, w)
			n++
		}
	}
	run.Set("constant_ways", fmt.Sprintf("%d of %d accepted by thriftgo", n, len(pw)))
	return &prog{name: "constants-of-every-shape", files: []*idl.File{e.Main, e.Inc}}
}

// ---------------------------------------------------------------- driver op (generated level)

const extraDriver = `package main

import (
	"fmt"
	"reflect"
	"sort"
	"strconv"
	"strings"

	"github.com/cloudwego/thriftgo/thrift_reflection"
)

func jdump(v reflect.Value) any {
	switch v.Kind() {
	case reflect.Ptr, reflect.Interface:
		if v.IsNil() {
			return nil
		}
		return jdump(v.Elem())
	case reflect.Struct:
		m := map[string]any{}
		for i := 0; i < v.NumField(); i++ {
			f := v.Type().Field(i)
			if !f.IsExported() || f.Name == "Extra" {
				continue
			}
			m[f.Name] = jdump(v.Field(i))
		}
		return m
	case reflect.Slice:
		l := []any{}
		for i := 0; i < v.Len(); i++ {
			l = append(l, jdump(v.Index(i)))
		}
		return l
	case reflect.Map:
		if v.Type().Key().Kind() == reflect.String {
			m := map[string]any{}
			it := v.MapRange()
			for it.Next() {
				m[it.Key().String()] = jdump(it.Value())
			}
			return m
		}
		var pairs []any
		it := v.MapRange()
		for it.Next() {
			pairs = append(pairs, []any{jdump(it.Key()), jdump(it.Value())})
		}
		sort.Slice(pairs, func(i, j int) bool { return fmt.Sprint(pairs[i]) < fmt.Sprint(pairs[j]) })
		return pairs
	case reflect.String:
		return v.String()
	case reflect.Bool:
		return v.Bool()
	case reflect.Int, reflect.Int8, reflect.Int16, reflect.Int32, reflect.Int64:
		return float64(v.Int())
	case reflect.Float64, reflect.Float32:
		return v.Float()
	}
	return fmt.Sprint(v)
}

func extraOp(q *Req, r *Resp) bool {
	if q.Op != "reflect" {
		return false
	}
	o, err := newObj(q.Type)
	if err != nil {
		r.Err = "harness: " + err.Error()
		return true
	}
	rv := reflect.ValueOf(o)
	out := map[string]any{}
	m := rv.MethodByName("GetDescriptor")
	if !m.IsValid() {
		r.Err = "no GetDescriptor method"
		return true
	}
	sd, _ := m.Call(nil)[0].Interface().(*thrift_reflection.StructDescriptor)
	out["descriptor"] = jdump(reflect.ValueOf(sd))
	if sd != nil {
		if gt := sd.GetGoType(); gt != nil {
			out["go_type_back"] = gt.String()
		}
		out["go_type"] = rv.Type().String()
		by := thrift_reflection.GetStructDescriptorByGoType(o)
		out["by_go_type_same"] = by == sd
		if fd := thrift_reflection.LookupFD(sd.Filepath); fd != nil {
			out["file"] = jdump(reflect.ValueOf(fd))
			out["probe"] = Probe(fd)
			b, err := fd.Marshal()
			if err == nil {
				back, err2 := thrift_reflection.Unmarshal(b)
				if err2 == nil {
					out["file_after_marshal"] = jdump(reflect.ValueOf(back))
				} else {
					out["marshal_err"] = err2.Error()
				}
			} else {
				out["marshal_err"] = err.Error()
			}
		}
		// observation only: FieldDescriptor.GetGoType against the Go struct field carrying the id
		var obs []any
		rt := rv.Type().Elem()
		for _, f := range sd.Fields {
			var gt reflect.Type
			var err error
			func() {
				defer func() {
					if r := recover(); r != nil {
						obs = append(obs, fmt.Sprintf("%s.%s: FieldDescriptor.GetGoType panics: %v", sd.Name, f.Name, r))
						err = fmt.Errorf("panic")
					}
				}()
				gt, err = f.GetGoType()
			}()
			if err != nil || gt == nil {
				continue
			}
			for i := 0; i < rt.NumField(); i++ {
				parts := strings.Split(rt.Field(i).Tag.Get("thrift"), ",")
				if len(parts) >= 2 && parts[1] == strconv.Itoa(int(f.ID)) {
					at := rt.Field(i).Type
					if at.Kind() == reflect.Ptr {
						at = at.Elem()
					}
					if gt.Kind() == reflect.Ptr {
						gt = gt.Elem()
					}
					if at != gt {
						obs = append(obs, fmt.Sprintf("%s.%s: Go field is %v, FieldDescriptor.GetGoType says %v", sd.Name, f.Name, at, gt))
					}
				}
			}
		}
		out["field_go_obs"] = obs
	}
	r.Extra = out
	return true
}
`

func main() {
	flag.String("replay", "", "unused")
	run := evid.New("C15", "exploration")
	thorough := run.Thorough()
	ses := gen.NewSession(run, "c15")
	defer ses.Close()
	ses.Batch.ExtraDriver = map[string]string{"extra_reflect.go": extraDriver, "reflprobe.go": strings.Replace(probeSrc, "package probe", "package main", 1)}
	outcomes := map[string]int64{}
	progs := append(programs(), constProgram(ses, run))
	{
		// every type shape of the universe as a field type (all three requiredness values), defaults, wide ids, recursion
		env := universe.NewEnv("c15t")
		types := env.Types1(thorough)
		if thorough {
			types = append(types, env.Types2()...)
		}
		env.StandardRoots(types)
		progs = append(progs, &prog{name: "type-shapes", files: env.Program().Files})
	}
	type genProg struct {
		p    *prog
		it   *gen.Item
		exp  *exp
		file map[string]*idl.File
	}
	var gps []*genProg

	for _, p := range progs {
		cm, texts := withComments(p.files)
		p.comments = cm
		// ---- in-process level
		ast, err := parser.ParseBatchString(p.files[0].Path, texts, nil)
		if err != nil {
			run.Fatal("%s does not parse: %v", p.name, err)
		}
		if _, err := semantic.NewChecker(semantic.Options{}).CheckAll(ast); err != nil {
			run.Fatal("%s: %v", p.name, err)
		}
		if err := semantic.ResolveSymbols(ast); err != nil {
			run.Fatal("%s: %v", p.name, err)
		}
		gd, _ := thrift_reflection.RegisterAST(ast)
		e := &exp{comments: cm, pathOf: func(f *idl.File) string { return f.Path }}
		for _, f := range p.files {
			fd := gd.LookupFD(f.Path)
			run.Eval("inproc|"+p.name+"|"+f.Path, len(f.Defs) > 0)
			rp := map[string]any{"program": p.name, "file": f.Path, "idl": texts[f.Path]}
			if fd == nil {
				run.Violate(evid.Violation{Class: "file-descriptor-missing:" + p.name, What: "no descriptor registered for " + f.Path, Replay: rp})
				continue
			}
			got := normalise(jdump(reflect.ValueOf(fd)))
			if d := cmp(e.file(f), got, "fd"); d != "" {
				run.Violate(evid.Violation{Class: "descriptor-differs:" + p.name + ":" + shape(d), What: fmt.Sprintf("%s/%s: %s", p.name, f.Path, d), Replay: rp})
				continue
			}
			// marshal identity
			b, err := fd.Marshal()
			if err != nil {
				run.Violate(evid.Violation{Class: "marshal-error", What: err.Error(), Replay: rp})
				continue
			}
			back, err := thrift_reflection.Unmarshal(b)
			if err != nil {
				run.Violate(evid.Violation{Class: "unmarshal-error", What: err.Error(), Replay: rp})
				continue
			}
			if d := cmp(got, normalise(jdump(reflect.ValueOf(back))), "fd"); d != "" {
				run.Violate(evid.Violation{Class: "marshal-not-identity:" + shape(d), What: fmt.Sprintf("%s/%s: after Marshal+Unmarshal: %s", p.name, f.Path, d), Replay: rp})
				continue
			}
			// lookups by name and id, across includes
			run.Eval("lookup|"+p.name+"|"+f.Path, len(f.Defs) > 0)
			bad := false
			if d := cmpLookups(e.lookups(f), viaJSON(probe.Probe(fd))); d != "" {
				run.Violate(evid.Violation{Class: "lookup:" + p.name + ":" + f.Path + ":" + lookKey(d), What: fmt.Sprintf("%s/%s: %s", p.name, f.Path, d), Replay: rp})
				bad = true
			}
			if !bad {
				outcomes["inproc-file-ok"]++
			}
		}
		thrift_reflection.ReleaseGlobalDescriptors(gd)
		// ---- generated level
		it := ses.Batch.Add(&gen.Item{Key: "r" + fmt.Sprint(len(gps)), Prog: &idl.Program{Files: p.files}, Texts: texts, Opts: []string{"with_reflection"}, Recurse: true})
		fm := map[string]*idl.File{}
		for _, f := range p.files {
			fm[f.Path] = f
		}
		gps = append(gps, &genProg{p: p, it: it, file: fm})
	}
	ses.Start()
	fieldObs := map[string]bool{}
	for _, gp := range gps {
		if !gen.Usable(gp.it) {
			continue
		}
		// the generated descriptor records the path thriftgo was given: map model files by suffix
		e := &exp{comments: gp.p.comments}
		var reqs []*gen.Req
		var sts []*idl.Struct
		for _, f := range gp.p.files {
			for _, d := range f.Defs {
				if d.Struct != nil {
					if _, ok := gp.it.Types[d.Struct.Name]; ok {
						reqs = append(reqs, &gen.Req{Type: gen.RegKey(gp.it, d.Struct.Name), Op: "reflect"})
						sts = append(sts, d.Struct)
					}
				}
			}
		}
		resps := ses.Do(reqs)
		for i, rs := range resps {
			s := sts[i]
			run.Eval("gen|"+gp.p.name+"|"+s.Name, true)
			rp := map[string]any{"program": gp.p.name, "struct": s.Name, "file": s.File.Path}
			if rs.Panic != "" || rs.Err != "" {
				if strings.HasPrefix(rs.Err, "harness:") {
					run.Fatal("driver: %s", rs.Err)
				}
				run.Violate(evid.Violation{Class: "reflect-failed:" + gp.p.name, What: fmt.Sprintf("%s: %s %s", s.Name, rs.Err, rs.Panic), Replay: rp})
				continue
			}
			ex := rs.Extra
			desc, _ := ex["descriptor"].(map[string]any)
			if desc == nil || desc["Name"] != s.Name {
				run.Violate(evid.Violation{Class: "go-type-to-descriptor", What: fmt.Sprintf("Go type generated for %s returns descriptor %v", s.Name, desc["Name"]), Replay: rp})
				continue
			}
			fp, _ := desc["Filepath"].(string)
			if !strings.HasSuffix(fp, s.File.Path) {
				run.Violate(evid.Violation{Class: "descriptor-filepath", What: fmt.Sprintf("descriptor of %s says file %q, defined in %s", s.Name, fp, s.File.Path), Replay: rp})
				continue
			}
			if ex["by_go_type_same"] != true {
				run.Violate(evid.Violation{Class: "by-go-type-lookup", What: fmt.Sprintf("GetStructDescriptorByGoType(%s) is not the type's own descriptor", s.Name), Replay: rp})
				continue
			}
			if gt, ok := ex["go_type_back"].(string); !ok || gt != strings.TrimPrefix(fmt.Sprint(ex["go_type"]), "*") {
				run.Violate(evid.Violation{Class: "descriptor-to-go-type", What: fmt.Sprintf("descriptor of %s maps back to Go type %v (%v), the object is %v", s.Name, ex["go_type_back"], ex["go_type_back_err"], ex["go_type"]), Replay: rp})
				continue
			}
			prefix := strings.TrimSuffix(fp, s.File.Path)
			e.pathOf = func(f *idl.File) string { return prefix + f.Path }
			file, _ := ex["file"].(map[string]any)
			if d := cmp(e.file(s.File), normalise(file), "fd"); d != "" {
				run.Violate(evid.Violation{Class: "generated-descriptor-differs:" + gp.p.name + ":" + shape(d), What: fmt.Sprintf("%s/%s (decoded at run time): %s", gp.p.name, s.File.Path, d), Replay: rp})
				continue
			}
			after, _ := ex["file_after_marshal"].(map[string]any)
			if after == nil {
				run.Violate(evid.Violation{Class: "marshal-error", What: fmt.Sprint(ex["marshal_err"]), Replay: rp})
				continue
			}
			if d := cmp(normalise(file), normalise(after), "fd"); d != "" {
				run.Violate(evid.Violation{Class: "marshal-not-identity:" + shape(d), What: d, Replay: rp})
				continue
			}
			okLook := true
			pr, _ := ex["probe"].(map[string]any)
			if d := cmpLookups(e.lookups(s.File), pr); d != "" {
				run.Violate(evid.Violation{Class: "lookup:" + gp.p.name + ":" + s.File.Path + ":" + lookKey(d), What: fmt.Sprintf("%s/%s (generated package): %s", gp.p.name, s.File.Path, d), Replay: rp})
				okLook = false
			}
			// every struct-like and enum of the file has a Go type registered, and the Go type leads back
			gomap, _ := pr["go"].(map[string]any)
			for _, d := range s.File.Defs {
				var key, name string
				switch {
				case d.Struct != nil:
					key, name = map[string]string{"struct": "Struct:", "union": "Union:", "exception": "Exception:"}[d.Struct.Cat]+d.Struct.Name, d.Struct.Name
				case d.Enum != nil:
					key, name = "Enum:"+d.Enum.Name, d.Enum.Name
				default:
					continue
				}
				g, _ := gomap[key].(map[string]any)
				goName := name
				if gn, ok := gp.it.Types[name]; ok {
					goName = gn.Name
				} else if strings.Contains(name, "_") {
					goName = ""
				}
				if g == nil || g["back"] != true || !strings.HasSuffix(fmt.Sprint(g["type"]), "."+goName) {
					run.Violate(evid.Violation{Class: "go-type-registry:" + gp.p.name, What: fmt.Sprintf("%s %s: Go type registered %v", key, s.File.Path, g), Replay: rp})
					okLook = false
					break
				}
			}
			if l, _ := ex["field_go_obs"].([]any); len(l) > 0 {
				for _, x := range l {
					fieldObs[fmt.Sprint(x)] = true
				}
			}
			if okLook {
				outcomes["generated-type-ok"]++
			}
		}
	}
	var fo []string
	for k := range fieldObs {
		fo = append(fo, k)
	}
	sort.Strings(fo)
	if len(fo) > 12 {
		fo = append(fo[:12], fmt.Sprintf("... %d more", len(fo)-12))
	}
	run.Set("observations_field_go_type_not_judged", fo)
	run.Set("programs", len(progs))
	run.Set("outcome_classes", outcomes)
	b, _ := json.Marshal((&exp{comments: progs[1].comments, pathOf: func(f *idl.File) string { return f.Path }}).file(progs[1].files[1]))
	run.Sample(map[string]any{"expected_descriptor_of_x/common.thrift": json.RawMessage(b)})
	run.Set("rule", "one evaluation = one descriptor comparison (a file descriptor in-process, a lookup, or a generated Go type with its file descriptor decoded at run time); non-trivial iff the descriptor has at least one child")
	run.Assume("requiredness of union members and throws and the response descriptor of void methods are not compared")
	run.Finish()
}

// lookKey: the first thing a lookup comparison names ("refs[Both.a]", or the failing call).
func lookKey(d string) string {
	if i := strings.Index(d, "]: "); i > 0 {
		return d[:i+1]
	}
	return d
}

func shape(d string) string {
	if i := strings.Index(d, ":"); i > 0 {
		p := d[:i]
		p = strings.ReplaceAll(p, "[]", "")
		return p
	}
	return d
}
