// C10 — fastgo codec agrees with the standard codec and BLength is exact.
//
// Generate-compile-run with `-g fastgo`: the kernel roots (typedef'd
// containers and structs, enums inside containers, optional fields with
// defaults of every base type, struct map keys, nested containers,
// cross-include types, 9 required fields) x every value of the small domain:
//
//	FastAppend / FastWrite bytes are well-formed, decode (reference codec and
//	standard Read) to the value; BLength == number of bytes written;
//	FastRead of the standard Write's bytes and of the reference encoding ==
//	standard Read (value, required-field errors, tolerance of unknown and
//	mistyped fields); EVERY strict prefix of the reference encoding => FastRead
//	returns an error; EVERY single type byte x every other byte value 0..17 =>
//	FastRead returns (error or value), never panics or kills the process.
//
// The driver runs under `ulimit -v`, so an allocation bomb is a detected crash.
// Not asserted: byte equality of Fast and standard encodings.
package main

import (
	"encoding/hex"
	"flag"
	"fmt"
	"regexp"
	"strings"

	"verif/internal/evid"
	"verif/internal/gen"
	"verif/internal/idl"
	"verif/internal/refsem"
	"verif/internal/universe"
)

type vec struct {
	r   *universe.Root
	v   *refsem.Val
	ref []byte
}

func main() {
	flag.String("replay", "", "unused")
	run := evid.New("C10", "exploration")
	thorough := run.Thorough()
	ses := gen.NewSession(run, "c10")
	defer ses.Close()
	ses.LimitMemory(6 * 1024 * 1024)

	env := universe.NewEnv("c10")
	types := env.Types1(thorough)
	if thorough {
		types = append(types, env.Types2()...)
	} else {
		types = append(types, env.Types2()[:8]...)
		types = append(types, env.Types2()[len(env.Types2())-1])
	}
	env.NoDefaultRoots = true
	roots := env.StandardRoots(types)
	prog := env.Program()
	// roots with declared defaults live in a program of their own: if its code does not compile
	// (C01's subject) the other roots are still decided
	envD := universe.NewEnv("c10d")
	envD.OnlyDefaultRoots = true
	rootsD := envD.StandardRoots(nil)
	progD := envD.Program()
	configs := [][]string{nil}
	if thorough {
		configs = append(configs, []string{"keep_unknown_fields"}, []string{"value_type_in_container"}, []string{"enum_as_int_32"}, []string{"naming_style=golint"})
	}
	var items []*gen.Item
	rootsOf := map[*gen.Item][]*universe.Root{}
	for i, c := range configs {
		it := ses.Batch.Add(&gen.Item{Key: fmt.Sprintf("f%d", i), Prog: prog, Backend: "fastgo", Opts: c, Recurse: true})
		items = append(items, it)
		rootsOf[it] = roots
		itd := ses.Batch.Add(&gen.Item{Key: fmt.Sprintf("d%d", i), Prog: progD, Backend: "fastgo", Opts: c, Recurse: true})
		items = append(items, itd)
		rootsOf[itd] = rootsD
	}
	ses.Start("f0")

	vecsOf := map[*gen.Item][]*vec{}
	mk := func(it *gen.Item, rs []*universe.Root) []*vec {
		var out []*vec
		if !gen.Usable(it) {
			return nil
		}
		for _, r := range rs {
			if _, ok := it.Types[r.Name]; !ok {
				run.Violate(evid.Violation{Class: "generated-type-missing", What: "no generated type for " + r.Name, Replay: map[string]any{"struct": r.Name}})
				continue
			}
			for _, v := range refsem.StructDomain(r.S, 2, true) {
				out = append(out, &vec{r: r, v: v, ref: refsem.EncodeStruct(nil, r.S.Fields, refsem.Complete(r.S, v))})
			}
		}
		return out
	}
	nvec := 0
	for _, it := range items {
		vecsOf[it] = mk(it, rootsOf[it])
		if strings.HasSuffix(it.Key, "0") {
			nvec += len(vecsOf[it])
		}
	}
	vecs := vecsOf[items[0]]
	run.Set("roots", len(roots)+len(rootsD))
	run.Set("value_vectors", nvec)
	outcomes := map[string]int64{}
	viol := func(class, what string, v *vec, extra map[string]any) {
		rp := map[string]any{"struct": v.r.Name, "value": v.v, "reference_encoding": hex.EncodeToString(v.ref)}
		for k, x := range extra {
			rp[k] = x
		}
		run.Violate(evid.Violation{Class: class, What: what, Replay: rp})
	}
	crashed := func(rs *gen.Resp, op string, v *vec, extra map[string]any) bool {
		if rs.Panic != "" {
			kind := "panic"
			if strings.HasPrefix(rs.Panic, "driver process died") {
				kind = "process-died"
			}
			cls := kind + ":" + op + ":" + v.r.Shape()
			if kind == "panic" && strings.Contains(op, "type-corrupted") {
				// hostile inputs: the shape is incidental, the panic message names the fault
				cls = kind + ":" + op + ":" + negIndexRe.ReplaceAllString(firstLine(rs.Panic), "[-N]")
			}
			viol(cls, fmt.Sprintf("%s of %s: %s", op, v.r.Name, firstLine(rs.Panic)), v, extra)
			return true
		}
		if strings.HasPrefix(rs.Err, "harness:") {
			run.Fatal("driver: %s (%s %s)", rs.Err, op, v.r.Name)
		}
		return false
	}

	for _, it := range items {
		if !gen.Usable(it) {
			continue
		}
		vecs := vecsOf[it]
		// ---- write side: fastwrite, fastappend, standard write
		var reqs []*gen.Req
		for _, v := range vecs {
			k := gen.RegKey(it, v.r.Name)
			reqs = append(reqs, &gen.Req{Type: k, Op: "fastwrite", Val: v.v}, &gen.Req{Type: k, Op: "fastappend", Val: v.v}, &gen.Req{Type: k, Op: "write", Val: v.v})
		}
		resps := ses.Do(reqs)
		stdBytes := make([][]byte, len(vecs))
		for i, v := range vecs {
			fw, fa, sw := resps[3*i], resps[3*i+1], resps[3*i+2]
			run.Eval(fmt.Sprintf("w|%s|%s|%s", it.Key, v.r.Name, v.v.Key(false)), len(v.ref) > 1)
			if crashed(fw, "FastWrite", v, nil) || crashed(fa, "FastAppend", v, nil) || crashed(sw, "Write", v, nil) {
				continue
			}
			unionBad := v.r.S.Cat == "union" && len(v.v.O) != 1
			if fw.Err != "" || fa.Err != "" {
				if !unionBad {
					viol("fastwrite-error:"+v.r.Shape(), fmt.Sprintf("FastWrite/FastAppend of %s value %v failed: %s %s", v.r.Name, v.v, fw.Err, fa.Err), v, nil)
				}
				continue
			}
			want := refsem.Complete(v.r.S, v.v)
			for _, x := range []struct {
				n  string
				rs *gen.Resp
			}{{"FastWrite", fw}, {"FastAppend", fa}} {
				b, _ := hex.DecodeString(x.rs.Bytes)
				if x.rs.Int == nil || int(*x.rs.Int) != len(b) {
					viol("blength-mismatch:"+v.r.Shape(), fmt.Sprintf("%s: BLength=%v but %s wrote %d bytes", v.r.Name, ptr(x.rs.Int), x.n, len(b)), v, map[string]any{"written": x.rs.Bytes})
					continue
				}
				if err := refsem.WellFormed(b); err != nil {
					viol("fast-malformed:"+v.r.Shape(), fmt.Sprintf("%s: %s output is not a well-formed encoding: %v (%x)", v.r.Name, x.n, err, b), v, map[string]any{"written": x.rs.Bytes})
					continue
				}
				dec, unk, err := refsem.DecodeStruct(v.r.S.Fields, b)
				if err != nil || len(unk) > 0 {
					viol("fast-undecodable:"+v.r.Shape(), fmt.Sprintf("%s: %s output does not decode under the schema: %v unknown=%d (%x)", v.r.Name, x.n, err, len(unk), b), v, map[string]any{"written": x.rs.Bytes})
					continue
				}
				if d := refsem.SameStruct(v.r.S, want, dec); d != "" {
					viol("fast-wrong-value:"+v.r.Shape(), fmt.Sprintf("%s: %s output decodes to a different value: %s (want/got)", v.r.Name, x.n, d), v, map[string]any{"written": x.rs.Bytes})
					continue
				}
				outcomes["fast-write-ok"]++
			}
			if sw.Err == "" {
				stdBytes[i], _ = hex.DecodeString(sw.Bytes)
			}
		}
		// ---- read side: FastRead vs standard Read on the std encoding, the fast encoding (= reference) and perturbations
		type rd struct {
			v     *vec
			bytes []byte
			kind  string
		}
		var rds []rd
		deletedFor := map[string]bool{}
		for i, v := range vecs {
			rds = append(rds, rd{v, v.ref, "reference"})
			if stdBytes[i] != nil && string(stdBytes[i]) != string(v.ref) {
				rds = append(rds, rd{v, stdBytes[i], "std-write"})
			}
			if v.r.Kernel != nil && v.v.Get(1) != nil && (thorough || i%2 == 0) {
				for _, p := range perturbations(v.ref) {
					rds = append(rds, rd{v, p.b, p.kind})
				}
			}
			// hand-written roots (many required fields, wide ids, ...): every single field deleted in turn
			if v.r.Kernel == nil && !deletedFor[v.r.Name] {
				deletedFor[v.r.Name] = true
				for _, p := range deletions(v.ref) {
					rds = append(rds, rd{v, p.b, p.kind})
				}
			}
		}
		reqs = reqs[:0]
		for _, x := range rds {
			k := gen.RegKey(it, x.v.r.Name)
			h := hex.EncodeToString(x.bytes)
			reqs = append(reqs, &gen.Req{Type: k, Op: "fastread", Bytes: h}, &gen.Req{Type: k, Op: "read", Bytes: h})
		}
		resps = ses.Do(reqs)
		for i, x := range rds {
			fr, sr := resps[2*i], resps[2*i+1]
			run.Eval(fmt.Sprintf("r|%s|%s|%s|%x", it.Key, x.v.r.Name, x.kind, x.bytes), true)
			extra := map[string]any{"input_kind": x.kind, "input": hex.EncodeToString(x.bytes)}
			if crashed(fr, "FastRead", x.v, extra) || crashed(sr, "Read", x.v, extra) {
				continue
			}
			if (fr.Err != "") != (sr.Err != "") {
				viol("fastread-error-disagrees:"+strings.SplitN(x.kind, ":", 2)[0]+":"+x.v.r.Shape(), fmt.Sprintf("%s (%s): FastRead error=%q, standard Read error=%q", x.v.r.Name, x.kind, fr.Err, sr.Err), x.v, extra)
				continue
			}
			if fr.Err != "" {
				outcomes["both-reject"]++
				continue
			}
			if d := refsem.SameStruct(x.v.r.S, sr.Val, fr.Val); d != "" {
				viol("fastread-differs:"+strings.SplitN(x.kind, ":", 2)[0]+":"+x.v.r.Shape(), fmt.Sprintf("%s (%s): FastRead and standard Read disagree: %s (std/fast)", x.v.r.Name, x.kind, d), x.v, extra)
				continue
			}
			if fr.Int != nil && int(*fr.Int) != len(x.bytes) {
				viol("fastread-length:"+x.v.r.Shape(), fmt.Sprintf("%s (%s): FastRead consumed %d of %d bytes", x.v.r.Name, x.kind, *fr.Int, len(x.bytes)), x.v, extra)
				continue
			}
			outcomes["fast-read-ok"]++
		}
		// ---- truncation and type-byte corruption (first item only in quick)
		type hostile struct {
			v     *vec
			bytes []byte
			kind  string
		}
		var hs []hostile
		seenRoot := map[string]int{}
		for _, v := range vecs {
			seenRoot[v.r.Name]++
			if !thorough && seenRoot[v.r.Name] > 2 {
				continue
			}
			for n := 0; n < len(v.ref); n++ {
				hs = append(hs, hostile{v, v.ref[:n], "truncated"})
			}
			for _, off := range refsem.TypeByteOffsets(v.ref) {
				for b := 0; b <= 17; b++ {
					if byte(b) == v.ref[off] {
						continue
					}
					c := append([]byte{}, v.ref...)
					c[off] = byte(b)
					hs = append(hs, hostile{v, c, "type-corrupted"})
				}
			}
		}
		// inputs that declare a container or string of more than 4 Mi elements make a reader
		// allocate gigabytes before it finds the end of the input: how much memory that takes is
		// not what the property is about (and the driver runs under a memory limit), so they are
		// left out and counted
		{
			kept := hs[:0]
			for _, h := range hs {
				if declaredMax(h.bytes) > 4<<20 {
					outcomes["skipped-declares-huge-length"]++
					continue
				}
				kept = append(kept, h)
			}
			hs = kept
		}
		reqs = reqs[:0]
		for _, h := range hs {
			reqs = append(reqs, &gen.Req{Type: gen.RegKey(it, h.v.r.Name), Op: "fastread", Bytes: hex.EncodeToString(h.bytes)})
		}
		resps = ses.Do(reqs)
		for i, h := range hs {
			rs := resps[i]
			run.Eval(fmt.Sprintf("h|%s|%s|%s|%x", it.Key, h.v.r.Name, h.kind, h.bytes), true)
			extra := map[string]any{"input_kind": h.kind, "input": hex.EncodeToString(h.bytes)}
			if crashed(rs, "FastRead("+h.kind+")", h.v, extra) {
				continue
			}
			if h.kind == "truncated" && rs.Err == "" {
				viol("truncated-accepted:"+h.v.r.Shape(), fmt.Sprintf("%s: FastRead returned no error for a %d-byte prefix of a %d-byte encoding", h.v.r.Name, len(h.bytes), len(h.v.ref)), h.v, extra)
				continue
			}
			outcomes[h.kind+"-handled"]++
		}
		run.Add("hostile_inputs", int64(len(hs)))
	}
	run.Set("outcome_classes", outcomes)
	if len(vecs) > 0 {
		v := vecs[len(vecs)/3]
		run.Sample(map[string]any{"struct": v.r.Name, "value": v.v.String(), "reference_encoding": hex.EncodeToString(v.ref)})
	}
	run.Set("rule", "one evaluation = one (struct, value, operation / input) executed on the fastgo generated code; non-trivial iff the encoding has >= 1 field (all hostile inputs are non-trivial)")
	run.Assume("the driver runs under ulimit -v 6 GiB: a process death (out of memory, stack overflow) is reported as a crash")
	run.Finish()
}

// declaredMax walks b as a binary-protocol struct by wire types (the way a reader skips) and
// returns the largest string length / container count it meets.
func declaredMax(b []byte) int64 {
	var mx int64
	pos := 0
	u32 := func() (int64, bool) {
		if pos+4 > len(b) {
			return 0, false
		}
		n := int64(int32(uint32(b[pos])<<24 | uint32(b[pos+1])<<16 | uint32(b[pos+2])<<8 | uint32(b[pos+3])))
		pos += 4
		if n > mx {
			mx = n
		}
		return n, true
	}
	var val func(t byte, d int) bool
	val = func(t byte, d int) bool {
		if d > 64 || pos > len(b) {
			return false
		}
		switch t {
		case refsem.TBool, 3:
			pos++
		case refsem.TDouble, refsem.TI64:
			pos += 8
		case 6:
			pos += 2
		case refsem.TI32:
			pos += 4
		case refsem.TString:
			n, ok := u32()
			if !ok || n < 0 || pos+int(n) > len(b) {
				return false
			}
			pos += int(n)
		case refsem.TStruct:
			for {
				if pos >= len(b) {
					return false
				}
				ft := b[pos]
				pos++
				if ft == 0 {
					return true
				}
				pos += 2
				if !val(ft, d+1) {
					return false
				}
			}
		case 13:
			if pos+2 > len(b) {
				return false
			}
			kt, vt := b[pos], b[pos+1]
			pos += 2
			n, ok := u32()
			if !ok || n < 0 {
				return false
			}
			for i := int64(0); i < n && i < 1<<12; i++ {
				if !val(kt, d+1) || !val(vt, d+1) {
					return false
				}
			}
		case 14, refsem.TList:
			if pos+1 > len(b) {
				return false
			}
			et := b[pos]
			pos++
			n, ok := u32()
			if !ok || n < 0 {
				return false
			}
			for i := int64(0); i < n && i < 1<<12; i++ {
				if !val(et, d+1) {
					return false
				}
			}
		default:
			return false
		}
		return pos <= len(b)
	}
	val(refsem.TStruct, 0)
	return mx
}

// a negative index is the (int8) type byte itself: one class for all of them
var negIndexRe = regexp.MustCompile(`\[-\d+\]`)

type pert struct {
	b    []byte
	kind string
}

// perturbations: unknown field (3 wire types) before / after, field 1 retagged, field 1 deleted.
func perturbations(ref []byte) []pert {
	var out []pert
	unk := [][]byte{{refsem.TI32, 0, 77, 0, 0, 0, 9}, {refsem.TString, 0, 77, 0, 0, 0, 2, 'h', 'i'}, {refsem.TList, 0, 77, refsem.TStruct, 0, 0, 0, 1, refsem.TBool, 0, 1, 1, 0}}
	for _, u := range unk {
		out = append(out, pert{append(append([]byte{}, u...), ref...), "unknown-field:first"})
		out = append(out, pert{append(append(append([]byte{}, ref[:len(ref)-1]...), u...), 0), "unknown-field:last"})
	}
	// field 1 is first in the reference encoding when present
	if len(ref) > 3 && ref[1] == 0 && ref[2] == 1 {
		n := fieldLen(ref)
		if n > 0 {
			for _, w := range []struct {
				t    byte
				body []byte
			}{{refsem.TI64, []byte{0, 0, 0, 0, 0, 0, 0, 9}}, {refsem.TString, []byte{0, 0, 0, 1, 'z'}}, {refsem.TBool, []byte{1}}, {refsem.TStruct, []byte{0}}} {
				if w.t == ref[0] {
					continue
				}
				c := append([]byte{w.t, 0, 1}, w.body...)
				out = append(out, pert{append(c, ref[n:]...), "retag"})
			}
			out = append(out, pert{append([]byte{}, ref[n:]...), "delete-field"})
		}
	}
	return out
}

// deletions: the encoding with each of its top-level fields removed in turn.
func deletions(ref []byte) []pert {
	var out []pert
	pos := 0
	k := 0
	for pos < len(ref)-1 {
		n := fieldLen(ref[pos:])
		if n <= 0 {
			break
		}
		c := append(append([]byte{}, ref[:pos]...), ref[pos+n:]...)
		out = append(out, pert{c, fmt.Sprintf("delete-field:%d", k)})
		pos += n
		k++
	}
	return out
}

// fieldLen: length of the first field of a struct encoding.
func fieldLen(b []byte) int {
	for n := 4; n <= len(b); n++ {
		if refsem.WellFormed(append(append([]byte{}, b[:n]...), 0)) == nil {
			return n
		}
	}
	return -1
}

func ptr(p *int64) any {
	if p == nil {
		return nil
	}
	return *p
}

func firstLine(s string) string {
	if i := strings.IndexByte(s, '\n'); i >= 0 {
		return s[:i]
	}
	return s
}

var _ = idl.Bool
