// C01 — every accepted IDL yields Go code that compiles.
//
// Bounded-exhaustive generate-and-type-check: programs (type kernels, a
// name-stress family placing every identifier of a branch-point alphabet at
// every name position, colliding name pairs, structure programs) x
// configurations (default, every documented option alone, -r on/off, go and
// fastgo, naming styles, templates). Oracle: thriftgo exit 0 => every written
// .go file parses and all generated packages of the item compile together
// (`go build` + `go vet` of the item's packages inside a scratch module that
// requires the pinned runtime libraries).
//
// Not asserted: that thriftgo accepts a program (exit != 0 with a diagnostic
// is C04's subject; such pairs are counted as "rejected").
package main

import (
	"flag"
	"fmt"
	"go/parser"
	"go/token"
	"os"
	"path/filepath"
	"regexp"
	"sort"
	"strings"
	"time"

	"verif/internal/docs"
	"verif/internal/evid"
	"verif/internal/gen"
	"verif/internal/idl"
	"verif/internal/universe"
)

type itemInfo struct {
	it      *gen.Item
	family  string // program family
	variant string // what distinguishes the program inside the family (class of the violation)
	cfg     string
}

func fld(id int32, name string, t *idl.Type) *idl.Field {
	return &idl.Field{ID: id, ExplicitID: true, Name: name, Type: t}
}

// documentedOptions: the boolean option names of the README table (working tree).
func documentedOptions(run *evid.Run) []string {
	b, err := os.ReadFile("/repo/README.md")
	if err != nil {
		run.Fatal("%v", err)
	}
	s := string(b)
	i := strings.Index(s, "### Go backend options")
	if i < 0 {
		run.Fatal("README: no option table")
	}
	s = s[i:]
	if j := strings.Index(s, "\n## "); j >= 0 {
		s = s[:j]
	}
	re := regexp.MustCompile("(?m)^\\| `([a-z0-9_]+)` \\|")
	var out []string
	for _, m := range re.FindAllStringSubmatch(s, -1) {
		out = append(out, m[1])
	}
	return out
}

func kernelProgram(full, compact bool) *idl.Program {
	env := universe.NewEnv("c01")
	var types []universe.Named
	switch {
	case full:
		types = append(env.Types1(true), env.Types2()...)
	case compact:
		types = env.Leaves()
		for _, n := range env.Types1(false) {
			switch n.Name {
			case "list_struct", "list_tdstruct", "list_incstruct", "set_enum", "set_string", "map_string_struct", "map_i32_tdcont", "map_enum_inctd", "map_struct_i32", "map_binary_string", "list_union", "map_string_tdenum", "map_tdbinary_i32", "map_tdenum_string", "map_tdstruct_i32", "list_tdbinary", "set_tdbinary", "map_string_tdbinary":
				types = append(types, n)
			}
		}
		types = append(types, env.Types2()[:3]...)
	default:
		types = env.Leaves()
		for _, n := range env.Types1(false) {
			if strings.HasPrefix(n.Name, "list_") || strings.HasPrefix(n.Name, "set_") || strings.HasPrefix(n.Name, "map_string_") || strings.HasPrefix(n.Name, "map_struct") || strings.HasPrefix(n.Name, "map_binary") || strings.HasPrefix(n.Name, "map_enum_") {
				types = append(types, n)
			}
		}
		types = append(types, env.Types2()...)
	}
	env.Kernels(types, []idl.Req{idl.ReqDefault, idl.ReqRequired, idl.ReqOptional})
	// the same shapes as union members, exception members, arguments, results, throws
	u := &idl.Struct{Cat: "union", Name: "AllU"}
	x := &idl.Struct{Cat: "exception", Name: "AllX"}
	svc := &idl.Service{Name: "AllSvc"}
	for i, t := range types {
		u.Fields = append(u.Fields, fld(int32(i+1), "m_"+t.Name, t.T))
		x.Fields = append(x.Fields, fld(int32(i+1), "m_"+t.Name, t.T))
		fn := &idl.Function{Name: "call_" + t.Name, Ret: t.T, Args: []*idl.Field{fld(1, "a", t.T), {Name: "b", Type: t.T}}, Throws: []*idl.Field{fld(1, "x", idl.StructT(env.X))}}
		svc.Functions = append(svc.Functions, fn)
	}
	svc.Functions = append(svc.Functions, &idl.Function{Name: "fire", Oneway: true, Args: []*idl.Field{fld(1, "a", idl.T(idl.I32))}}, &idl.Function{Name: "nothing"})
	env.Main.Add(u)
	env.Main.Add(x)
	env.Main.Add(svc)
	empty := &idl.Struct{Cat: "struct", Name: "Empty"}
	env.Main.Add(empty)
	env.Main.Add(&idl.Struct{Cat: "union", Name: "EmptyU"})
	env.Main.Add(&idl.Struct{Cat: "exception", Name: "EmptyX"})
	env.Main.Add(&idl.Service{Name: "EmptySvc"})
	env.Main.Add(&idl.Service{Name: "SubSvc", Extends: svc, Functions: []*idl.Function{{Name: "extra", Ret: idl.StructT(empty)}}})
	env.Main.Add(&idl.Enum{Name: "EmptyE"})
	return env.Program()
}

// nameAlphabet: identifiers chosen from the naming styles' branch points, Go
// keywords / predeclared names and names equal to generated identifiers.
var nameAlphabet = []string{"a", "A", "_a", "a_", "a_b", "a__b", "aB", "a1_2", "url", "Url_id", "user_id", "ID", "New", "NewFoo", "FooArgs", "FooResult", "Foo_args", "foo_result",
	"type", "func", "range", "chan", "go", "select", "interface", "default", "package", "import", "var", "error", "len", "nil", "iota", "int32", "any", "append", "new",
	"Read", "Write", "String", "Error", "GetA", "IsSetA", "SetA", "ReadField1", "writeField1", "Field1DeepEqual", "DeepEqual", "InitDefault", "p", "err", "ctx", "r", "_result", "_args", "fieldId", "fieldTypeId", "success", "Success", "iprot", "oprot", "thrift", "fmt", "context", "v", "src", "issetA", "x1", "X_1",
	// every Go keyword, lower case and capitalised (the generator lower-cases argument names)
	"map", "struct", "switch", "case", "for", "if", "else", "return", "break", "const", "defer", "goto", "continue", "fallthrough",
	"Type", "Func", "Range", "Chan", "Go", "Select", "Interface", "Default", "Package", "Import", "Var", "Map", "Struct", "Switch", "Case", "For", "If", "Else", "Return", "Break", "Const", "Defer", "Goto", "Continue", "Fallthrough", "Nil", "TYPE", "Error_", "String_"}

type prog struct {
	family, variant string
	p               *idl.Program
	recurse         bool
}

func single(name string, f *idl.File) *idl.Program { return &idl.Program{Files: []*idl.File{f}} }

func nameStress(thorough bool) []prog {
	var out []prog
	i32, str := idl.T(idl.I32), idl.T(idl.String)
	mk := func() *idl.File {
		return &idl.File{Path: "n.thrift", Namespaces: []*idl.Namespace{{Lang: "go", Name: "ns.names"}}}
	}
	for _, n := range nameAlphabet {
		// struct / union / exception name, used as a field type and in a service
		f := mk()
		s := &idl.Struct{Cat: "struct", Name: n, Fields: []*idl.Field{fld(1, "a", i32), {ID: 2, ExplicitID: true, Name: "b", Type: str, Req: idl.ReqOptional}}}
		f.Add(s)
		f.Add(&idl.Struct{Cat: "struct", Name: "User0", Fields: []*idl.Field{fld(1, "x", idl.StructT(s)), fld(2, "l", idl.ListOf(idl.StructT(s)))}})
		f.Add(&idl.Service{Name: "Svc0", Functions: []*idl.Function{{Name: "get", Ret: idl.StructT(s), Args: []*idl.Field{fld(1, "q", idl.StructT(s))}}}})
		out = append(out, prog{"name:struct", n, single(n, f), false})
		// field name (struct, union, exception), argument name, throws name
		f = mk()
		ex := &idl.Struct{Cat: "exception", Name: "Ex0", Fields: []*idl.Field{fld(1, n, str)}}
		f.Add(&idl.Struct{Cat: "struct", Name: "S0", Fields: []*idl.Field{fld(1, n, i32), {ID: 2, ExplicitID: true, Name: "other", Type: str, Req: idl.ReqOptional}, {ID: 3, ExplicitID: true, Name: "Other2", Type: idl.ListOf(i32), Req: idl.ReqRequired}}})
		f.Add(&idl.Struct{Cat: "union", Name: "U0", Fields: []*idl.Field{fld(1, n, i32), fld(2, "other", str)}})
		f.Add(ex)
		f.Add(&idl.Service{Name: "Svc0", Functions: []*idl.Function{{Name: "get", Ret: i32, Args: []*idl.Field{fld(1, n, i32), fld(2, "other", str)}, Throws: []*idl.Field{fld(1, "thr0", idl.StructT(ex))}}}})
		out = append(out, prog{"name:field", n, single(n, f), false})
		// exception name in a throws list (alone, and next to an argument of the same name)
		f = mk()
		ex = &idl.Struct{Cat: "exception", Name: "Ex0", Fields: []*idl.Field{fld(1, "m", str)}}
		f.Add(ex)
		f.Add(&idl.Service{Name: "Svc0", Functions: []*idl.Function{{Name: "get", Ret: i32, Args: []*idl.Field{fld(1, "a", i32)}, Throws: []*idl.Field{fld(1, n, idl.StructT(ex))}},
			{Name: "both", Args: []*idl.Field{fld(1, n, str)}, Throws: []*idl.Field{fld(1, n, idl.StructT(ex))}}, {Name: "second", Ret: str, Args: []*idl.Field{fld(1, "first", i32), fld(2, n, idl.ListOf(i32))}}}})
		out = append(out, prog{"name:throws", n, single(n, f), false})
		// enum name and enum value name
		f = mk()
		e := &idl.Enum{Name: n, Values: []*idl.EnumValue{{Name: "A"}, {Name: "B"}}}
		f.Add(e)
		e2 := &idl.Enum{Name: "En0", Values: []*idl.EnumValue{{Name: n}, {Name: "Zz"}}}
		f.Add(e2)
		f.Add(&idl.Struct{Cat: "struct", Name: "S0", Fields: []*idl.Field{{ID: 1, ExplicitID: true, Name: "e", Type: idl.EnumT(e), Default: idl.VE(e, e.Values[1])}, {ID: 2, ExplicitID: true, Name: "f", Type: idl.EnumT(e2), Req: idl.ReqOptional, Default: idl.VE(e2, e2.Values[0])}}})
		out = append(out, prog{"name:enum", n, single(n, f), false})
		// typedef and constant name
		f = mk()
		td := &idl.Typedef{Name: n, Type: idl.MapOf(str, i32)}
		f.Add(td)
		c := &idl.Const{Name: n + "C", Type: i32, Value: idl.VI(3)}
		if thorough {
			c.Name = n
			td.Name = n + "T"
		}
		f.Add(c)
		f.Add(&idl.Struct{Cat: "struct", Name: "S0", Fields: []*idl.Field{fld(1, "m", idl.TypedefT(td)), {ID: 2, ExplicitID: true, Name: "k", Type: i32, Default: idl.VC(c)}}})
		out = append(out, prog{"name:typedef-const", n, single(n, f), false})
		// service and method name
		f = mk()
		base := &idl.Service{Name: n, Functions: []*idl.Function{{Name: "ping"}}}
		f.Add(base)
		f.Add(&idl.Service{Name: "Svc0", Extends: base, Functions: []*idl.Function{{Name: n, Ret: str, Args: []*idl.Field{fld(1, "a", i32)}}, {Name: "other", Oneway: true}}})
		out = append(out, prog{"name:service-method", n, single(n, f), false})
	}
	// colliding pairs at the same scope (names that differ before conversion and may coincide after)
	pairs := [][2]string{{"a_b", "aB"}, {"a_b", "a__b"}, {"a_b", "AB"}, {"url", "Url"}, {"url", "URL"}, {"user_id", "UserId"}, {"user_id", "userID"}, {"get_a", "GetA"}, {"a", "A"}, {"_a", "a"}, {"a_", "a"}, {"x1", "x_1"}, {"x1", "X1"},
		{"foo", "NewFoo"}, {"foo", "FooArgs"}, {"FooArgs", "Foo_args"}, {"New", "new"}, {"Foo", "Foo_"}, {"foo", "GetFoo"}, {"foo", "IsSetFoo"}, {"foo", "SetFoo"}}
	for _, pr := range pairs {
		v := pr[0] + "+" + pr[1]
		f := mk()
		f.Add(&idl.Struct{Cat: "struct", Name: "S0", Fields: []*idl.Field{fld(1, pr[0], i32), {ID: 2, ExplicitID: true, Name: pr[1], Type: str, Req: idl.ReqOptional}}})
		out = append(out, prog{"collide:fields", v, single(v, f), false})
		f = mk()
		f.Add(&idl.Struct{Cat: "struct", Name: pr[0], Fields: []*idl.Field{fld(1, "a", i32)}})
		f.Add(&idl.Struct{Cat: "struct", Name: pr[1], Fields: []*idl.Field{fld(1, "b", i32)}})
		out = append(out, prog{"collide:structs", v, single(v, f), false})
		f = mk()
		f.Add(&idl.Enum{Name: "En0", Values: []*idl.EnumValue{{Name: pr[0]}, {Name: pr[1]}}})
		out = append(out, prog{"collide:enum-values", v, single(v, f), false})
		f = mk()
		f.Add(&idl.Service{Name: "Svc0", Functions: []*idl.Function{{Name: pr[0], Ret: i32}, {Name: pr[1], Args: []*idl.Field{fld(1, "a", i32)}}}})
		out = append(out, prog{"collide:methods", v, single(v, f), false})
		f = mk()
		f.Add(&idl.Struct{Cat: "struct", Name: pr[0], Fields: []*idl.Field{fld(1, "a", i32)}})
		f.Add(&idl.Enum{Name: pr[1], Values: []*idl.EnumValue{{Name: "A"}}})
		f.Add(&idl.Const{Name: pr[1] + "_c", Type: i32, Value: idl.VI(1)})
		out = append(out, prog{"collide:struct-enum", v, single(v, f), false})
	}
	return out
}

// aliasNames: identifiers that generated code uses for receivers, parameters and locals
// (and a control group of ordinary names).
var aliasNames = []string{"p", "c", "t", "f", "x", "l", "b", "v", "k", "i", "err", "ctx", "iprot", "oprot", "src", "ano", "tmp", "size", "key", "val", "args", "result", "handler", "processor", "success", "name", "seqId", "value", "ok", "thrift", "fmt", "ordinary", "mypkg"}

func structurePrograms() []prog {
	var out []prog
	i32 := idl.T(idl.I32)
	ip := docs.Interplay()
	out = append(out, prog{"structure", "interplay-r", ip.Prog, true}, prog{"structure", "interplay", ip.Prog, false})
	// file / namespace shapes
	for _, c := range []struct{ v, path, ns string }{
		{"no-namespace", "plain.thrift", ""}, {"dash-file", "my-file.thrift", ""}, {"digit-file", "1st.thrift", ""}, {"keyword-file", "type.thrift", ""}, {"keyword-namespace", "kw.thrift", "type"},
		{"dotted-namespace", "d.thrift", "a.b.c"}, {"upper-file", "MyFile.thrift", ""}, {"underscore-file", "my_file.thrift", ""}, {"namespace-go-keyword-last", "k2.thrift", "x.func"}, {"slash-namespace", "s.thrift", "a/b"},
	} {
		f := &idl.File{Path: c.path}
		if c.ns != "" {
			f.Namespaces = []*idl.Namespace{{Lang: "go", Name: c.ns}}
		}
		f.Add(&idl.Struct{Cat: "struct", Name: "S0", Fields: []*idl.Field{fld(1, "a", i32)}})
		out = append(out, prog{"structure:file", c.v, &idl.Program{Files: []*idl.File{f}}, false})
	}
	// include DAGs: chain, diamond, same base name in two directories, same go namespace in two files, unused include
	mkf := func(path, ns string) *idl.File {
		f := &idl.File{Path: path}
		if ns != "" {
			f.Namespaces = []*idl.Namespace{{Lang: "go", Name: ns}}
		}
		return f
	}
	leafS := func(f *idl.File, n string) *idl.Struct {
		s := &idl.Struct{Cat: "struct", Name: n, Fields: []*idl.Field{fld(1, "v", i32)}}
		f.Add(s)
		return s
	}
	{
		c := mkf("c.thrift", "dag.cpk")
		cs := leafS(c, "CS")
		bf := mkf("b.thrift", "dag.bpk")
		bf.Includes = []*idl.Include{{Path: "c.thrift", File: c}}
		bs := &idl.Struct{Cat: "struct", Name: "BS", Fields: []*idl.Field{fld(1, "c", idl.StructT(cs))}}
		bf.Add(bs)
		btd := &idl.Typedef{Name: "BT", Type: idl.StructT(cs)}
		bf.Add(btd)
		a := mkf("a.thrift", "dag.apk")
		a.Includes = []*idl.Include{{Path: "b.thrift", File: bf}}
		a.Add(&idl.Struct{Cat: "struct", Name: "AS", Fields: []*idl.Field{fld(1, "b", idl.StructT(bs)), fld(2, "t", idl.TypedefT(btd)), fld(3, "l", idl.ListOf(idl.TypedefT(btd)))}})
		out = append(out, prog{"structure:dag", "chain-r", &idl.Program{Files: []*idl.File{a, bf, c}}, true}, prog{"structure:dag", "chain", &idl.Program{Files: []*idl.File{a, bf, c}}, false})
	}
	{
		d := mkf("d.thrift", "dia.dpk")
		ds := leafS(d, "DS")
		l := mkf("l.thrift", "dia.lpk")
		l.Includes = []*idl.Include{{Path: "d.thrift", File: d}}
		ls := &idl.Struct{Cat: "struct", Name: "LS", Fields: []*idl.Field{fld(1, "d", idl.StructT(ds))}}
		l.Add(ls)
		r := mkf("r.thrift", "dia.rpk")
		r.Includes = []*idl.Include{{Path: "d.thrift", File: d}}
		rs := &idl.Struct{Cat: "struct", Name: "RS", Fields: []*idl.Field{fld(1, "d", idl.StructT(ds))}}
		r.Add(rs)
		top := mkf("top.thrift", "dia.toppk")
		top.Includes = []*idl.Include{{Path: "l.thrift", File: l}, {Path: "r.thrift", File: r}, {Path: "d.thrift", File: d}}
		top.Add(&idl.Struct{Cat: "struct", Name: "TS", Fields: []*idl.Field{fld(1, "l", idl.StructT(ls)), fld(2, "r", idl.StructT(rs)), fld(3, "d", idl.StructT(ds))}})
		out = append(out, prog{"structure:dag", "diamond-r", &idl.Program{Files: []*idl.File{top, l, r, d}}, true})
	}
	{
		x1 := mkf("x/common.thrift", "same.xpk")
		s1 := leafS(x1, "C1")
		x2 := mkf("y/common.thrift", "same.ypk")
		s2 := leafS(x2, "C2")
		top := mkf("top.thrift", "same.top")
		top.Includes = []*idl.Include{{Path: "x/common.thrift", File: x1}, {Path: "y/common.thrift", File: x2}}
		// both includes have the prefix "common": only types of the first can be named unambiguously; use one of them
		top.Add(&idl.Struct{Cat: "struct", Name: "TS", Fields: []*idl.Field{fld(1, "a", idl.StructT(s1))}})
		_ = s2
		out = append(out, prog{"structure:dag", "same-base-name-r", &idl.Program{Files: []*idl.File{top, x1, x2}}, true})
	}
	{
		p1 := mkf("p1.thrift", "shared.ns")
		s1 := leafS(p1, "P1S")
		p2 := mkf("p2.thrift", "shared.ns")
		p2.Includes = []*idl.Include{{Path: "p1.thrift", File: p1}}
		p2.Add(&idl.Struct{Cat: "struct", Name: "P2S", Fields: []*idl.Field{fld(1, "a", idl.StructT(s1))}})
		out = append(out, prog{"structure:dag", "same-go-namespace-r", &idl.Program{Files: []*idl.File{p2, p1}}, true})
	}
	{
		u := mkf("unused.thrift", "un.upk")
		leafS(u, "US")
		top := mkf("top.thrift", "un.top")
		top.Includes = []*idl.Include{{Path: "unused.thrift", File: u}}
		top.Add(&idl.Struct{Cat: "struct", Name: "TS", Fields: []*idl.Field{fld(1, "a", i32)}})
		out = append(out, prog{"structure:dag", "unused-include-r", &idl.Program{Files: []*idl.File{top, u}}, true})
	}
	// a file whose only content is a service that extends another and adds nothing
	{
		bf := mkf("eb.thrift", "only.base")
		bsv := &idl.Service{Name: "EB", Functions: []*idl.Function{{Name: "f", Ret: i32}}}
		bf.Add(bsv)
		of := mkf("onlyext.thrift", "only.ext")
		of.Includes = []*idl.Include{{Path: "eb.thrift", File: bf}}
		of.Add(&idl.Service{Name: "OnlyExt", Extends: bsv})
		out = append(out, prog{"structure:service", "only-extends-included-r", &idl.Program{Files: []*idl.File{of, bf}}, true})
		sf := mkf("samefile.thrift", "only.same")
		s0 := &idl.Service{Name: "SB", Functions: []*idl.Function{{Name: "f"}}}
		sf.Add(s0)
		sf.Add(&idl.Service{Name: "SD", Extends: s0})
		out = append(out, prog{"structure:service", "extends-same-file-empty", &idl.Program{Files: []*idl.File{sf}}, false})
		ef := mkf("emptysvc.thrift", "only.empty")
		ef.Add(&idl.Service{Name: "Nothing"})
		out = append(out, prog{"structure:service", "only-empty-service", &idl.Program{Files: []*idl.File{ef}}, false})
		nf := mkf("onlyenum.thrift", "only.enum")
		nf.Add(&idl.Enum{Name: "OE", Values: []*idl.EnumValue{{Name: "A"}}})
		out = append(out, prog{"structure:file", "only-enum", &idl.Program{Files: []*idl.File{nf}}, false})
		cf := mkf("onlyconst.thrift", "only.const")
		cf.Add(&idl.Const{Name: "OC", Type: idl.T(idl.String), Value: idl.VS("x")})
		out = append(out, prog{"structure:file", "only-const", &idl.Program{Files: []*idl.File{cf}}, false})
		tf := mkf("onlytypedef.thrift", "only.td")
		tf.Add(&idl.Typedef{Name: "OT", Type: idl.MapOf(idl.T(idl.String), i32)})
		out = append(out, prog{"structure:file", "only-typedef", &idl.Program{Files: []*idl.File{tf}}, false})
		xf := mkf("onlyexc.thrift", "only.exc")
		xf.Add(&idl.Struct{Cat: "exception", Name: "OX"})
		out = append(out, prog{"structure:file", "only-empty-exception", &idl.Program{Files: []*idl.File{xf}}, false})
		zf := mkf("nothing.thrift", "only.nothing")
		out = append(out, prog{"structure:file", "no-definitions", &idl.Program{Files: []*idl.File{zf}}, false})
	}
	// go package names equal to identifiers the templates use for locals, parameters and receivers:
	// the include is used as a field type, container element, constant type, argument, result,
	// exception and base service
	for _, n := range aliasNames {
		inc := mkf("inc_"+n+".thrift", "al."+n)
		is := leafS(inc, "IS")
		ie := &idl.Enum{Name: "IE", Values: []*idl.EnumValue{{Name: "A"}, {Name: "B"}}}
		inc.Add(ie)
		ix := &idl.Struct{Cat: "exception", Name: "IX", Fields: []*idl.Field{fld(1, "m", idl.T(idl.String))}}
		inc.Add(ix)
		ik := &idl.Const{Name: "IK", Type: i32, Value: idl.VI(3)}
		inc.Add(ik)
		ib := &idl.Service{Name: "IBase", Functions: []*idl.Function{{Name: "ping"}}}
		inc.Add(ib)
		top := mkf("top_"+n+".thrift", "al.top"+n+"pk")
		top.Includes = []*idl.Include{{Path: inc.Path, File: inc}}
		top.Add(&idl.Struct{Cat: "struct", Name: "TS", Fields: []*idl.Field{fld(1, "s", idl.StructT(is)), fld(2, "l", idl.ListOf(idl.StructT(is))), fld(3, "m", idl.MapOf(idl.T(idl.String), idl.StructT(is))),
			{ID: 4, ExplicitID: true, Name: "e", Type: idl.EnumT(ie), Default: idl.VE(ie, ie.Values[1])}, {ID: 5, ExplicitID: true, Name: "k", Type: i32, Default: idl.VC(ik)}, {ID: 6, ExplicitID: true, Name: "o", Type: idl.StructT(is), Req: idl.ReqOptional}}})
		top.Add(&idl.Const{Name: "TK", Type: idl.ListOf(idl.EnumT(ie)), Value: idl.VL(idl.VE(ie, ie.Values[0]))})
		top.Add(&idl.Service{Name: "TSvc", Extends: ib, Functions: []*idl.Function{{Name: "f", Ret: idl.StructT(is), Args: []*idl.Field{fld(1, "a", idl.StructT(is)), fld(2, "b", idl.EnumT(ie))}, Throws: []*idl.Field{fld(1, "x", idl.StructT(ix))}}}})
		out = append(out, prog{"alias", n, &idl.Program{Files: []*idl.File{top, inc}}, true})
	}
	// services: extends across files two levels, throws of the same type twice
	{
		b0 := mkf("b0.thrift", "ext.b0")
		e0 := &idl.Struct{Cat: "exception", Name: "E0", Fields: []*idl.Field{fld(1, "m", idl.T(idl.String))}}
		b0.Add(e0)
		s0 := &idl.Service{Name: "S0", Functions: []*idl.Function{{Name: "f0", Ret: i32, Throws: []*idl.Field{fld(1, "e", idl.StructT(e0))}}}}
		b0.Add(s0)
		b1 := mkf("b1.thrift", "ext.b1")
		b1.Includes = []*idl.Include{{Path: "b0.thrift", File: b0}}
		s1 := &idl.Service{Name: "S1", Extends: s0, Functions: []*idl.Function{{Name: "f1"}}}
		b1.Add(s1)
		b2 := mkf("b2.thrift", "ext.b2")
		b2.Includes = []*idl.Include{{Path: "b1.thrift", File: b1}, {Path: "b0.thrift", File: b0}}
		b2.Add(&idl.Service{Name: "S2", Extends: s1, Functions: []*idl.Function{{Name: "f2", Ret: i32, Args: []*idl.Field{fld(1, "a", i32)}, Throws: []*idl.Field{fld(1, "e", idl.StructT(e0))}}}})
		out = append(out, prog{"structure:service", "extends-two-levels-r", &idl.Program{Files: []*idl.File{b2, b1, b0}}, true})
		t := mkf("tt.thrift", "thr.tpk")
		ex := &idl.Struct{Cat: "exception", Name: "Ex", Fields: []*idl.Field{fld(1, "m", idl.T(idl.String))}}
		t.Add(ex)
		t.Add(&idl.Service{Name: "Sv", Functions: []*idl.Function{{Name: "f", Ret: i32, Throws: []*idl.Field{fld(1, "a", idl.StructT(ex)), fld(2, "b", idl.StructT(ex))}}}})
		out = append(out, prog{"structure:service", "same-exception-twice", &idl.Program{Files: []*idl.File{t}}, false})
	}
	return out
}

func main() {
	flag.String("replay", "", "unused")
	run := evid.New("C01", "exploration")
	scratch := os.Getenv("VERIF_SCRATCH")
	if scratch == "" {
		d, _ := os.MkdirTemp("", "verif-c01-")
		defer os.RemoveAll(d)
		scratch = d
	}
	thorough := run.Thorough()
	tg, err := gen.BuildThriftgo(scratch)
	if err != nil {
		run.Fatal("%v", err)
	}
	b, err := gen.NewBatch(scratch, tg)
	if err != nil {
		run.Fatal("%v", err)
	}
	var infos []*itemInfo
	add := func(family, variant string, p *idl.Program, backend string, opts []string, recurse bool) {
		key := fmt.Sprintf("i%d", len(infos))
		it := b.Add(&gen.Item{Key: key, Prog: p, Backend: backend, Opts: opts, Recurse: recurse})
		infos = append(infos, &itemInfo{it: it, family: family, variant: variant, cfg: backend + ":" + strings.Join(opts, ",") + map[bool]string{true: " -r", false: ""}[recurse]})
	}

	// (1) kernel program x every option alone. quick: a compact kernel (every leaf
	// class + one container of each kind) under every option, the wide kernel under
	// the default configuration and both backends; thorough: the wide kernel everywhere.
	kp := kernelProgram(thorough, true)
	kpWide := kernelProgram(thorough, false)
	var cfgs [][]string
	cfgs = append(cfgs, nil)
	skipOpts := map[string]string{"code_ref": "needs idl-ref.yaml", "code_ref_slim": "needs idl-ref.yaml", "exp_code_ref": "needs idl-ref.yaml", "keep_code_ref_name": "needs idl-ref.yaml"}
	for _, o := range documentedOptions(run) {
		if why, ok := skipOpts[o]; ok {
			run.Assume("option " + o + " not exercised: " + why)
			continue
		}
		switch o {
		case "with_field_mask":
			cfgs = append(cfgs, []string{"with_field_mask", "with_reflection"})
		case "field_mask_halfway", "field_mask_zero_required":
			cfgs = append(cfgs, []string{o, "with_field_mask", "with_reflection"})
		case "streamx":
			cfgs = append(cfgs, []string{"streamx", "thrift_streaming"})
		case "enable_nested_struct":
			cfgs = append(cfgs, []string{"enable_nested_struct", "template=slim"})
		case "ignore_initialisms":
			cfgs = append(cfgs, []string{o})
		default:
			cfgs = append(cfgs, []string{o})
			// default-on options are also switched off
			for _, on := range []string{"omitempty_for_optional", "use_type_alias", "validate_set", "scan_value_for_enum", "unescape_double_quote", "gen_json_tag"} {
				if o == on {
					cfgs = append(cfgs, []string{o + "=false"})
				}
			}
		}
	}
	cfgs = append(cfgs, []string{"naming_style=golint"}, []string{"naming_style=apache"}, []string{"naming_style=thriftgo"}, []string{"naming_style=golint", "ignore_initialisms"}, []string{"naming_style=apache", "ignore_initialisms"},
		[]string{"template=slim"}, []string{"template=raw_struct"}, []string{"thrift_import_path=github.com/apache/thrift/lib/go/thrift"}, []string{"gen_deep_equal", "keep_unknown_fields", "gen_setter", "nil_safe", "json_stringer"},
		[]string{"with_reflection", "with_field_mask", "keep_unknown_fields", "gen_deep_equal"})
	for _, c := range cfgs {
		add("kernel", "kernel", kp, "go", c, true)
	}
	add("kernel", "kernel", kp, "fastgo", nil, true)
	add("kernel", "kernel", kp, "fastgo", []string{"keep_unknown_fields"}, true)
	// the fastgo backend under the options that change how values are represented
	for _, o := range [][]string{{"value_type_in_container"}, {"use_type_alias=false"}, {"enum_as_int_32"}, {"naming_style=apache"}, {"gen_deep_equal"}, {"with_reflection"}, {"nil_safe"}, {"no_default_serdes"}, {"reorder_fields"}} {
		add("kernel", "kernel", kp, "fastgo", o, true)
	}
	add("kernel", "kernel", kp, "go", nil, false)
	if !thorough {
		add("kernel-wide", "kernel-wide", kpWide, "go", nil, true)
		add("kernel-wide", "kernel-wide", kpWide, "fastgo", nil, true)
		add("kernel-wide", "kernel-wide", kpWide, "go", []string{"with_reflection", "with_field_mask", "keep_unknown_fields", "gen_deep_equal", "gen_setter"}, true)
	}

	// (2) name stress x naming styles
	styles := [][]string{nil, {"naming_style=golint"}, {"naming_style=apache"}, {"compatible_names"}}
	if thorough {
		styles = append(styles, []string{"naming_style=golint", "ignore_initialisms"}, []string{"gen_setter", "gen_deep_equal", "keep_unknown_fields"}, []string{"with_reflection", "with_field_mask"}, []string{"template=slim"})
	}
	ns := nameStress(thorough)
	for _, p := range ns {
		for _, st := range styles {
			add(p.family, p.variant, p.p, "go", st, false)
		}
		if thorough {
			add(p.family, p.variant, p.p, "fastgo", nil, false)
		}
	}
	// (2b) constants and defaults: every way of writing a value (shared with C06),
	// each alone (so a failure names the way) and all accepted ones together
	{
		n := len(universe.Ways(universe.NewConstEnv("c01c")))
		for i := 0; i < n; i++ {
			e := universe.NewConstEnv("c01c")
			w := universe.Ways(e)[i]
			universe.Attach(e.Main, w)
			p := &idl.Program{Files: []*idl.File{e.Main, e.Inc}}
			add("consts", w.Name, p, "go", nil, true)
			if thorough {
				add("consts", w.Name, p, "fastgo", nil, true)
			}
			if thorough || strings.Contains(w.Name, "struct") {
				// representation-changing options matter where struct values sit in containers / literals
				add("consts", w.Name, p, "go", []string{"value_type_in_container", "enum_as_int_32"}, true)
			}
		}
	}
	// (3) structure programs
	for _, p := range structurePrograms() {
		add(p.family, p.variant, p.p, "go", nil, p.recurse)
		add(p.family, p.variant, p.p, "fastgo", nil, p.recurse)
		if thorough {
			add(p.family, p.variant, p.p, "go", []string{"with_reflection", "with_field_mask", "gen_deep_equal"}, p.recurse)
		}
	}
	// (4) thorough: all unordered pairs of boolean options on the interplay program
	if thorough {
		opts := documentedOptions(run)
		var bools []string
		for _, o := range opts {
			if _, skip := skipOpts[o]; !skip {
				bools = append(bools, o)
			}
		}
		ip := docs.Interplay().Prog
		for i := 0; i < len(bools); i++ {
			for j := i + 1; j < len(bools); j++ {
				add("pairs", bools[i]+"+"+bools[j], ip, "go", []string{bools[i], bools[j]}, true)
			}
		}
	}
	run.Set("items", len(infos))
	t0 := time.Now()
	b.Generate()
	run.Set("generate_s", time.Since(t0).Seconds())

	// ---- oracle part 1: every written .go file parses
	rejected := map[string]int{}
	accepted := 0
	fset := token.NewFileSet()
	for _, in := range infos {
		it := in.it
		nontrivial := it.Exit == 0
		run.Eval(in.family+"|"+in.variant+"|"+in.cfg, nontrivial)
		if it.Exit != 0 {
			rejected[in.family]++
			continue
		}
		accepted++
		for _, rel := range it.Files {
			if !strings.HasSuffix(rel, ".go") {
				continue
			}
			if _, err := parser.ParseFile(fset, filepath.Join(it.OutDir, rel), nil, parser.SkipObjectResolution); err != nil {
				run.Violate(evid.Violation{Class: "syntax:" + classOf(in), What: fmt.Sprintf("%s [%s]: generated file %s is not valid Go: %v", in.variant, in.cfg, rel, firstLine(err.Error())),
					Replay: replayOf(in)})
				it.BuildErr = "syntax"
				break
			}
		}
		if len(it.Files) == 0 && !strings.Contains(in.cfg, "skip_go_gen") {
			// exit 0 without output is C04's subject ("never exits 0 without the complete output")
			run.Note(fmt.Sprintf("%s/%s [%s]: exit 0 but no file written (see C04)", in.family, in.variant, in.cfg))
		}
	}
	// ---- oracle part 2: all generated packages compile (go build + go vet)
	t1 := time.Now()
	bad, err := b.TypeCheck()
	if err != nil {
		run.Fatal("type check: %v", err)
	}
	run.Set("typecheck_s", time.Since(t1).Seconds())
	// the real toolchain (go build + go vet) on the kernel and structure items
	var keys []string
	for _, in := range infos {
		if len(in.it.Files) == 0 {
			continue // nothing was generated (skip_go_gen): there is nothing to compile
		}
		if in.it.Exit == 0 && in.it.BuildErr == "" && bad[in.it.Key] == nil && (strings.HasPrefix(in.family, "kernel") || strings.HasPrefix(in.family, "structure")) && (thorough || in.cfg == "go: -r" || in.cfg == "fastgo: -r" || in.cfg == "go:") {
			keys = append(keys, in.it.Key)
		}
	}
	t2 := time.Now()
	if len(keys) > 0 {
		br := b.BuildItems(keys, true)
		for k, msgs := range br.PerItem {
			bad[k] = append(bad[k], msgs...)
		}
		if !br.OK && len(br.PerItem) == 0 {
			run.Fatal("go build failed without attributable output:\n%s", tail(br.Output, 4000))
		}
	}
	run.Set("go_build_vet_items", len(keys))
	run.Set("go_build_vet_s", time.Since(t2).Seconds())
	// options whose output already fails to compile on its own (kernel family):
	// a pair containing one of them fails for the same reason and is not a new element
	failingOpt := map[string]bool{}
	for _, in := range infos {
		if _, ok := bad[in.it.Key]; ok && in.family == "kernel" && len(in.it.Opts) == 1 {
			failingOpt[strings.SplitN(in.it.Opts[0], "=", 2)[0]] = true
		}
	}
	implied := 0
	for _, in := range infos {
		if msgs, ok := bad[in.it.Key]; ok && in.it.Exit == 0 && in.it.BuildErr == "" {
			msg := pickMsg(msgs)
			if in.family == "pairs" {
				isImplied := false
				for _, o := range in.it.Opts {
					if failingOpt[o] {
						isImplied = true
					}
				}
				if isImplied {
					implied++
					continue
				}
			}
			cls := "compile:" + classOf(in) + ":" + errShape(msg)
			if in.family == "alias" {
				cls = "compile:alias:" + in.variant + ":" + in.it.Backend // the package name identifies the element (every message is a consequence of the shadowed alias)
			}
			if strings.HasPrefix(in.family, "kernel") || in.family == "pairs" {
				cls = "compile:" + classOf(in) // the configuration identifies the element; the first message varies with the tier's kernel size
			}
			run.Violate(evid.Violation{Class: cls, What: fmt.Sprintf("%s [%s]: generated code does not compile: %s", in.variant, in.cfg, msg), Replay: replayOf(in)})
		}
	}
	run.Set("pairs_failing_because_one_option_fails_alone", implied)
	run.Set("accepted", accepted)
	run.Set("rejected_by_family", rejected)
	run.Set("configs_on_kernel", len(cfgs)+3)
	run.Set("name_alphabet", len(nameAlphabet))
	var rej []string
	for _, in := range infos {
		if in.it.Exit != 0 && len(rej) < 40 {
			rej = append(rej, fmt.Sprintf("%s/%s [%s]: %s", in.family, in.variant, in.cfg, firstLine(lastLine(in.it.Stderr))))
		}
	}
	run.Set("rejected_examples", rej)
	run.Sample(map[string]any{"family": "name:field", "variant": "Read", "config": "go:naming_style=golint", "idl": idl.Render(ns[0].p.Files[0])})
	run.Sample(map[string]any{"family": "kernel", "files": len(kp.Files), "config": "go:with_reflection -r"})
	run.Set("rule", "one evaluation = one (program, configuration) generated by the thriftgo built from the working tree and compiled (go build + go vet) against the pinned runtime libraries; non-trivial iff thriftgo exited 0")
	run.Assume("kitex is not in the module cache: streaming code is generated only for IDLs without streaming annotations")
	run.Finish()
}

func classOf(in *itemInfo) string {
	switch {
	case in.family == "kernel" || in.family == "pairs" || in.family == "kernel-wide":
		return "kernel:" + in.cfg
	case strings.HasPrefix(in.family, "structure") || in.family == "consts":
		return in.family + ":" + in.variant
	}
	// name families: the name is the cause, the style a modifier
	return in.family + ":" + in.variant
}

var posRe = regexp.MustCompile(`^[^ ]*\.go:\d+:\d+: `)

// errShape normalises a compiler message: position and scratch paths dropped,
// the text kept (the universe is fixed, so identifiers in it are stable).
func errShape(msg string) string {
	m := posRe.ReplaceAllString(msg, "")
	m = regexp.MustCompile(`vscratch/gen/i\d+/`).ReplaceAllString(m, "")
	m = regexp.MustCompile(`gen/i\d+/`).ReplaceAllString(m, "")
	if len(m) > 160 {
		m = m[:160]
	}
	return m
}

func pickMsg(msgs []string) string {
	sort.Strings(msgs)
	for _, m := range msgs {
		if strings.Contains(m, ".go:") && !strings.Contains(m, ": \t") {
			return strings.TrimSpace(m)
		}
	}
	return strings.TrimSpace(msgs[0])
}

func replayOf(in *itemInfo) map[string]any {
	return map[string]any{"family": in.family, "variant": in.variant, "config": in.cfg, "idl": in.it.Texts}
}

func firstLine(s string) string {
	s = strings.TrimSpace(s)
	if i := strings.IndexByte(s, '\n'); i >= 0 {
		return s[:i]
	}
	return s
}

func lastLine(s string) string {
	s = strings.TrimSpace(s)
	if i := strings.LastIndexByte(s, '\n'); i >= 0 {
		return s[i+1:]
	}
	return s
}

func tail(s string, n int) string {
	if len(s) > n {
		return s[len(s)-n:]
	}
	return s
}
