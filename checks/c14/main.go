// C14 — field-mask library: queries and JSON transport agree with path semantics.
//
// In-process, bounded-exhaustive:
//
//	(a) all lists of <= 2 (thorough 3) valid paths over three root descriptors,
//	    in all orders and groupings, white and black list, compared with a
//	    reference trie (written from fieldmask/README.md and the property text)
//	    at every node reachable to depth 4 with type-appropriate queries;
//	    JSON round trip must preserve every answer; JSON text must be stable.
//	(b) all strings over a 13-symbol path alphabet up to length 6 (thorough 7),
//	    plus integer-boundary paths, fed to NewFieldMask / GetPath / PathInMask:
//	    no panic.
//	(c) all JSON documents of a depth-2 grammar over the mask schema with
//	    wrong-typed and missing members fed to UnmarshalJSON / Unmarshal: no
//	    panic, and no panic when the resulting mask is queried or re-marshalled.
//
// Path lists are classified by the reference:
//
//	clean       no path ends where another continues, no '*' next to a specific
//	            child at the same position: must build, exact, order/grouping independent
//	prefix      some path is a proper prefix of another: error-or-exact
//	star-mixed  a '*' and a specific child at the same position: only "no panic"
//	            (the property exempts these from order independence; what the set
//	            "prescribes" is then ambiguous, so nothing more is judged)
package main

import (
	"encoding/json"
	"flag"
	"fmt"
	"os"
	"runtime"
	"sort"
	"strings"
	"sync"
	"sync/atomic"
	"time"

	"verif/internal/evid"

	"github.com/cloudwego/thriftgo/fieldmask"
	"github.com/cloudwego/thriftgo/parser"
	"github.com/cloudwego/thriftgo/thrift_reflection"
)

const idlText = `
struct Leaf { 1: i32 A, 2: string B }
struct Mid {
  1: Leaf L,
  2: list<Leaf> Ls,
  3: map<string,Leaf> Sm,
  4: map<i32,Leaf> Im,
  5: i32 X,
  6: set<i32> St,
  7: map<double,Leaf> Dm,
}
struct Root {
  1: i32 S,
  2: Mid M,
  3: list<Mid> Lm,
  4: map<string,i32> Ss,
  63: i32 E63,
  64: i32 Hi,
  65: Leaf Hl,
}
struct RootNeg { -1: i32 N, 2: Leaf L, 3: required i32 R }
typedef i32 Id
typedef Id Id2
typedef string Sid
typedef Leaf TLeaf
typedef map<i32,Leaf> ImT
typedef list<TLeaf> LsT
struct Big { 1: map<i64,Leaf> Bm, 2: list<Leaf> Bl, 3: i32 X }
struct Tdr { 1: map<Id2,Leaf> Tm, 2: map<Sid,TLeaf> Tsm, 3: ImT Wm, 4: TLeaf Tl, 5: LsT Tls, 6: map<Id,Sid> Tss }
`

// ---------------------------------------------------------------- reference types

type rkind int

const (
	kScalar rkind = iota
	kStruct
	kList
	kStrMap
	kIntMap
	kOtherMap
)

type rfield struct {
	id   int
	name string
	t    *rtype
}
type rtype struct {
	big    bool // keys / indices beyond 2^31 are part of the alphabet
	kind   rkind
	name   string
	fields []rfield
	elem   *rtype
}

func refTypes() map[string]*rtype {
	sc := &rtype{kind: kScalar}
	leaf := &rtype{kind: kStruct, name: "Leaf", fields: []rfield{{1, "A", sc}, {2, "B", sc}}}
	mid := &rtype{kind: kStruct, name: "Mid", fields: []rfield{
		{1, "L", leaf}, {2, "Ls", &rtype{kind: kList, elem: leaf}}, {3, "Sm", &rtype{kind: kStrMap, elem: leaf}}, {4, "Im", &rtype{kind: kIntMap, elem: leaf}},
		{5, "X", sc}, {6, "St", &rtype{kind: kList, elem: sc}}, {7, "Dm", &rtype{kind: kOtherMap, elem: leaf}}}}
	root := &rtype{kind: kStruct, name: "Root", fields: []rfield{
		{1, "S", sc}, {2, "M", mid}, {3, "Lm", &rtype{kind: kList, elem: mid}}, {4, "Ss", &rtype{kind: kStrMap, elem: sc}}, {63, "E63", sc}, {64, "Hi", sc}, {65, "Hl", leaf}}}
	rneg := &rtype{kind: kStruct, name: "RootNeg", fields: []rfield{{-1, "N", sc}, {2, "L", leaf}, {3, "R", sc}}}
	// everything written through typedefs: map keys, map values, whole containers, struct
	tdr := &rtype{kind: kStruct, name: "Tdr", fields: []rfield{
		{1, "Tm", &rtype{kind: kIntMap, elem: leaf}}, {2, "Tsm", &rtype{kind: kStrMap, elem: leaf}}, {3, "Wm", &rtype{kind: kIntMap, elem: leaf}}, {4, "Tl", leaf},
		{5, "Tls", &rtype{kind: kList, elem: leaf}}, {6, "Tss", &rtype{kind: kIntMap, elem: sc}}}}
	// i64 keys and list indices that do not fit 32 bits
	big := &rtype{kind: kStruct, name: "Big", fields: []rfield{{1, "Bm", &rtype{kind: kIntMap, elem: leaf, big: true}}, {2, "Bl", &rtype{kind: kList, elem: leaf, big: true}}, {3, "X", sc}}}
	return map[string]*rtype{"Root": root, "Mid": mid, "RootNeg": rneg, "Tdr": tdr, "Big": big}
}

// ---------------------------------------------------------------- paths

type step struct {
	kind string // "field" | "idx" | "skey" | "ikey" | "star"
	ids  []int
	strs []string
	text string
}
type path struct {
	steps []step
	text  string
}

var idxSets = [][]int{{0}, {1}, {7}, {0, 1}, {1, 7}}
var skeySets = [][]string{{"a"}, {"b"}, {"a", "b"}}
var ikeySets = [][]int{{1}, {2}, {1, 2}}

func joinInts(a []int) string {
	s := make([]string, len(a))
	for i, x := range a {
		s[i] = fmt.Sprint(x)
	}
	return strings.Join(s, ",")
}
func joinStrs(a []string) string {
	s := make([]string, len(a))
	for i, x := range a {
		s[i] = fmt.Sprintf("%q", x)
	}
	return strings.Join(s, ",")
}

// enumPaths: every valid path over t up to depth d (ending at any node).
func enumPaths(t *rtype, d int, byID bool) []path {
	out := []path{{text: "$"}}
	var rec func(t *rtype, pre []step, text string, d int)
	rec = func(t *rtype, pre []step, text string, d int) {
		if d == 0 {
			return
		}
		var nexts []struct {
			s step
			t *rtype
		}
		switch t.kind {
		case kStruct:
			for i, f := range t.fields {
				txt := "." + f.name
				if byID && i%2 == 0 && f.id >= 0 { // the path grammar has no spelling for a negative id
					txt = "." + fmt.Sprint(f.id)
				}
				nexts = append(nexts, struct {
					s step
					t *rtype
				}{step{kind: "field", ids: []int{f.id}, text: txt}, f.t})
			}
			if len(t.fields) > 0 {
				nexts = append(nexts, struct {
					s step
					t *rtype
				}{step{kind: "star", text: ".*"}, t.fields[0].t})
			}
		case kList:
			sets := idxSets
			if t.big {
				sets = [][]int{{0}, {2147483648}, {1, 4294967297}}
			}
			for _, s := range sets {
				nexts = append(nexts, struct {
					s step
					t *rtype
				}{step{kind: "idx", ids: s, text: "[" + joinInts(s) + "]"}, t.elem})
			}
			nexts = append(nexts, struct {
				s step
				t *rtype
			}{step{kind: "star", text: "[*]"}, t.elem})
		case kStrMap:
			for _, s := range skeySets {
				nexts = append(nexts, struct {
					s step
					t *rtype
				}{step{kind: "skey", strs: s, text: "{" + joinStrs(s) + "}"}, t.elem})
			}
			nexts = append(nexts, struct {
				s step
				t *rtype
			}{step{kind: "star", text: "{*}"}, t.elem})
		case kIntMap:
			sets := ikeySets
			if t.big {
				sets = [][]int{{1}, {2147483648}, {2, 4294967297}, {9007199254740993}}
			}
			for _, s := range sets {
				nexts = append(nexts, struct {
					s step
					t *rtype
				}{step{kind: "ikey", ids: s, text: "{" + joinInts(s) + "}"}, t.elem})
			}
			nexts = append(nexts, struct {
				s step
				t *rtype
			}{step{kind: "star", text: "{*}"}, t.elem})
		case kOtherMap:
			nexts = append(nexts, struct {
				s step
				t *rtype
			}{step{kind: "star", text: "{*}"}, t.elem})
		}
		for _, n := range nexts {
			st := append(append([]step{}, pre...), n.s)
			tx := text + n.s.text
			out = append(out, path{st, tx})
			if t.kind == kStruct && n.s.kind == "star" {
				// ".*" on a struct with a continuation is not defined for fields of
				// different types (the README documents '*' + continuation for
				// list/map elements only): such paths are only in the no-panic universe
				continue
			}
			rec(n.t, st, tx, d-1)
		}
	}
	rec(t, nil, "$", d)
	return out
}

// ---------------------------------------------------------------- reference trie

type node struct {
	complete bool
	star     *node
	kids     map[string]*node
}

func (n *node) child(k string, create bool) *node {
	if n.kids == nil {
		if !create {
			return nil
		}
		n.kids = map[string]*node{}
	}
	c := n.kids[k]
	if c == nil && create {
		c = &node{}
		n.kids[k] = c
	}
	return c
}

func insert(n *node, steps []step) {
	if len(steps) == 0 {
		n.complete = true
		return
	}
	s := steps[0]
	switch s.kind {
	case "star":
		if n.star == nil {
			n.star = &node{}
		}
		insert(n.star, steps[1:])
	case "skey":
		for _, k := range s.strs {
			insert(n.child("s:"+k, true), steps[1:])
		}
	default:
		for _, k := range s.ids {
			insert(n.child(fmt.Sprint("i:", k), true), steps[1:])
		}
	}
}

func build(ps []path) *node {
	r := &node{}
	for _, p := range ps {
		insert(r, p.steps)
	}
	return r
}

// classify: "clean" | "prefix" | "star-mixed"
func classify(n *node, t *rtype) string {
	res := "clean"
	var rec func(n *node, t *rtype)
	rec = func(n *node, t *rtype) {
		if n == nil {
			return
		}
		if n.star != nil && (len(n.kids) > 0 || n.complete) {
			// '*' next to a specific child, or next to a path that ends here (which
			// the library treats as '*'): a conflict with '*' at the same position
			res = "star-mixed"
		}
		if n.complete && (n.star != nil || len(n.kids) > 0) && res != "star-mixed" && t.kind != kScalar {
			res = "prefix"
		}
		rec(n.star, nil2(t))
		for _, c := range n.kids {
			rec(c, nil2(t))
		}
	}
	rec(n, t)
	return res
}

func nil2(t *rtype) *rtype { return &rtype{kind: kStruct} }

// ---------------------------------------------------------------- comparison

type qctx struct {
	black bool
	diff  string
	sig   *strings.Builder
}

// everything: the mask m must let everything through below this point.
func (q *qctx) everything(m *fieldmask.FieldMask, t *rtype, at string, depth int) {
	if depth == 0 || q.diff != "" || t.kind == kScalar || t.kind == kOtherMap {
		return
	}
	q.query(m, nil, true, t, at, depth)
}

// query compares m with ref node n (nil n with all=true means "everything").
func (q *qctx) query(m *fieldmask.FieldMask, n *node, all bool, t *rtype, at string, depth int) {
	if depth == 0 || q.diff != "" {
		return
	}
	type probe struct {
		key  string
		call func() (*fieldmask.FieldMask, bool)
		et   *rtype
		lbl  string
	}
	var probes []probe
	switch t.kind {
	case kStruct:
		for _, f := range t.fields {
			f := f
			probes = append(probes, probe{fmt.Sprint("i:", f.id), func() (*fieldmask.FieldMask, bool) { return m.Field(int16(f.id)) }, f.t, fmt.Sprintf(".Field(%d)", f.id)})
		}
		for _, id := range []int{0, 99, 32767} {
			id := id
			probes = append(probes, probe{fmt.Sprint("i:", id), func() (*fieldmask.FieldMask, bool) { return m.Field(int16(id)) }, &rtype{kind: kScalar}, fmt.Sprintf(".Field(%d)", id)})
		}
	case kList:
		for _, i := range []int{0, 1, 2, 7} {
			i := i
			probes = append(probes, probe{fmt.Sprint("i:", i), func() (*fieldmask.FieldMask, bool) { return m.Int(i) }, t.elem, fmt.Sprintf(".Int(%d)", i)})
		}
	case kIntMap:
		for _, i := range []int{1, 2, 3, -5} {
			i := i
			probes = append(probes, probe{fmt.Sprint("i:", i), func() (*fieldmask.FieldMask, bool) { return m.Int(i) }, t.elem, fmt.Sprintf(".Int(%d)", i)})
		}
	case kStrMap:
		for _, s := range []string{"a", "b", "zz", ""} {
			s := s
			probes = append(probes, probe{"s:" + s, func() (*fieldmask.FieldMask, bool) { return m.Str(s) }, t.elem, fmt.Sprintf(".Str(%q)", s)})
		}
	default:
		return
	}
	if !q.black && !all {
		wantAll := n == nil || n.complete || n.star != nil
		if got := m.All(); got != wantAll {
			q.diff = fmt.Sprintf("%s.All() = %v, reference %v", at, got, wantAll)
			return
		}
	}
	for _, p := range probes {
		sub, ex := p.call()
		var want bool
		var rn *node
		subAll := false
		switch {
		case all || n == nil:
			want, subAll = true, true
		case !q.black:
			if n.complete {
				want, subAll = true, true
			} else if n.star != nil {
				want, rn = true, n.star
			} else if c := n.child(p.key, false); c != nil {
				want, rn = true, c
			}
			if want && rn != nil && rn.complete {
				subAll = true
			}
		default: // black list
			c := n.star
			if c == nil {
				c = n.child(p.key, false)
			}
			switch {
			case c == nil:
				want, subAll = true, true
			case c.complete:
				want = false
			default:
				want, rn = true, c
			}
		}
		fmt.Fprintf(q.sig, "%s%s=%v;", at, p.lbl, ex)
		if ex != want {
			q.diff = fmt.Sprintf("%s%s exist=%v, reference %v", at, p.lbl, ex, want)
			return
		}
		if !ex {
			continue
		}
		if subAll {
			q.everything(sub, p.et, at+p.lbl, depth-1)
		} else {
			q.query(sub, rn, false, p.et, at+p.lbl, depth-1)
		}
		if q.diff != "" {
			return
		}
	}
}

// signature: the answers of a mask to the whole query set (no reference).
func signature(m *fieldmask.FieldMask, t *rtype, depth int) string {
	var sb strings.Builder
	var rec func(m *fieldmask.FieldMask, t *rtype, at string, d int)
	rec = func(m *fieldmask.FieldMask, t *rtype, at string, d int) {
		if d == 0 {
			return
		}
		ask := func(lbl string, sub *fieldmask.FieldMask, ex bool, et *rtype) {
			fmt.Fprintf(&sb, "%s%s=%v;", at, lbl, ex)
			if ex {
				rec(sub, et, at+lbl, d-1)
			}
		}
		switch t.kind {
		case kStruct:
			for _, f := range t.fields {
				s, e := m.Field(int16(f.id))
				ask(fmt.Sprintf(".F%d", f.id), s, e, f.t)
			}
		case kList:
			for _, i := range []int{0, 1, 2, 7} {
				s, e := m.Int(i)
				ask(fmt.Sprintf(".I%d", i), s, e, t.elem)
			}
		case kIntMap:
			for _, i := range []int{1, 2, 3} {
				s, e := m.Int(i)
				ask(fmt.Sprintf(".I%d", i), s, e, t.elem)
			}
		case kStrMap:
			for _, k := range []string{"a", "b", "zz"} {
				s, e := m.Str(k)
				ask(".S"+k, s, e, t.elem)
			}
		}
	}
	rec(m, t, "$", depth)
	return sb.String()
}

// ---------------------------------------------------------------- driver

type ctx struct {
	run   *evid.Run
	descs map[string]*thrift_reflection.TypeDescriptor
	rt    map[string]*rtype
	cnt   sync.Map
}

func (c *ctx) inc(k string) {
	v, _ := c.cnt.LoadOrStore(k, new(int64))
	atomic.AddInt64(v.(*int64), 1)
}

func getDesc(fd *thrift_reflection.FileDescriptor, root string) *thrift_reflection.TypeDescriptor {
	st := fd.GetStructDescriptor(root)
	return &thrift_reflection.TypeDescriptor{Filepath: st.Filepath, Name: st.Name,
		Extra: map[string]string{thrift_reflection.GLOBAL_UUID_EXTRA_KEY: st.Extra[thrift_reflection.GLOBAL_UUID_EXTRA_KEY]}}
}

type built struct {
	m     *fieldmask.FieldMask
	err   error
	panic string
}

func newMask(desc *thrift_reflection.TypeDescriptor, black bool, paths []string) (b built) {
	defer func() {
		if x := recover(); x != nil {
			b.panic = fmt.Sprint(x)
		}
	}()
	b.m, b.err = fieldmask.Options{BlackListMode: black}.NewFieldMask(desc, paths...)
	return
}

func guard(f func()) (p string) {
	defer func() {
		if x := recover(); x != nil {
			p = fmt.Sprint(x)
		}
	}()
	f()
	return
}

func panicClass(p string) string {
	for _, cut := range []string{" [", "0x", ": parsing"} {
		if i := strings.Index(p, cut); i > 0 {
			p = p[:i]
		}
	}
	return strings.TrimSpace(p)
}

func texts(ps []path) []string {
	s := make([]string, len(ps))
	for i, p := range ps {
		s[i] = p.text
	}
	return s
}

// split one multi-element step into single-element paths (a different grouping)
func regroup(ps []path) []path {
	var out []path
	for _, p := range ps {
		done := false
		for i, s := range p.steps {
			if (s.kind == "idx" || s.kind == "ikey") && len(s.ids) > 1 {
				for _, id := range s.ids {
					q := path{steps: append([]step{}, p.steps...)}
					q.steps[i] = step{kind: s.kind, ids: []int{id}}
					if s.kind == "idx" {
						q.steps[i].text = fmt.Sprintf("[%d]", id)
					} else {
						q.steps[i].text = fmt.Sprintf("{%d}", id)
					}
					q.text = "$"
					for _, st := range q.steps {
						q.text += st.text
					}
					out = append(out, q)
				}
				done = true
				break
			}
			if s.kind == "skey" && len(s.strs) > 1 {
				for _, k := range s.strs {
					q := path{steps: append([]step{}, p.steps...)}
					q.steps[i] = step{kind: "skey", strs: []string{k}, text: fmt.Sprintf("{%q}", k)}
					q.text = "$"
					for _, st := range q.steps {
						q.text += st.text
					}
					out = append(out, q)
				}
				done = true
				break
			}
		}
		if !done {
			out = append(out, p)
		}
	}
	return out
}

func perms(n int) [][]int {
	if n == 1 {
		return [][]int{{0}}
	}
	var out [][]int
	for _, p := range perms(n - 1) {
		for i := 0; i <= len(p); i++ {
			q := append(append(append([]int{}, p[:i]...), n-1), p[i:]...)
			out = append(out, q)
		}
	}
	return out
}

func (c *ctx) checkList(root string, ps []path, black bool) {
	t := c.rt[root]
	desc := c.descs[root]
	ref := build(ps)
	class := classify(ref, t)
	if black && ref.complete {
		return // "$" in a black list rejects the root itself; nothing to query
	}
	mode := "white"
	if black {
		mode = "black"
	}
	replay := map[string]any{"root": root, "paths": texts(ps), "black": black}
	c.run.Eval(fmt.Sprint(root, black, texts(ps)), true)
	c.inc("lists-" + class)
	var sigs []string
	var jsons []string
	variants := [][]path{}
	for _, pm := range perms(len(ps)) {
		v := make([]path, len(ps))
		for i, k := range pm {
			v[i] = ps[k]
		}
		variants = append(variants, v)
	}
	if g := regroup(ps); len(g) != len(ps) {
		variants = append(variants, g)
	}
	for vi, v := range variants {
		b := newMask(desc, black, texts(v))
		if b.panic != "" {
			c.run.Violate(evid.Violation{Class: "panic:NewFieldMask:" + panicClass(b.panic), What: fmt.Sprintf("NewFieldMask(%s, %v) panicked: %s", root, texts(v), b.panic), Replay: replay})
			return
		}
		if class == "star-mixed" {
			continue
		}
		if b.err != nil {
			if class == "prefix" {
				c.inc("prefix-list-rejected")
				continue
			}
			c.run.Violate(evid.Violation{Class: "valid-paths-rejected:" + mode, What: fmt.Sprintf("NewFieldMask(%s, %v): %v", root, texts(v), firstLine(b.err.Error())), Replay: replay})
			return
		}
		q := &qctx{black: black, sig: &strings.Builder{}}
		if p := guard(func() { q.query(b.m, ref, false, t, "$", 4) }); p != "" {
			c.run.Violate(evid.Violation{Class: "panic:query:" + panicClass(p), What: fmt.Sprintf("querying mask of %v panicked: %s", texts(v), p), Replay: replay})
			return
		}
		if q.diff != "" {
			c.run.Violate(evid.Violation{Class: "wrong-answer:" + mode + ":" + class + ":" + shape(q.diff), What: fmt.Sprintf("mask(%s, %v, %s): %s", root, texts(v), mode, q.diff), Replay: replay})
			return
		}
		sig := signature(b.m, t, 4)
		sigs = append(sigs, sig)
		// JSON: stable text, round trip preserves all answers
		var j1, j2 []byte
		var e1 error
		if p := guard(func() { j1, e1 = b.m.MarshalJSON(); j2, _ = b.m.MarshalJSON() }); p != "" || e1 != nil {
			c.run.Violate(evid.Violation{Class: "json-marshal-failed", What: fmt.Sprintf("MarshalJSON of mask %v: %v %s", texts(v), e1, p), Replay: replay})
			return
		}
		if string(j1) != string(j2) {
			c.run.Violate(evid.Violation{Class: "json-unstable", What: fmt.Sprintf("two MarshalJSON calls differ for %v", texts(v)), Replay: replay})
			return
		}
		jsons = append(jsons, string(j1))
		back := new(fieldmask.FieldMask)
		var ue error
		if p := guard(func() { ue = back.UnmarshalJSON(j1) }); p != "" || ue != nil {
			c.run.Violate(evid.Violation{Class: "json-unmarshal-failed", What: fmt.Sprintf("UnmarshalJSON(MarshalJSON(mask %v)): %v %s; json=%s", texts(v), ue, p, j1), Replay: replay})
			return
		}
		var sig2 string
		if p := guard(func() { sig2 = signature(back, t, 4) }); p != "" {
			c.run.Violate(evid.Violation{Class: "panic:query-after-json:" + panicClass(p), What: fmt.Sprintf("querying the JSON round-tripped mask of %v panicked: %s", texts(v), p), Replay: replay})
			return
		}
		if sig2 != sig {
			c.run.Violate(evid.Violation{Class: "json-roundtrip-changed:" + mode, What: fmt.Sprintf("mask %v answers differently after JSON round trip (json=%s): %s", texts(v), j1, firstDiff(sig, sig2)), Replay: replay})
			return
		}
		if vi == 0 {
			// path membership: every path of the list is in the white mask
			if !black {
				for _, p := range v {
					var in bool
					if pp := guard(func() { in = b.m.PathInMask(desc, p.text) }); pp != "" {
						c.run.Violate(evid.Violation{Class: "panic:PathInMask:" + panicClass(pp), What: fmt.Sprintf("PathInMask(%q) panicked: %s", p.text, pp), Replay: replay})
						return
					}
					if !in && !hasStar(p) {
						c.run.Violate(evid.Violation{Class: "path-not-in-own-mask", What: fmt.Sprintf("mask built from %v says path %q is not in it", texts(v), p.text), Replay: replay})
						return
					}
				}
			}
		}
	}
	if class == "clean" {
		for i := 1; i < len(sigs); i++ {
			if sigs[i] != sigs[0] {
				c.run.Violate(evid.Violation{Class: "order-dependent:" + mode, What: fmt.Sprintf("paths %v: answers depend on order/grouping: %s", texts(ps), firstDiff(sigs[0], sigs[i])), Replay: replay})
				return
			}
		}
	}
	_ = jsons
}

func hasStar(p path) bool {
	for _, s := range p.steps {
		if s.kind == "star" {
			return true
		}
	}
	return false
}

func shape(d string) string {
	// "$.Field(2).Int(1) exist=false, reference true" -> query kinds only
	f := strings.Fields(d)
	if len(f) == 0 {
		return ""
	}
	q := f[0]
	var sb strings.Builder
	for _, part := range strings.Split(q, ".") {
		if i := strings.IndexByte(part, '('); i > 0 {
			sb.WriteString(part[:i] + ".")
		}
	}
	return sb.String() + strings.Join(f[1:], "")
}

func firstDiff(a, b string) string {
	x, y := strings.Split(a, ";"), strings.Split(b, ";")
	for i := range x {
		if i >= len(y) || x[i] != y[i] {
			o := ""
			if i < len(y) {
				o = y[i]
			}
			return fmt.Sprintf("%q vs %q", x[i], o)
		}
	}
	return "length differs"
}

func firstLine(s string) string {
	if i := strings.IndexByte(s, '\n'); i >= 0 {
		return s[:i]
	}
	return s
}

func parallel(n int, f func(i int)) {
	var wg sync.WaitGroup
	ch := make(chan int, 256)
	for w := 0; w < runtime.NumCPU(); w++ {
		wg.Add(1)
		go func() {
			defer wg.Done()
			for i := range ch {
				f(i)
			}
		}()
	}
	for i := 0; i < n; i++ {
		ch <- i
	}
	close(ch)
	wg.Wait()
}

func main() {
	replay := flag.String("replay", "", "replay file")
	run := evid.New("C14", "model_checking")
	ast, err := parser.ParseString("c14.thrift", idlText)
	if err != nil {
		run.Fatal("idl: %v", err)
	}
	_, fd := thrift_reflection.RegisterAST(ast)
	c := &ctx{run: run, descs: map[string]*thrift_reflection.TypeDescriptor{}, rt: refTypes()}
	for _, r := range []string{"Root", "Mid", "RootNeg", "Tdr", "Big"} {
		c.descs[r] = getDesc(fd, r)
	}
	if *replay != "" {
		b, _ := os.ReadFile(*replay)
		var r struct {
			Replay struct {
				Root  string   `json:"root"`
				Paths []string `json:"paths"`
				Black bool     `json:"black"`
				Input string   `json:"input"`
			} `json:"replay"`
		}
		_ = json.Unmarshal(b, &r)
		if r.Replay.Input != "" {
			c.oneString(r.Replay.Input)
		} else {
			bm := newMask(c.descs[r.Replay.Root], r.Replay.Black, r.Replay.Paths)
			fmt.Printf("err=%v panic=%q\n", bm.err, bm.panic)
			if bm.m != nil {
				fmt.Println(signature(bm.m, c.rt[r.Replay.Root], 4))
			}
		}
		run.Finish()
		return
	}
	thorough := run.Thorough()
	if thorough {
		run.SetBudget(45 * time.Minute)
	}

	// ---- (a) valid path lists
	var transitions int64
	for _, root := range []string{"Mid", "Root", "RootNeg", "Tdr", "Big"} {
		depth := 3
		if root == "Root" {
			depth = 2
		}
		paths := enumPaths(c.rt[root], depth, false)
		paths = append(paths, enumPaths(c.rt[root], 2, true)[1:]...)
		// dedupe by text
		seen := map[string]bool{}
		var ps []path
		for _, p := range paths {
			if !seen[p.text] {
				seen[p.text] = true
				ps = append(ps, p)
			}
		}
		run.Set("paths_"+root, len(ps))
		// singles
		for _, black := range []bool{false, true} {
			black := black
			parallel(len(ps), func(i int) { c.checkList(root, []path{ps[i]}, black) })
			atomic.AddInt64(&transitions, int64(len(ps)))
			// pairs (unordered; all orders are tried inside checkList)
			n := len(ps)
			parallel(n, func(i int) {
				for j := i + 1; j < n; j++ {
					c.checkList(root, []path{ps[i], ps[j]}, black)
				}
			})
			atomic.AddInt64(&transitions, int64(n*(n-1)/2))
			if thorough && root != "Root" {
				// triples over a thinned path set
				var th []path
				for k, p := range ps {
					if len(p.steps) <= 2 || k%3 == 0 {
						th = append(th, p)
					}
				}
				if len(th) > 70 {
					th = th[:70]
				}
				m := len(th)
				parallel(m, func(i int) {
					if run.OverBudget() {
						return
					}
					for j := i + 1; j < m; j++ {
						for k := j + 1; k < m; k++ {
							c.checkList(root, []path{th[i], th[j], th[k]}, black)
						}
					}
				})
				atomic.AddInt64(&transitions, int64(m*(m-1)*(m-2)/6))
			}
		}
	}

	// ---- (b) arbitrary strings
	alpha := []byte{'$', '.', '[', ']', '{', '}', ',', '*', '"', '\\', 'L', '1', '-'}
	maxLen := 6
	if thorough {
		maxLen = 7
	}
	var nstr int64
	n := len(alpha)
	parallel(n*n, func(sh int) {
		if run.OverBudget() {
			return
		}
		buf := make([]byte, 0, maxLen)
		cnt := int64(0)
		var rec func()
		rec = func() {
			c.oneString(string(buf))
			cnt++
			if len(buf) == maxLen {
				return
			}
			for _, b := range alpha {
				buf = append(buf, b)
				rec()
				buf = buf[:len(buf)-1]
			}
		}
		buf = append(buf, alpha[sh/n], alpha[sh%n])
		rec()
		atomic.AddInt64(&nstr, cnt)
	})
	for _, s := range []string{"", "$", "$.32767", "$.32768", "$.65536", "$.2147483647", "$.2147483648", "$.4294967296", "$.9223372036854775807", "$.9223372036854775808", "$.99999999999999999999",
		"$.Ls[2147483648]", "$.Ls[9223372036854775808]", "$.Im{9223372036854775807}", "$.Im{99999999999999999999}", "$.Im{-1}", "$.Ls[-1]", "$.-1", "$.Sm{\"\\u00e9\\\"\"}", "$.Sm{\"a}", "$.Sm{\"\\", "$.L.*.A", "$.*.*", "$.Ls[*][*]", "$.Dm{1}", "$.Dm{\"a\"}", "$.Dm{*}.A", "$.St[1].A", "$.X.Y", "$.L[1]", "$.Ls{1}", "$.Sm[1]", "$.Sm{1}", "$.Im{\"a\"}"} {
		c.oneString(s)
		nstr++
	}
	// paths that name nothing the descriptor has (unknown field by name / id incl. ids that only
	// match after truncation to 32 or 16 bits, wrong container kind, key kind mismatch): NewFieldMask
	// must return an error and PathInMask must say no
	for _, s := range []string{"$.Nope", "$.9", "$.32767", "$.65537", "$.2147483647", "$.2147483648", "$.4294967296", "$.4294967297", "$.4294967298", "$.8589934593", "$.18446744073709551617",
		"$.L.3", "$.L.Zz", "$.L.4294967297", "$.Ls[0].4294967298", "$.X.Y", "$.X.1", "$.L[1]", "$.L{1}", "$.L{\"a\"}", "$.Ls{1}", "$.Ls{\"a\"}", "$.Sm[1]", "$.Sm{1}", "$.Im{\"a\"}", "$.Im[1]", "$.St[1].A", "$.St{1}", "$.X[0]", "$.X{*}"} {
		nstr++
		for _, black := range []bool{false, true} {
			b := newMask(c.descs["Mid"], black, []string{s})
			if b.panic != "" {
				continue // reported by oneString
			}
			if b.err == nil {
				run.Violate(evid.Violation{Class: "invalid-path-accepted:" + s, What: fmt.Sprintf("NewFieldMask(Mid, black=%v, %q) succeeds although the path names nothing in the descriptor", black, s), Replay: map[string]any{"input": s, "black": black}})
				break
			}
		}
		c.oneString(s)
	}
	run.Set("arbitrary_strings", map[string]any{"alphabet": string(alpha), "max_len": maxLen, "count": nstr})
	run.EvalN("", nstr, nstr-1)

	// ---- (c) JSON documents
	njson := c.jsonDocs(thorough)
	run.Set("json_documents", njson)
	run.EvalN("", njson, njson)

	out := map[string]int64{}
	c.cnt.Range(func(k, v any) bool { out[k.(string)] = *(v.(*int64)); return true })
	run.Set("outcome_classes", out)
	st := int64(0)
	for k, v := range out {
		if strings.HasPrefix(k, "lists-") {
			st += v
		}
	}
	run.Set("states", st)
	run.Set("transitions", st*3+nstr+njson)
	run.Set("traces_validated_against_impl", st+nstr+njson)
	run.Sample(map[string]any{"root": "Mid", "paths": []string{"$.Ls[0,1].A", "$.Sm{\"a\"}"}, "black": false})
	run.Sample(map[string]any{"input": "$.L{\"1"})
	run.Set("rule", "(a) one evaluation = one path list (all permutations and one regrouping built, every node to depth 4 queried, JSON round trip) x white/black; (b) one arbitrary string through NewFieldMask/GetPath/PathInMask under recover; (c) one JSON document through UnmarshalJSON/Unmarshal and follow-up queries under recover; non-trivial = non-empty input")
	run.Assume("reference semantics: trie of the union of paths; white: child present iff node complete, '*' step or child in trie; black: child absent iff it ends a complete path; lists mixing '*' with a specific child at one position are only checked for panics")
	run.Finish()
}

// oneString feeds an arbitrary string to every entry point that takes a path.
func (c *ctx) oneString(s string) {
	desc := c.descs["Mid"]
	for _, black := range []bool{false, true} {
		b := newMask(desc, black, []string{s})
		if b.panic != "" {
			c.run.Violate(evid.Violation{Class: "panic:NewFieldMask:" + panicClass(b.panic), What: fmt.Sprintf("NewFieldMask(Mid, %q) panicked: %s", s, b.panic), Replay: map[string]any{"input": s}})
			return
		}
		if b.err == nil {
			c.inc("string-accepted")
		} else {
			c.inc("string-rejected")
		}
	}
	base := newMask(desc, false, []string{"$.L.A", "$.Ls[1]", "$.Sm{\"a\"}.B", "$.Im{*}"})
	if base.m == nil {
		return
	}
	if p := guard(func() { base.m.PathInMask(desc, s); base.m.GetPath(desc, s) }); p != "" {
		c.run.Violate(evid.Violation{Class: "panic:GetPath:" + panicClass(p), What: fmt.Sprintf("GetPath/PathInMask(%q) panicked: %s", s, p), Replay: map[string]any{"input": s}})
	}
}

// jsonDocs enumerates a depth-2 grammar of mask documents.
func (c *ctx) jsonDocs(thorough bool) int64 {
	pathsV := []string{`"$"`, `"*"`, `0`, `1`, `-1`, `63`, `64`, `70000`, `1.5`, `"x"`, `null`, `{}`, `[1]`, `true`, `99999999999`, ``}
	typesV := []string{`"Struct"`, `"List"`, `"StrMap"`, `"IntMap"`, `"Scalar"`, `"Invalid"`, `"Bogus"`, `5`, `null`, ``}
	blackV := []string{`true`, `false`, `"x"`, ``}
	mk := func(p, t, b, kids string) string {
		var m []string
		if p != "" {
			m = append(m, `"path":`+p)
		}
		if t != "" {
			m = append(m, `"type":`+t)
		}
		if b != "" {
			m = append(m, `"is_black":`+b)
		}
		if kids != "" {
			m = append(m, `"children":`+kids)
		}
		return "{" + strings.Join(m, ",") + "}"
	}
	// leaves
	var leaves []string
	for _, p := range pathsV {
		for _, t := range typesV {
			leaves = append(leaves, mk(p, t, "", ""))
		}
	}
	if !thorough {
		// thin the leaves for the pair position
	}
	var kidsV []string
	kidsV = append(kidsV, ``, `[]`, `null`, `{}`, `[null]`, `[1]`)
	for _, l := range leaves {
		kidsV = append(kidsV, "["+l+"]")
	}
	step := 7
	if thorough {
		step = 1
	}
	for i := 0; i < len(leaves); i += step {
		for j := 0; j < len(leaves); j += step {
			kidsV = append(kidsV, "["+leaves[i]+","+leaves[j]+"]")
		}
	}
	// one nested level: child with its own children
	for i := 0; i < len(leaves); i += 5 {
		for _, t := range typesV[:5] {
			kidsV = append(kidsV, "["+mk(`1`, t, "", "["+leaves[i]+"]")+"]", "["+mk(`"a"`, t, "", "["+leaves[i]+"]")+"]", "["+mk(`"*"`, t, "", "["+leaves[i]+"]")+"]")
		}
	}
	var docs []string
	for _, p := range []string{`"$"`, `"*"`, `1`, ``, `null`} {
		for _, t := range typesV {
			for _, b := range blackV {
				for _, k := range kidsV {
					if p != `"$"` && len(k) > 40 {
						continue
					}
					docs = append(docs, mk(p, t, b, k))
				}
			}
		}
	}
	docs = append(docs, ``, `null`, `[]`, `1`, `"$"`, `{`, `{"path":"$","type":"Struct","children":[{"path":1,"type":"Struct","children":[{"path":1,"type":"Scalar"}]}]}`)
	var n int64
	parallel(len(docs), func(i int) {
		d := docs[i]
		atomic.AddInt64(&n, 1)
		var m *fieldmask.FieldMask
		var err error
		p := guard(func() {
			m = new(fieldmask.FieldMask)
			err = m.UnmarshalJSON([]byte(d))
			if err != nil {
				m = nil
			}
		})
		if p != "" {
			c.run.Violate(evid.Violation{Class: "panic:UnmarshalJSON:" + panicClass(p), What: fmt.Sprintf("UnmarshalJSON(%s) panicked: %s", d, p), Replay: map[string]any{"json": d}})
			return
		}
		if p := guard(func() { _, _ = fieldmask.Unmarshal([]byte(d)) }); p != "" {
			c.run.Violate(evid.Violation{Class: "panic:Unmarshal:" + panicClass(p), What: fmt.Sprintf("Unmarshal(%s) panicked: %s", d, p), Replay: map[string]any{"json": d}})
			return
		}
		if m == nil {
			c.inc("json-rejected")
			return
		}
		c.inc("json-accepted")
		// an accepted document yields a mask that must be usable: type-appropriate queries and re-marshalling
		if p := guard(func() {
			m.Exist()
			m.All()
			switch m.Type() {
			case fieldmask.FtStruct:
				for _, id := range []int16{0, 1, 63, 64, 100} {
					s, _ := m.Field(id)
					s.All()
				}
			case fieldmask.FtList, fieldmask.FtIntMap:
				for _, id := range []int{0, 1, -1} {
					s, _ := m.Int(id)
					s.All()
				}
			case fieldmask.FtStrMap:
				for _, k := range []string{"a", ""} {
					s, _ := m.Str(k)
					s.All()
				}
			}
			_, _ = m.MarshalJSON()
			_, _ = fieldmask.Marshal(m)
		}); p != "" {
			c.run.Violate(evid.Violation{Class: "panic:use-after-unmarshal:" + panicClass(p), What: fmt.Sprintf("mask from accepted JSON %s panicked when used: %s", d, p), Replay: map[string]any{"json": d}})
		}
	})
	_ = sort.Strings
	return n
}
