// C17 — dumping an AST to IDL text and parsing it back gives the same IDL.
//
// Bounded-exhaustive, in-process: for every document of the universe
//
//	text --parse--> AST1 --dump.DumpIDL--> text2 --parse--> AST2
//
// text2 must parse, AST2 must equal AST1 in every field the property names
// (comments excluded; a double may come back as an integer of equal value), and
// when AST1 passes the semantic checker AST2 must pass it too.
//
// Universe: the C03 document universe; the valid multi-file interplay
// program; every literal position (const, default, annotation on every node
// kind, include / cpp_include path) filled with every string of length <= 3
// (thorough 4) over {a " ' & < # \ ; space} in both quote styles (kept when
// the source parses); doubles; args/throws lists of every length pair 0..3 x 0..3.
package main

import (
	"flag"
	"fmt"
	"math"
	"os"
	"reflect"
	"runtime"
	"strings"
	"sync"

	"verif/internal/docs"
	"verif/internal/evid"
	"verif/internal/idl"
	"verif/internal/idlast"

	"github.com/cloudwego/thriftgo/parser"
	"github.com/cloudwego/thriftgo/semantic"
	"github.com/cloudwego/thriftgo/tool/trimmer/dump"
)

type res struct {
	ast   *parser.Thrift
	err   error
	panic string
}

func parse(path, text string) (r res) {
	defer func() {
		if x := recover(); x != nil {
			r.panic = fmt.Sprint(x)
		}
	}()
	r.ast, r.err = parser.ParseString(path, text)
	return
}

func dumpIDL(a *parser.Thrift) (s string, err error, pan string) {
	defer func() {
		if x := recover(); x != nil {
			pan = fmt.Sprint(x)
		}
	}()
	s, err = dump.DumpIDL(a)
	return
}

// normDoubles: "a double may be re-read as an integer literal of equal value".
func normValue(v *parser.ConstValue) {
	if v == nil || v.TypedValue == nil {
		return
	}
	tv := v.TypedValue
	if v.Type == parser.ConstType_ConstDouble && tv.Double != nil {
		d := *tv.Double
		if d == math.Trunc(d) && math.Abs(d) < 9e18 {
			i := int64(d)
			v.Type = parser.ConstType_ConstInt
			v.TypedValue = &parser.ConstTypedValue{Int: &i}
		}
		return
	}
	for _, e := range tv.List {
		normValue(e)
	}
	for _, kv := range tv.Map {
		normValue(kv.Key)
		normValue(kv.Value)
	}
}

// reconcile: where the original holds a double and the re-read AST an integer literal that
// converts to exactly that double, the re-read value is replaced by the original's (the
// property allows a double to be re-read as an integer literal of equal value; beyond 2^53
// the shortest decimal spelling of a double is an integer that is not the double's exact
// integer value but still converts to it).
func reconcileValue(o, b *parser.ConstValue) {
	if o == nil || b == nil || o.TypedValue == nil || b.TypedValue == nil {
		return
	}
	if o.Type == parser.ConstType_ConstDouble && b.Type == parser.ConstType_ConstInt && o.TypedValue.Double != nil && b.TypedValue.Int != nil {
		if float64(*b.TypedValue.Int) == *o.TypedValue.Double {
			d := *o.TypedValue.Double
			b.Type = parser.ConstType_ConstDouble
			b.TypedValue = &parser.ConstTypedValue{Double: &d}
		}
		return
	}
	for i := range o.TypedValue.List {
		if i < len(b.TypedValue.List) {
			reconcileValue(o.TypedValue.List[i], b.TypedValue.List[i])
		}
	}
	for i := range o.TypedValue.Map {
		if i < len(b.TypedValue.Map) {
			reconcileValue(o.TypedValue.Map[i].Key, b.TypedValue.Map[i].Key)
			reconcileValue(o.TypedValue.Map[i].Value, b.TypedValue.Map[i].Value)
		}
	}
}

func reconcileAST(o, b *parser.Thrift) {
	for i := range o.Constants {
		if i < len(b.Constants) {
			reconcileValue(o.Constants[i].Value, b.Constants[i].Value)
		}
	}
	os, bs := o.GetStructLikes(), b.GetStructLikes()
	for i := range os {
		if i < len(bs) {
			for j := range os[i].Fields {
				if j < len(bs[i].Fields) {
					reconcileValue(os[i].Fields[j].Default, bs[i].Fields[j].Default)
				}
			}
		}
	}
}

func normAST(t *parser.Thrift) {
	for _, c := range t.Constants {
		normValue(c.Value)
	}
	for _, s := range t.GetStructLikes() {
		for _, f := range s.Fields {
			normValue(f.Default)
		}
	}
	for _, s := range t.Services {
		for _, fn := range s.Functions {
			for _, f := range fn.Arguments {
				normValue(f.Default)
			}
			for _, f := range fn.Throws {
				normValue(f.Default)
			}
		}
	}
}

func semOK(t *parser.Thrift) (ok bool) {
	defer func() {
		if recover() != nil {
			ok = false
		}
	}()
	if _, err := semantic.NewChecker(semantic.Options{FixWarnings: false}).CheckAll(t); err != nil {
		return false
	}
	return semantic.ResolveSymbols(t) == nil
}

type ctx struct {
	run *evid.Run
	mu  sync.Mutex
	out map[string]int64
}

func (c *ctx) count(k string) {
	c.mu.Lock()
	c.out[k]++
	c.mu.Unlock()
}

var skip = func() idlast.Skip {
	s := idlast.Skip{}
	for k := range idlast.ParseOnly {
		s[k] = true
	}
	return s
}()

// roundTrip checks one document. family names the shape (used in the class).
func (c *ctx) roundTrip(family, text string, withSem bool) {
	r1 := parse("doc.thrift", text)
	if r1.panic != "" || r1.err != nil {
		c.count("source-not-accepted")
		c.run.Eval("", false)
		return
	}
	c.run.Eval(text, len(r1.ast.GetStructLikes())+len(r1.ast.Constants)+len(r1.ast.Typedefs)+len(r1.ast.Enums)+len(r1.ast.Services) > 0)
	t2, err, pan := dumpIDL(r1.ast)
	if pan != "" {
		c.run.Violate(evid.Violation{Class: "dump-panic:" + family, What: "DumpIDL panicked: " + pan, Replay: map[string]any{"text": text}})
		return
	}
	if err != nil {
		c.run.Violate(evid.Violation{Class: "dump-error:" + family, What: "DumpIDL failed: " + err.Error(), Replay: map[string]any{"text": text}})
		return
	}
	r2 := parse("doc.thrift", t2)
	if r2.panic != "" || r2.err != nil {
		c.run.Violate(evid.Violation{Class: "reparse-failed:" + family, What: fmt.Sprintf("dumped text is not accepted by the parser: %v %s", firstLine(fmt.Sprint(r2.err)), r2.panic), Replay: map[string]any{"text": text, "dumped": t2}})
		return
	}
	a1, a2 := r1.ast, r2.ast
	reconcileAST(a1, a2)
	normAST(a1)
	normAST(a2)
	if p, w := idlast.Diff(a1, a2, skip); p != "" {
		cls := "ast-changed:" + family + ":" + p
		if strings.HasSuffix(family, ":odd-backslashes-before-dquote") || (strings.HasPrefix(family, "literal:") && hasOddBackslashQuote(reflect.ValueOf(r1.ast))) {
			// one root cause wherever the literal stands (see known_findings.json)
			cls = "ast-changed:literal:odd-backslashes-before-dquote"
		}
		c.run.Violate(evid.Violation{Class: cls, What: fmt.Sprintf("AST%s differs after dump+parse: original/reparsed %s", p, w), Replay: map[string]any{"text": text, "dumped": t2}})
		return
	}
	if withSem && len(a1.Includes) == 0 {
		if semOK(a1) {
			c.count("semantically-valid")
			if !semOK(a2) {
				c.run.Violate(evid.Violation{Class: "semantic-lost:" + family, What: "original passes the semantic checker, the dumped text does not", Replay: map[string]any{"text": text, "dumped": t2}})
				return
			}
		}
	}
	c.count("round-trip-ok")
}

// hasOddBackslashQuote: some string of the AST contains a double quote preceded
// by an odd number of backslashes.
func hasOddBackslashQuote(v reflect.Value) bool {
	switch v.Kind() {
	case reflect.Ptr, reflect.Interface:
		if v.IsNil() {
			return false
		}
		return hasOddBackslashQuote(v.Elem())
	case reflect.Struct:
		for i := 0; i < v.NumField(); i++ {
			if v.Type().Field(i).IsExported() && v.Type().Field(i).Name != "Reference" && hasOddBackslashQuote(v.Field(i)) {
				return true
			}
		}
	case reflect.Slice:
		for i := 0; i < v.Len(); i++ {
			if hasOddBackslashQuote(v.Index(i)) {
				return true
			}
		}
	case reflect.String:
		s := v.String()
		for i := 0; i < len(s); i++ {
			if s[i] == '"' {
				n := 0
				for k := i - 1; k >= 0 && s[k] == '\\'; k-- {
					n++
				}
				if n%2 == 1 {
					return true
				}
			}
		}
	}
	return false
}

func firstLine(s string) string {
	if i := strings.IndexByte(s, '\n'); i >= 0 {
		return s[:i]
	}
	return s
}

func parallel(n int, f func(i int)) {
	var wg sync.WaitGroup
	ch := make(chan int, 256)
	for w := 0; w < runtime.NumCPU(); w++ {
		wg.Add(1)
		go func() {
			defer wg.Done()
			for i := range ch {
				f(i)
			}
		}()
	}
	for i := 0; i < n; i++ {
		ch <- i
	}
	close(ch)
	wg.Wait()
}

func main() {
	replay := flag.String("replay", "", "replay file")
	run := evid.New("C17", "exploration")
	c := &ctx{run: run, out: map[string]int64{}}
	if *replay != "" {
		b, _ := os.ReadFile(*replay)
		s := string(b)
		i := strings.Index(s, `"text": "`)
		if i < 0 {
			os.Exit(3)
		}
		var text string
		fmt.Sscanf(s[i+8:], "%q", &text)
		c.roundTrip("replay", text, true)
		run.Finish()
		return
	}
	thorough := run.Thorough()

	// 1. the C03 universe
	ds := docs.Documents(thorough)
	parallel(len(ds), func(i int) {
		text, _, _, _, _ := idl.RenderTokens(idl.Tokens(ds[i].File), idl.Baseline())
		fam := ds[i].Name
		if j := strings.Index(fam, "+"); j >= 0 {
			fam = fam[j+1:]
		}
		if strings.Count(fam, "+") > 0 {
			fam = "multi"
		}
		c.roundTrip("doc:"+fam, text, true)
	})
	run.Set("universe_documents", len(ds))

	// 2. the valid interplay program, file by file (each file with its includes parsed)
	ip := docs.Interplay()
	texts := docs.Texts(ip.Prog)
	for _, f := range ip.Prog.Files {
		c.interplay(f.Path, texts)
	}

	// 3. literal positions x strings x quote
	alpha := []string{"a", `"`, `'`, "&", "<", "#", `\`, ";", " "}
	maxLen := 3
	if thorough {
		maxLen = 4
	}
	var strs []string
	var rec func(cur string, n int)
	rec = func(cur string, n int) {
		strs = append(strs, cur)
		if n == maxLen {
			return
		}
		for _, a := range alpha {
			rec(cur+a, n+1)
		}
	}
	rec("", 0)
	// HTML-entity look-alikes (the dumper passes text through html escaping): named and numeric
	// entities with and without the closing semicolon, inside ordinary text
	strs = append(strs, "?q=go&lt=10", "title=Demo&section=3", "a&ampb", "&amp", "&amp;", "&lt;", "&gt", "&quot", "&quot;x", "&#38", "&#38;", "&#x26;", "&copy", "&copy;", "&sect1", "&nbsp", "AT&T", "a&b;c", "&&amp;&", "&#", "&#;", "&lt&gt")
	holes := []struct{ name, pre, post string }{
		// name = <group>/<position>; the group (code path in the dumper) is part of the class
		{"value/const-string", "const string c = ", "\n"},
		{"value/field-default", "struct S { 1: string f = ", " }\n"},
		{"value/const-list-elem", "const list<string> c = [ ", ", \"z\" ]\n"},
		{"value/const-map-key", "const map<string,i32> c = { ", ": 1 }\n"},
		{"value/ann-struct", "struct S { 1: i32 a } (k = ", ")\n"},
		{"value/ann-field", "struct S { 1: i32 a (k = ", ") }\n"},
		{"type-annotation/ann-type", "struct S { 1: string (k = ", ") a }\n"},
		{"value/ann-typedef", "typedef i32 T (k = ", ")\n"},
		{"value/ann-enum", "enum E { A } (k = ", ")\n"},
		{"value/ann-enumvalue", "enum E { A = 1 (k = ", ") }\n"},
		{"value/ann-service", "service V { void f() } (k = ", ")\n"},
		{"value/ann-function", "service V { void f() (k = ", ") }\n"},
		{"value/ann-namespace", "namespace go a.b (k = ", ")\n"},
		{"value/ann-const", "const i32 c = 1 (k = ", ")\n"},
		{"value/ann-two-values", "struct S { 1: i32 a } (k = \"x\", k = ", ")\n"},
		{"include/include-path", "include ", "\n"},
		{"cpp_include/cpp-include", "cpp_include ", "\n"},
	}
	type job struct {
		hole int
		s    string
		q    byte
	}
	var jobs []job
	for h := range holes {
		for _, s := range strs {
			jobs = append(jobs, job{h, s, '"'}, job{h, s, '\''})
		}
	}
	parallel(len(jobs), func(i int) {
		j := jobs[i]
		h := holes[j.hole]
		// the source literal body is written verbatim: whether it is one complete
		// literal is decided by the parser (sources it rejects are not "accepted IDL")
		text := h.pre + string(j.q) + j.s + string(j.q) + h.post
		c.roundTrip("literal:"+strings.SplitN(h.name, "/", 2)[0]+":"+litClass(j.s, j.q), text, false)
	})
	run.Set("literal_strings", map[string]any{"alphabet": alpha, "max_len": maxLen, "strings": len(strs), "positions": len(holes), "documents": len(jobs)})

	// 4. doubles
	for _, d := range []string{"0.5", "1.5e3", "2E-2", "1e300", "1e-7", "-0.0", "3.0", "123456789.125", "1e18", "1e19", "9.223372036854775807e18", "-1e30", ".5", "5e-324", "-9.223372036854775808e18", "9223372036854774784.0", "-9223372036854774784.0", "-1e19", "4503599627370497.5", "1e15", "-1e16", "1.7976931348623157e308"} {
		c.roundTrip("double:"+d, "const double d = "+d+"\nstruct S { 1: double f = "+d+" }\n", true)
	}
	// 5. ids and argument / throws lists
	for na := 0; na <= 3; na++ {
		for nt := 0; nt <= 3; nt++ {
			var args, thr []string
			for i := 0; i < na; i++ {
				args = append(args, fmt.Sprintf("%d: i32 a%d", i+1, i))
			}
			for i := 0; i < nt; i++ {
				thr = append(thr, fmt.Sprintf("%d: E e%d", i+1, i))
			}
			text := "exception E { 1: string m }\nservice V { i32 f(" + strings.Join(args, ", ") + ")"
			if nt > 0 {
				text += " throws (" + strings.Join(thr, ", ") + ")"
			}
			text += " }\n"
			c.roundTrip(fmt.Sprintf("function:%dargs-%dthrows", na, nt), text, true)
		}
	}
	for _, t := range []string{
		"struct S { -1: i32 a, -5: optional string b, 3: required i64 c }\n",
		"struct S { i32 a, i32 b }\nunion U { 1: i32 a; string b }\n",
		"struct S {}\nservice V {}\nenum E {}\nexception X {}\nunion U {}\n",
		"enum E { A = -3, B, C = 0x10, D }\n",
		"service V extends W { oneway void f(1: i32 a) }\nservice W {}\n",
		"typedef map cpp_type \"m\" <string, list<set<i32>>> T\n",
		"typedef list<i32> cpp_type \"l\" T\n",
		"const map<string, list<map<i32, string>>> c = {\"a\": [{1: \"x\", 2: \"y\"}, {}], \"b\": []}\n",
		"const set<i32> c = [1, 2, 3]\nconst list<double> d = [1.5, 2, -3.25]\n",
		"struct S { 1: optional S next, 2: list<S> kids = [], 3: map<string, S> m = {} }\n",
		// everything a field can carry, on function arguments and throws
		"service V { void f(1: required i32 a, 2: optional string b, 3: i64 c) }\n",
		"service V { void f(1: i32 a = 5, 2: string b = \"x\", 3: list<i32> l = [1, 2], 4: double d = 1.5) }\n",
		"service V { void f(1: i32 a (k = \"v\"), 2: string b (k1 = \"v1\", k2 = \"v2\", k1 = \"v3\")) }\n",
		"exception X { 1: string m }\nservice V { void f() throws (1: X x (k = \"v\"), 2: required X y) }\n",
		"service V { i32 f(-1: i32 a, -7: i32 b, i32 c, 0x10: i32 d) (fk = \"fv\") } (sk = \"sv\")\n",
		"service V { list<map<string, i32>> f(1: set<i32> a, 2: map<i32, list<string>> b (k = \"v\") ) }\n",
		"struct S { 1: i32 a = 5 (k = \"v\"), 2: required list<i32> b = [1] (k = \"v\", k = \"w\") }\n",
		"enum E { A = 1 (k = \"v\"), B (k = \"w\", k = \"x\"), C } (ek = \"ev\")\n",
	} {
		c.roundTrip("shape:"+firstWords(t), t, true)
	}

	run.Set("outcome_classes", c.out)
	run.Sample(map[string]any{"text": "const string c = 'a\\'b'\n", "family": "literal:const-string"})
	run.Sample(map[string]any{"text": ds[len(ds)/2].Name})
	run.Set("rule", "one evaluation = one source text parsed, dumped with dump.DumpIDL, re-parsed and compared; non-trivial iff the source is accepted and has >= 1 definition; distinct = distinct source texts")
	run.Assume("source texts the parser rejects are not part of the universe (counted as source-not-accepted)")
	run.Assume("comments are excluded; a double may be re-read as an integer of equal value")
	run.Finish()
}

func firstWords(t string) string {
	f := strings.Fields(t)
	if len(f) > 3 {
		f = f[:3]
	}
	return strings.Join(f, "_")
}

// litClass abstracts a literal to the one feature that matters to a dumper that
// always writes double quotes, computed on the AST-level text (what the source
// literal means): a double quote preceded by an odd run of backslashes cannot
// be written between double quotes; '&' and '<' matter to the HTML unescaping.
func litClass(body string, q byte) string {
	r := parse("l.thrift", "const string c = "+string(q)+body+string(q)+"\n")
	if r.err != nil || r.panic != "" || len(r.ast.Constants) != 1 || r.ast.Constants[0].Value.TypedValue.Literal == nil {
		return "not-a-literal"
	}
	s := *r.ast.Constants[0].Value.TypedValue.Literal
	for i := 0; i < len(s); i++ {
		if s[i] == '"' {
			n := 0
			for k := i - 1; k >= 0 && s[k] == '\\'; k-- {
				n++
			}
			if n%2 == 1 {
				return "odd-backslashes-before-dquote"
			}
		}
	}
	switch {
	case strings.Contains(s, "\\"):
		return "backslash"
	case strings.ContainsAny(s, "&<"):
		return "html-char"
	case strings.Contains(s, `"`):
		return "dquote"
	}
	return "plain"
}

func (c *ctx) interplay(main string, texts map[string]string) {
	ast, err := parser.ParseBatchString(main, texts, nil)
	if err != nil {
		c.run.Fatal("interplay program does not parse: %v", err)
	}
	if !semOK(ast) {
		c.run.Fatal("interplay program %s does not pass the semantic checker", main)
	}
	// dump every file reachable (from a fresh parse: semantic analysis rewrites
	// requiredness of union members and throws), re-parse the set, compare file by file
	ast, _ = parser.ParseBatchString(main, texts, nil)
	dumped := map[string]string{}
	for f := range ast.DepthFirstSearch() {
		s, err, pan := dumpIDL(f)
		if err != nil || pan != "" {
			c.run.Violate(evid.Violation{Class: "dump-error:interplay", What: fmt.Sprint(err, pan), Replay: map[string]any{"file": f.Filename}})
			return
		}
		dumped[f.Filename] = s
	}
	ast2, err := parser.ParseBatchString(main, dumped, nil)
	c.run.Eval("interplay:"+main, true)
	if err != nil {
		c.run.Violate(evid.Violation{Class: "reparse-failed:interplay", What: "dumped program does not parse: " + firstLine(err.Error()), Replay: map[string]any{"main": main, "dumped": dumped}})
		return
	}
	if !semOK(ast2) {
		c.run.Violate(evid.Violation{Class: "semantic-lost:interplay", What: "dumped program does not pass the semantic checker", Replay: map[string]any{"main": main, "dumped": dumped}})
		return
	}
	ast1, _ := parser.ParseBatchString(main, texts, nil)
	ast2, _ = parser.ParseBatchString(main, dumped, nil)
	m1 := map[string]*parser.Thrift{}
	for f := range ast1.DepthFirstSearch() {
		m1[f.Filename] = f
	}
	for f := range ast2.DepthFirstSearch() {
		o := m1[f.Filename]
		if o == nil {
			continue
		}
		normAST(o)
		normAST(f)
		sk := idlast.Skip{}
		for k := range skip {
			sk[k] = true
		}
		if p, w := idlast.Diff(o, f, sk); p != "" {
			c.run.Violate(evid.Violation{Class: "ast-changed:interplay:" + p, What: fmt.Sprintf("%s: AST%s differs after dump+parse: %s", f.Filename, p, w), Replay: map[string]any{"file": f.Filename, "dumped": dumped[f.Filename]}})
		}
	}
	c.count("interplay-ok")
}
