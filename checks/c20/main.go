// C20 — every documented backend option switches exactly its own feature.
//
// Explicit-state exploration of the option handler: a trace is a list of
// options; each is executed on the real CodeUtils.HandleOptions (fresh
// CodeUtils, naming-style singletons reset) and on a reference model in
// lock-step. The reference table is built from the Features struct tags
// (name -> field) and the README option table (name -> documented default),
// independent of params()/match().
//
// Not asserted: option combinations that the code rejects but the README does
// not document as invalid (snake_style_json_tag+lower_camel_style_json_tag,
// always_gen_json_tag without gen_json_tag) — either outcome is accepted.
package main

import (
	"encoding/json"
	"flag"
	"fmt"
	"os"
	"reflect"
	"regexp"
	"sort"
	"strings"

	"verif/internal/evid"

	"github.com/cloudwego/thriftgo/args"
	"github.com/cloudwego/thriftgo/generator/backend"
	"github.com/cloudwego/thriftgo/generator/golang"
	"github.com/cloudwego/thriftgo/generator/golang/styles"
	"github.com/cloudwego/thriftgo/plugin"
)

// ---------- documented universe ----------

type doc struct {
	names    []string          // README ∪ -h, in README order then -h order
	readme   map[string]string // name -> default cell ("true"/"false"/other)
	help     map[string]bool   // name -> "(Enabled by default)"
	inHelp   map[string]bool
	field    map[string]int // boolean feature name -> field index in golang.Features
	valueOpt map[string]bool
}

func loadDoc(run *evid.Run) *doc {
	d := &doc{readme: map[string]string{}, help: map[string]bool{}, inHelp: map[string]bool{}, field: map[string]int{}, valueOpt: map[string]bool{}}
	b, err := os.ReadFile("/repo/README.md")
	if err != nil {
		run.Fatal("README: %v", err)
	}
	s := string(b)
	i := strings.Index(s, "### Go backend options")
	if i < 0 {
		run.Fatal("README has no 'Go backend options' section")
	}
	s = s[i:]
	if j := strings.Index(s, "\n## "); j >= 0 {
		s = s[:j]
	}
	row := regexp.MustCompile("(?m)^\\| `([a-z0-9_]+)(=[^`]*)?` \\| ([^|]*) \\|")
	seen := map[string]bool{}
	for _, m := range row.FindAllStringSubmatch(s, -1) {
		name := m[1]
		def := strings.Trim(strings.TrimSpace(m[3]), "*` ")
		d.readme[name] = def
		if m[2] != "" {
			d.valueOpt[name] = true
		}
		if !seen[name] {
			seen[name] = true
			d.names = append(d.names, name)
		}
	}
	for _, o := range new(golang.GoBackend).Options() {
		d.inHelp[o.Name] = true
		d.help[o.Name] = strings.Contains(o.Desc, "(Enabled by default)")
		if !seen[o.Name] {
			seen[o.Name] = true
			d.names = append(d.names, o.Name)
		}
	}
	t := reflect.TypeOf(golang.Features{})
	for k := 0; k < t.NumField(); k++ {
		tag := string(t.Field(k).Tag)
		n := strings.SplitN(tag, ":", 2)[0]
		if n != "" && t.Field(k).Type.Kind() == reflect.Bool {
			d.field[n] = k
		}
	}
	for _, n := range []string{"thrift_import_path", "use_package", "naming_style", "package_prefix", "template"} {
		d.valueOpt[n] = true
	}
	return d
}

// ---------- observable configuration ----------

type config struct {
	Features    map[string]bool `json:"features"`
	Template    string          `json:"template"`
	Style       string          `json:"style"`
	Initialisms bool            `json:"initialisms"`
	Prefix      string          `json:"prefix"`
	Replace     [][2]string     `json:"replace"`
}

func (c *config) key() string {
	b, _ := json.Marshal(c)
	return string(b)
}

func resetStyles() {
	for _, n := range styles.NamingStyles() {
		styles.NewNamingStyle(n).UseInitialisms(true)
	}
}

func observe(d *doc, cu *golang.CodeUtils) *config {
	c := &config{Features: map[string]bool{}}
	fv := reflect.ValueOf(cu.Features())
	for n, k := range d.field {
		c.Features[n] = fv.Field(k).Bool()
	}
	c.Template = cu.Template()
	c.Style = cu.NamingStyle().Name()
	id, _ := cu.Identify("url")
	c.Initialisms = id == "URL"
	c.Prefix = cu.GetPackagePrefix()
	c.Replace = cu.VerifImportReplace()
	return c
}

// ---------- reference model ----------

type model struct {
	d   *doc
	cfg config
	err bool
}

func newModel(d *doc, base *config) *model {
	m := &model{d: d}
	m.cfg = config{Features: map[string]bool{}, Template: base.Template, Style: "thriftgo", Initialisms: true}
	for n := range d.field {
		// documented default: README if the option is listed there, else the -h marker
		if def, ok := d.readme[n]; ok {
			m.cfg.Features[n] = def == "true"
		} else {
			m.cfg.Features[n] = d.help[n]
		}
	}
	return m
}

func parseBool(v string) (bool, bool) {
	switch v {
	case "", "true":
		return true, true
	case "false":
		return false, true
	}
	return false, false
}

func (m *model) apply(opt string) {
	if m.err {
		return
	}
	parts := strings.SplitN(opt, "=", 2)
	name, val := parts[0], ""
	if len(parts) == 2 {
		val = parts[1]
	}
	if _, ok := m.d.field[name]; ok {
		b, ok := parseBool(val)
		if !ok {
			m.err = true
			return
		}
		m.cfg.Features[name] = b
		return
	}
	switch name {
	case "ignore_initialisms":
		b, ok := parseBool(val)
		if !ok {
			m.err = true
			return
		}
		m.cfg.Initialisms = !b
	case "naming_style":
		if val != "golint" && val != "apache" && val != "thriftgo" {
			m.err = true
			return
		}
		m.cfg.Style = val
	case "template":
		if val != "slim" && val != "raw_struct" {
			m.err = true
			return
		}
		m.cfg.Template = val
	case "package_prefix":
		m.cfg.Prefix = val
	case "thrift_import_path":
		m.setRepl(golang.DefaultThriftLib, val)
	case "use_package":
		p := strings.SplitN(val, "=", 2)
		if len(p) < 2 {
			m.err = true
			return
		}
		m.setRepl(p[0], p[1])
	}
}

func (m *model) setRepl(k, v string) {
	for i := range m.cfg.Replace {
		if m.cfg.Replace[i][0] == k {
			m.cfg.Replace[i][1] = v
			return
		}
	}
	m.cfg.Replace = append(m.cfg.Replace, [2]string{k, v})
	sort.Slice(m.cfg.Replace, func(i, j int) bool { return m.cfg.Replace[i][0] < m.cfg.Replace[j][0] })
}

// finish applies documented implications; returns (mustError, unjudged).
func (m *model) finish() (mustErr, unjudged bool) {
	if m.err {
		return true, false
	}
	f := m.cfg.Features
	if m.cfg.Template == "slim" {
		f["gen_deep_equal"] = false
	}
	if f["with_field_mask"] && !f["with_reflection"] {
		return true, false
	}
	if f["apache_warning"] && f["apache_adaptor"] {
		return true, false
	}
	if (f["snake_style_json_tag"] && f["lower_camel_style_json_tag"]) || (f["always_gen_json_tag"] && !f["gen_json_tag"]) {
		return false, true
	}
	return false, false
}

// ---------- one trace ----------

type outcome struct {
	class, what string
	key         string
}

func runTrace(d *doc, base *config, opts []string) outcome {
	resetStyles()
	cu := golang.NewCodeUtils(backend.DummyLogFunc())
	err := cu.HandleOptions(opts)
	m := newModel(d, base)
	for _, o := range opts {
		m.apply(o)
	}
	mustErr, unjudged := m.finish()
	if unjudged {
		return outcome{key: "unjudged"}
	}
	if mustErr {
		if err == nil {
			return outcome{class: "invalid-accepted:" + classOf(d, opts, m), what: fmt.Sprintf("options %v are invalid by the documentation but were accepted", opts)}
		}
		return outcome{key: "error"}
	}
	if err != nil {
		return outcome{class: "valid-rejected:" + lastName(opts), what: fmt.Sprintf("options %v rejected: %v", opts, err)}
	}
	got := observe(d, cu)
	want := &m.cfg
	if diff := diffCfg(got, want); diff != "" {
		return outcome{class: "wrong-setting:" + diffClass(got, want), what: fmt.Sprintf("options %v: %s", opts, diff)}
	}
	return outcome{key: got.key()}
}

func lastName(opts []string) string {
	if len(opts) == 0 {
		return ""
	}
	return strings.SplitN(opts[len(opts)-1], "=", 2)[0]
}

func classOf(d *doc, opts []string, m *model) string {
	var n []string
	for _, o := range opts {
		n = append(n, strings.SplitN(o, "=", 2)[0])
	}
	return strings.Join(n, "+")
}

func diffCfg(got, want *config) string {
	var ds []string
	var names []string
	for n := range want.Features {
		names = append(names, n)
	}
	sort.Strings(names)
	for _, n := range names {
		if got.Features[n] != want.Features[n] {
			ds = append(ds, fmt.Sprintf("feature %s=%v want %v", n, got.Features[n], want.Features[n]))
		}
	}
	if got.Template != want.Template {
		ds = append(ds, fmt.Sprintf("template %q want %q", got.Template, want.Template))
	}
	if got.Style != want.Style {
		ds = append(ds, fmt.Sprintf("naming style %q want %q", got.Style, want.Style))
	}
	if got.Initialisms != want.Initialisms {
		ds = append(ds, fmt.Sprintf("initialisms %v want %v", got.Initialisms, want.Initialisms))
	}
	if got.Prefix != want.Prefix {
		ds = append(ds, fmt.Sprintf("package prefix %q want %q", got.Prefix, want.Prefix))
	}
	if fmt.Sprint(got.Replace) != fmt.Sprint(want.Replace) {
		ds = append(ds, fmt.Sprintf("import replacements %v want %v", got.Replace, want.Replace))
	}
	return strings.Join(ds, "; ")
}

// diffClass names the settings that are wrong (not the options given), so that
// one root cause gives one class.
func diffClass(got, want *config) string {
	var ds []string
	for n := range want.Features {
		if got.Features[n] != want.Features[n] {
			ds = append(ds, n)
		}
	}
	sort.Strings(ds)
	if got.Template != want.Template {
		ds = append(ds, "template")
	}
	if got.Style != want.Style {
		ds = append(ds, "naming_style")
	}
	if got.Initialisms != want.Initialisms {
		ds = append(ds, "initialisms")
	}
	if got.Prefix != want.Prefix {
		ds = append(ds, "package_prefix")
	}
	if fmt.Sprint(got.Replace) != fmt.Sprint(want.Replace) {
		ds = append(ds, "import_replace")
	}
	if len(ds) > 3 {
		ds = append(ds[:3], "...")
	}
	return strings.Join(ds, ",")
}

func main() {
	replay := flag.String("replay", "", "replay file")
	run := evid.New("C20", "model_checking")
	d := loadDoc(run)
	resetStyles()
	base := observe(d, golang.NewCodeUtils(backend.DummyLogFunc()))

	if *replay != "" {
		b, _ := os.ReadFile(*replay)
		var r struct {
			Replay struct {
				Options []string `json:"options"`
			} `json:"replay"`
		}
		if json.Unmarshal(b, &r) != nil {
			os.Exit(3)
		}
		o := runTrace(d, base, r.Replay.Options)
		if o.class != "" {
			fmt.Printf("VIOLATION property=C20 replay=%s\n  class=%s: %s\n", *replay, o.class, o.what)
			os.Exit(1)
		}
		fmt.Println("replay: property holds on this option list")
		return
	}

	// 0. documentation consistency: documented defaults equal the code's defaults
	for _, n := range d.names {
		_, isBool := d.field[n]
		if !isBool && n != "ignore_initialisms" {
			if !d.valueOpt[n] {
				run.Note("documented option " + n + " is neither a Features field nor a known value option: not modelled")
			}
			continue
		}
		if n == "ignore_initialisms" {
			continue
		}
		if def, ok := d.readme[n]; ok {
			if (def == "true") != base.Features[n] {
				run.Violate(evid.Violation{Class: "default-mismatch:" + n, What: fmt.Sprintf("README documents default %s=%s but the code's default is %v", n, def, base.Features[n]), Replay: map[string]any{"options": []string{}}})
			}
			if d.inHelp[n] && (def == "true") != d.help[n] {
				run.Violate(evid.Violation{Class: "help-readme-mismatch:" + n, What: fmt.Sprintf("README says default %s=%s, -h says enabled-by-default=%v", n, def, d.help[n]), Replay: map[string]any{"options": []string{}}})
			}
		}
	}

	// 1. atoms
	var atoms, garbage []string
	for _, n := range d.names {
		if _, ok := d.field[n]; ok || n == "ignore_initialisms" {
			atoms = append(atoms, n, n+"=true", n+"=false")
			garbage = append(garbage, n+"=garbage", n+"=1", n+"=TRUE")
			continue
		}
		switch n {
		case "naming_style":
			atoms = append(atoms, "naming_style=golint", "naming_style=apache", "naming_style=thriftgo")
			garbage = append(garbage, "naming_style=bogus", "naming_style", "naming_style=")
		case "template":
			atoms = append(atoms, "template=slim", "template=raw_struct")
			garbage = append(garbage, "template=bogus", "template", "template=")
		case "use_package":
			atoms = append(atoms, "use_package=a/b=c/d", "use_package=a/b=e")
			garbage = append(garbage, "use_package=a", "use_package", "use_package=")
		case "thrift_import_path":
			atoms = append(atoms, "thrift_import_path=x/thrift")
		case "package_prefix":
			atoms = append(atoms, "package_prefix=p/q")
		}
	}
	run.Set("option_names", len(d.names))
	run.Set("atoms", len(atoms))

	states := map[string]bool{}
	var transitions, traces int64
	do := func(opts []string) {
		o := runTrace(d, base, opts)
		traces++
		transitions += int64(len(opts))
		if o.class != "" {
			run.Violate(evid.Violation{Class: o.class, What: o.what, Replay: map[string]any{"options": opts}})
			return
		}
		states[o.key] = true
	}
	do(nil)
	// singles (all forms incl. garbage)
	for _, a := range atoms {
		do([]string{a})
	}
	for _, g := range garbage {
		do([]string{g})
	}
	// all ordered pairs of atoms; garbage in either position
	for _, a := range atoms {
		for _, b := range atoms {
			do([]string{a, b})
		}
		for _, g := range garbage {
			do([]string{a, g})
			do([]string{g, a})
		}
	}
	// triples
	special := map[string]bool{}
	for _, n := range d.names {
		for _, m := range d.names {
			if n != m && strings.HasPrefix(m, n) {
				special[n], special[m] = true, true
			}
		}
	}
	for _, n := range []string{"with_field_mask", "with_reflection", "apache_warning", "apache_adaptor", "template", "gen_deep_equal", "enable_nested_struct", "naming_style", "ignore_initialisms", "gen_json_tag", "use_package", "thrift_import_path"} {
		special[n] = true
	}
	var tri []string
	for _, a := range atoms {
		if run.Thorough() || special[strings.SplitN(a, "=", 2)[0]] {
			tri = append(tri, a)
		}
	}
	run.Set("triple_atoms", len(tri))
	for _, a := range tri {
		for _, b := range tri {
			for _, c := range tri {
				do([]string{a, b, c})
			}
		}
	}
	// the documented invalid combinations and implications, with every atom as a third option in
	// every position: no other option may lift a documented rejection or break an implication
	for _, pr := range [][2]string{{"apache_warning", "apache_adaptor"}, {"apache_adaptor", "apache_warning"}, {"with_field_mask", "with_reflection=false"}, {"with_field_mask", "gen_setter"},
		{"template=slim", "gen_deep_equal"}, {"gen_deep_equal", "template=slim"}, {"with_field_mask", "with_reflection"}} {
		for _, a := range atoms {
			do([]string{a, pr[0], pr[1]})
			do([]string{pr[0], a, pr[1]})
			do([]string{pr[0], pr[1], a})
		}
	}
	run.EvalN("C20", traces, traces-1)
	run.Sample(map[string]any{"options": []string{"code_ref_slim", "code_ref=false", "template=slim"}, "note": "each trace runs HandleOptions on a fresh CodeUtils and the reference model"})
	run.Sample(map[string]any{"atoms": atoms[:12]})

	// 2. command-line adaptation: enable_nested_struct forces the slim template
	for _, g := range []string{"go:enable_nested_struct", "go:enable_nested_struct=true,gen_setter", "go:gen_setter,enable_nested_struct", "go:template=slim,enable_nested_struct"} {
		a := &args.Arguments{Langs: []string{g}}
		specs, err := a.Targets()
		traces++
		if err != nil || len(specs) != 1 {
			run.Violate(evid.Violation{Class: "targets-error", What: fmt.Sprintf("Targets(%q): %v", g, err), Replay: map[string]any{"gen": g}})
			continue
		}
		resetStyles()
		cu := golang.NewCodeUtils(backend.DummyLogFunc())
		if err := cu.HandleOptions(plugin.Pack(specs[0].Options)); err != nil || cu.Template() != "slim" || !cu.Features().EnableNestedStruct {
			run.Violate(evid.Violation{Class: "nested-struct-not-slim", What: fmt.Sprintf("-g %s: template=%q err=%v (nested structs must force the slim template)", g, cu.Template(), err), Replay: map[string]any{"gen": g}})
		}
	}

	// 3. the same option lists through the command-line path (-g go:<list>): what Targets() hands to
	// HandleOptions must configure the backend exactly as the list given to HandleOptions directly
	cmdLists := [][]string{{"use_package=a.b/c=d.e/f"}, {"gen_setter", "use_package=x/y=z/w"}, {"use_package=x/y=z/w", "gen_setter=false"}, {"use_package=p=q", "use_package=r=s"}, {"naming_style=apache", "use_package=m=n", "template=slim"},
		{"thrift_import_path=github.com/a/b"}, {"package_prefix=a/b", "gen_deep_equal=true", "use_package=k=l"}, {"json_enum_as_text", "keep_unknown_fields=true", "validate_set=false"},
		// an explicit template next to enable_nested_struct: the command-line adaptation may only add a template, never replace one
		{"template=raw_struct", "enable_nested_struct"}, {"enable_nested_struct", "template=raw_struct"}, {"enable_nested_struct=true", "template=raw_struct", "gen_deep_equal"},
		{"template=slim", "enable_nested_struct"}, {"enable_nested_struct=false", "template=raw_struct"}, {"gen_setter", "template=raw_struct", "enable_nested_struct=true"}}
	for _, l := range cmdLists {
		g := "go:" + strings.Join(l, ",")
		a := &args.Arguments{Langs: []string{g}}
		specs, err := a.Targets()
		traces++
		if err != nil || len(specs) != 1 {
			run.Violate(evid.Violation{Class: "targets-error", What: fmt.Sprintf("Targets(%q): %v", g, err), Replay: map[string]any{"gen": g}})
			continue
		}
		resetStyles()
		direct := golang.NewCodeUtils(backend.DummyLogFunc())
		e1 := direct.HandleOptions(l)
		resetStyles()
		viaCmd := golang.NewCodeUtils(backend.DummyLogFunc())
		e2 := viaCmd.HandleOptions(plugin.Pack(specs[0].Options))
		dk, vk := observe(d, direct).key(), observe(d, viaCmd).key()
		if (e1 == nil) != (e2 == nil) || dk != vk {
			run.Violate(evid.Violation{Class: "command-line-differs-from-option-list:" + strings.SplitN(l[0], "=", 2)[0], What: fmt.Sprintf("-g %s: the backend is configured as %v (err %v), the same options given directly give %v (err %v)", g, vk, e2, dk, e1), Replay: map[string]any{"gen": g}})
		}
	}

	run.Set("states", len(states))
	run.Set("transitions", transitions)
	run.Set("traces", traces)
	run.Set("traces_validated_against_impl", traces)
	run.Set("rule", "one trace = one option list handled by the real CodeUtils.HandleOptions and by the reference model; all singles x 5 forms, all ordered pairs of atoms, garbage in either pair position, all ordered triples over the prefix-related/constrained names (thorough: over all atoms); non-trivial = non-empty list")
	run.Assume("reference = Features struct tags (name->field) + README table (name->default); semantics of the 6 value options written from the README")
	run.Assume("combinations rejected by the code but not documented as invalid are not judged: snake_style_json_tag+lower_camel_style_json_tag, always_gen_json_tag without gen_json_tag")
	run.Finish()
}
