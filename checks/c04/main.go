// C04 — invalid input is diagnosed: non-zero exit, message, no output, no crash.
//
// Bounded-exhaustive over single rule-breaking edits: a valid multi-file base
// program (main -> b -> c, main -> c; services extending across files; every
// definition kind) is perturbed by EVERY edit of a catalogue built from the
// rule list of the property (each rule with its variants), applied at EVERY
// applicable file (main, directly included, transitively included) x {go,
// fastgo} x {-r, no -r}; plus invalid command lines. Each run is the real
// binary built from the working tree, in an empty cwd with a scrubbed
// environment. Oracle per run: exit status != 0; combined output non-empty; no
// line starting with "panic: ", "fatal error: " or "Recovered from panic:"; no
// file in the output directory; the process ends within 120 s. Conversely
// the unedited program exits 0 and writes exactly the predicted file set.
// Not asserted: wording, or which stage reports the error.
package main

import (
	"bytes"
	"context"
	"flag"
	"fmt"
	"os"
	"os/exec"
	"path/filepath"
	"runtime"
	"sort"
	"strings"
	"sync"
	"time"

	"verif/internal/evid"
	"verif/internal/gen"
)

const cText = `namespace go c04.c
enum CE { A = 1, B = 2 }
struct CS { 1: i32 a, 2: optional string b }
exception CX { 1: string m }
const i32 CC = 5
typedef CS CT
service CBase { void ping() }
`

const bText = `include "c.thrift"
namespace go c04.b
struct BS { 1: c.CS s, 2: c.CE e = c.CE.A }
typedef c.CT BT
const c.CE BE = c.CE.B
service BSvc extends c.CBase { i32 f(1: i32 a) throws (1: c.CX x) }
`

const mainText = `include "b.thrift"
include "c.thrift"
namespace go c04.m
enum ME { X, Y }
struct M { 1: i32 a = 3, 2: optional b.BS bs, 3: list<c.CS> l, 4: map<string, b.BT> m, 5: ME e = ME.Y, 6: c.CE ce = c.CE.A }
union U { 1: i32 n, 2: string s = "d" }
exception X { 1: string why }
const map<string, i32> MC = {"k": 1, "l": c.CC}
const M MM = {"a": 1, "l": [{"a": 2}]}
typedef list<M> ML
service S extends b.BSvc {
  M g(1: M m, 2: i32 n) throws (1: X x, 2: c.CX y)
  oneway void o(1: i32 a)
  void v()
}
`

type edit struct {
	rule    string // rule of the property's catalogue
	variant string
	// snippet appended to the target file; {P} is the prefix that reaches c's
	// definitions from the target ("c." in main and b, "" in c)
	snippet string
	// prepend is put before everything else of the target (include lines)
	prepend string
	// extra files
	extra map[string]string
	// only for these targets ("" = all)
	targets string
}

func catalogue() []edit {
	var es []edit
	add := func(rule, variant, snippet string) {
		es = append(es, edit{rule: rule, variant: variant, snippet: snippet})
	}
	// --- syntax errors
	for i, s := range []string{"struct {", "struct ZS1 { 1: i32 }", "const i32 = 5", "enum ZE1 { A = }", "service ZV1 { void f( }", "}", "const string zs = \"abc", "@", "struct ZS2 { 1: i32 a", "typedef", "struct ZS3 { 1: map<i32> a }", "const list<i32> zl = [1, 2", "service ZV2 { void f() throws }", "struct ZS4 { 1 i32 a }", "enum { A }", "union ZU1 { 1: i32 a = }", "namespace", "struct ZS5 { 1: i32 a } (x = )"} {
		add("syntax-error", fmt.Sprint(i), s)
	}
	// --- includes
	es = append(es, edit{rule: "missing-include", variant: "plain", prepend: "include \"nope.thrift\"\n"})
	es = append(es, edit{rule: "missing-include", variant: "subdir", prepend: "include \"sub/nope.thrift\"\n"})
	es = append(es, edit{rule: "include-cycle", variant: "len1", prepend: "include \"{SELF}\"\n"})
	es = append(es, edit{rule: "include-cycle", variant: "len2-c-b", prepend: "include \"b.thrift\"\n", targets: "c"})
	es = append(es, edit{rule: "include-cycle", variant: "len3-c-main", prepend: "include \"main.thrift\"\n", targets: "c"})
	es = append(es, edit{rule: "include-cycle", variant: "len2-b-main", prepend: "include \"main.thrift\"\n", targets: "b"})
	es = append(es, edit{rule: "include-cycle", variant: "len4", prepend: "include \"d.thrift\"\n", targets: "c", extra: map[string]string{"d.thrift": "include \"main.thrift\"\nstruct DS {}\n"}})
	es = append(es, edit{rule: "include-cycle", variant: "len2-via-new", prepend: "include \"d.thrift\"\n", extra: map[string]string{"d.thrift": "include \"e.thrift\"\nstruct DS {}\n", "e.thrift": "include \"d.thrift\"\nstruct ES {}\n"}})
	// --- duplicate names
	kinds := map[string]string{"struct": "struct ZD {}", "union": "union ZD {}", "exception": "exception ZD {}", "enum": "enum ZD { A }", "typedef": "typedef i32 ZD", "const": "const i32 ZD = 1", "service": "service ZD {}"}
	var kn []string
	for k := range kinds {
		kn = append(kn, k)
	}
	sort.Strings(kn)
	for _, a := range kn {
		for _, b := range kn {
			if a <= b {
				add("duplicate-global-name", a+"+"+b, kinds[a]+"\n"+kinds[b])
			}
		}
	}
	for _, cat := range []string{"struct", "union", "exception"} {
		add("duplicate-field-name", cat, cat+" ZF { 1: i32 a, 2: string a }")
		add("duplicate-field-id", cat, cat+" ZF { 1: i32 a, 1: string b }")
		add("duplicate-field-id", cat+"-implicit", cat+" ZF { 2: i32 a, 1: string b, i32 c }")
		add("duplicate-field-id", cat+"-negative", cat+" ZF { -1: i32 a, -1: string b }")
	}
	add("duplicate-field-name", "args", "service ZA { void f(1: i32 a, 2: string a) }")
	add("duplicate-field-id", "args", "service ZA { void f(1: i32 a, 1: string b) }")
	add("duplicate-field-name", "throws", "exception ZX1 {} exception ZX2 {} service ZA { void f() throws (1: ZX1 e, 2: ZX2 e) }")
	add("duplicate-field-id", "throws", "exception ZX1 {} exception ZX2 {} service ZA { void f() throws (1: ZX1 e, 1: ZX2 g) }")
	add("duplicate-function-name", "plain", "service ZA { void f() i32 f(1: i32 a) }")
	add("duplicate-enum-value-name", "plain", "enum ZE { A, B, A }")
	add("duplicate-enum-number", "explicit", "enum ZE { A = 1, B = 1 }")
	add("duplicate-enum-number", "implicit", "enum ZE { A = 1, B = 0, C }")
	add("enum-out-of-int32", "high", "enum ZE { A = 2147483648 }")
	add("enum-out-of-int32", "low", "enum ZE { A = -2147483649 }")
	add("enum-out-of-int32", "implicit-overflow", "enum ZE { A = 2147483647, B }")
	// --- types
	for i, s := range []string{"struct ZT { 1: Nope a }", "struct ZT { 1: nope.T a }", "struct ZT { 1: {P}Nope a }", "struct ZT { 1: list<Nope> a }", "struct ZT { 1: map<string, Nope> a }", "typedef Nope ZT", "const Nope ZT = 1", "service ZT { Nope f() }", "service ZT { void f(1: Nope a) }", "service ZT { void f() throws (1: Nope e) }", "union ZT { 1: Nope a }", "exception ZT { 1: set<Nope> a }"} {
		add("undefined-type", fmt.Sprint(i), s)
	}
	add("non-type-symbol-as-type", "const", "const i32 ZK = 1\nstruct ZT { 1: ZK a }")
	add("non-type-symbol-as-type", "service", "service ZSV {}\nstruct ZT { 1: ZSV a }")
	add("non-type-symbol-as-type", "included-const", "struct ZT { 1: {P}CC a }")
	add("non-type-symbol-as-type", "enum-value", "struct ZT { 1: {P}CE.A a }")
	add("non-type-symbol-as-type", "included-service", "struct ZT { 1: {P}CBase a }")
	add("non-type-symbol-as-type", "included-service-in-container", "struct ZT { 1: list<{P}CBase> a }")
	add("non-type-symbol-as-type", "included-service-as-argument", "service ZSV { void f(1: {P}CBase a) }")
	add("non-type-symbol-as-type", "included-service-as-typedef-target", "typedef {P}CBase ZT")
	add("non-type-symbol-as-type", "service-in-container", "service ZSV {}\nstruct ZT { 1: map<string, ZSV> a }")
	for n := 1; n <= 4; n++ {
		var sb strings.Builder
		for i := 0; i < n; i++ {
			fmt.Fprintf(&sb, "typedef ZC%d ZC%d\n", (i+1)%n, i)
		}
		add("typedef-cycle", fmt.Sprintf("len%d", n), sb.String())
		add("typedef-cycle", fmt.Sprintf("len%d-used-in-struct", n), sb.String()+"struct ZT { 1: ZC0 a }")
		add("typedef-cycle", fmt.Sprintf("len%d-referenced-from-constant", n), sb.String()+"const i32 ZK = ZC0.x")
		add("typedef-cycle", fmt.Sprintf("len%d-constant-of-that-type", n), sb.String()+"const ZC0 ZK = 1")
	}
	// --- constant identifiers
	for i, s := range []string{"const i32 ZI = NOPE", "const i32 ZI = {P}NOPE", "const {P}CE ZI = {P}CE.NOPE", "const i32 ZI = nope.X", "const i32 ZI = nope.E.X", "struct ZT { 1: i32 a = NOPE }", "struct ZT { 1: list<i32> a = [NOPE] }", "struct ZT { 1: map<string,i32> a = {\"k\": NOPE} }", "const {P}CS ZI = {\"a\": NOPE}", "service ZT { void f(1: i32 a = NOPE) }"} {
		add("undefined-constant-identifier", fmt.Sprint(i), s)
	}
	es = append(es, edit{rule: "ambiguous-constant-identifier", variant: "enum-named-like-include", snippet: "enum c { CC }\nconst i32 ZI = c.CC", targets: "main,b"})
	// two includes with the same base name that both define the name
	sameBase := map[string]string{"p/shared.thrift": "const i32 LIMIT = 1\nenum Mode { A, B }\n", "q/shared.thrift": "const i32 LIMIT = 2\nenum Mode { A, B }\n"}
	es = append(es, edit{rule: "ambiguous-constant-identifier", variant: "same-base-name-includes-const", prepend: "include \"p/shared.thrift\"\ninclude \"q/shared.thrift\"\n", snippet: "const i32 ZI = shared.LIMIT", extra: sameBase})
	es = append(es, edit{rule: "ambiguous-constant-identifier", variant: "same-base-name-includes-enum-value", prepend: "include \"p/shared.thrift\"\ninclude \"q/shared.thrift\"\n", snippet: "const i32 ZI = shared.Mode.B", extra: sameBase})
	es = append(es, edit{rule: "ambiguous-constant-identifier", variant: "same-base-name-includes-default", prepend: "include \"p/shared.thrift\"\ninclude \"q/shared.thrift\"\n", snippet: "struct ZT { 1: i32 a = shared.LIMIT }", extra: sameBase})
	es = append(es, edit{rule: "ambiguous-constant-identifier", variant: "enum-named-like-include-b", snippet: "enum b { BE }\nconst i32 ZI = b.BE", targets: "main"})
	// --- values of the wrong kind
	wrong := []struct{ n, t, v string }{
		{"string-for-i32", "i32", "\"str\""}, {"string-for-i64", "i64", "'s'"}, {"string-for-byte", "byte", "\"1\""}, {"string-for-bool", "bool", "\"true\""}, {"string-for-double", "double", "\"1.5\""},
		{"int-for-string", "string", "5"}, {"double-for-string", "string", "1.5"}, {"list-for-i32", "i32", "[1]"}, {"map-for-i32", "i32", "{1: 2}"}, {"list-for-string", "string", "[\"a\"]"},
		// (a value of the wrong kind for a *container* type is outside the rule list of the
		// property, which names scalar and struct types; thriftgo substitutes an empty container)
		{"string-elem-in-int-list", "list<i32>", "[\"x\"]"}, {"string-value-in-int-map", "map<string,i32>", "{\"k\": \"v\"}"}, {"int-key-in-string-map", "map<string,i32>", "{1: 1}"},
		{"unknown-field-in-struct-literal", "{P}CS", "{\"nope\": 1}"}, {"non-string-key-in-struct-literal", "{P}CS", "{1: 1}"}, {"int-for-struct", "{P}CS", "5"}, {"list-for-struct", "{P}CS", "[1]"},
		{"string-for-struct-field", "{P}CS", "{\"a\": \"x\"}"}, {"string-for-enum", "{P}CE", "\"A\""}, {"list-for-enum", "{P}CE", "[1]"}, {"double-for-i32", "i32", "1.5"}, {"double-for-enum", "{P}CE", "1.5"},
	}
	for _, w := range wrong {
		add("wrong-kind-value", "const:"+w.n, fmt.Sprintf("const %s ZW = %s", w.t, w.v))
		add("wrong-kind-value", "default:"+w.n, fmt.Sprintf("struct ZT { 1: %s a = %s }", w.t, w.v))
		add("wrong-kind-value", "optional-default:"+w.n, fmt.Sprintf("struct ZT { 1: optional %s a = %s }", w.t, w.v))
	}
	// --- services
	add("oneway-returns", "value", "service ZO { oneway i32 f() }")
	add("oneway-returns", "struct", "service ZO { oneway {P}CS f() }")
	add("oneway-throws", "plain", "exception ZX1 {} service ZO { oneway void f() throws (1: ZX1 e) }")
	add("unknown-base-service", "local", "service ZB extends Nope {}")
	add("unknown-base-service", "included", "service ZB extends {P}Nope {}")
	add("unknown-base-service", "unknown-include", "service ZB extends nope.S {}")
	add("unknown-base-service", "struct-as-base", "service ZB extends {P}CS {}")
	add("union-second-default", "two", "union ZU2 { 1: i32 a = 1, 2: i32 b = 2 }")
	add("union-second-default", "three", "union ZU2 { 1: i32 a, 2: string b = \"x\", 3: list<i32> c = [1] }")
	add("union-second-default", "separated", "union ZU2 { 1: i32 a = 1, 2: string b, 3: string c = \"x\" }")
	add("union-second-default", "first-and-last-of-five", "union ZU2 { 1: i32 a = 1, 2: string b, 3: i64 c, 4: bool d, 5: double e = 1.5 }")
	add("union-second-default", "three-alternating", "union ZU2 { 1: i32 a = 1, 2: string b, 3: i32 c = 2, 4: string d, 5: i32 e = 3 }")
	return es
}

type runSpec struct {
	kind    string // "edit" | "base" | "cmdline"
	e       *edit
	target  string
	backend string
	recurse bool
	args    []string // cmdline
	name    string
}

type runRes struct {
	exit     int
	out      string
	files    []string
	timedOut bool
}

func execute(tg, dir string, files map[string]string, args []string) runRes {
	idlDir := filepath.Join(dir, "idl")
	cwd := filepath.Join(dir, "cwd")
	outDir := filepath.Join(dir, "out")
	_ = os.MkdirAll(cwd, 0o755)
	for p, t := range files {
		full := filepath.Join(idlDir, p)
		_ = os.MkdirAll(filepath.Dir(full), 0o755)
		_ = os.WriteFile(full, []byte(t), 0o644)
	}
	var a []string
	for _, x := range args {
		x = strings.ReplaceAll(x, "{OUT}", outDir)
		x = strings.ReplaceAll(x, "{IDL}", idlDir)
		a = append(a, x)
	}
	ctx, cancel := context.WithTimeout(context.Background(), 120*time.Second)
	defer cancel()
	cmd := exec.CommandContext(ctx, tg, a...)
	cmd.Dir = cwd
	cmd.Env = []string{"PATH=" + os.Getenv("PATH"), "HOME=" + cwd}
	var buf bytes.Buffer
	cmd.Stdout, cmd.Stderr = &buf, &buf
	err := cmd.Run()
	r := runRes{out: buf.String()}
	if ctx.Err() != nil {
		r.timedOut = true
	}
	if err != nil {
		r.exit = -1
		if ee, ok := err.(*exec.ExitError); ok {
			r.exit = ee.ExitCode()
		}
	}
	_ = filepath.Walk(outDir, func(p string, info os.FileInfo, err error) error {
		if err == nil && !info.IsDir() {
			rel, _ := filepath.Rel(outDir, p)
			r.files = append(r.files, rel)
		}
		return nil
	})
	// stray files in the cwd count as output too
	_ = filepath.Walk(cwd, func(p string, info os.FileInfo, err error) error {
		if err == nil && !info.IsDir() {
			rel, _ := filepath.Rel(cwd, p)
			r.files = append(r.files, "cwd/"+rel)
		}
		return nil
	})
	sort.Strings(r.files)
	_ = os.RemoveAll(dir)
	return r
}

func traceLine(out string) string {
	for _, l := range strings.Split(out, "\n") {
		if strings.HasPrefix(l, "panic: ") || strings.HasPrefix(l, "fatal error: ") || strings.HasPrefix(l, "Recovered from panic:") {
			return l
		}
	}
	return ""
}

func main() {
	flag.String("replay", "", "unused")
	run := evid.New("C04", "exploration")
	thorough := run.Thorough()
	scratch := os.Getenv("VERIF_SCRATCH")
	if scratch == "" {
		d, _ := os.MkdirTemp("", "verif-c04-")
		defer os.RemoveAll(d)
		scratch = d
	}
	tg, err := gen.BuildThriftgo(scratch)
	if err != nil {
		run.Fatal("%v", err)
	}
	base := map[string]string{"main.thrift": mainText, "b.thrift": bText, "c.thrift": cText}
	cat := catalogue()
	var specs []runSpec
	for i := range cat {
		e := &cat[i]
		for _, target := range []string{"main", "b", "c"} {
			if e.targets != "" && !strings.Contains(","+e.targets+",", ","+target+",") {
				continue
			}
			for _, be := range []string{"go", "fastgo"} {
				for _, rec := range []bool{true, false} {
					if !thorough && !((be == "go" && rec) || (be == "go" && !rec && target == "c") || (be == "fastgo" && rec && target == "main")) {
						continue // quick: go -r everywhere; go (no -r) for the transitively included file; fastgo -r for the main file
					}
					specs = append(specs, runSpec{kind: "edit", e: e, target: target, backend: be, recurse: rec})
				}
			}
		}
	}
	for _, be := range []string{"go", "fastgo"} {
		for _, rec := range []bool{true, false} {
			specs = append(specs, runSpec{kind: "base", backend: be, recurse: rec})
		}
	}
	cmdlines := []struct {
		n string
		a []string
	}{
		{"no-idl", []string{"-g", "go", "-o", "{OUT}"}},
		{"two-idls", []string{"-g", "go", "-o", "{OUT}", "{IDL}/main.thrift", "{IDL}/c.thrift"}},
		{"no-gen", []string{"-o", "{OUT}", "{IDL}/main.thrift"}},
		{"unknown-backend", []string{"-g", "cpp", "-o", "{OUT}", "{IDL}/main.thrift"}},
		{"bad-bool-value", []string{"-g", "go:gen_setter=maybe", "-o", "{OUT}", "{IDL}/main.thrift"}},
		{"bad-naming-style", []string{"-g", "go:naming_style=bogus", "-o", "{OUT}", "{IDL}/main.thrift"}},
		{"bad-template", []string{"-g", "go:template=bogus", "-o", "{OUT}", "{IDL}/main.thrift"}},
		{"bad-use-package", []string{"-g", "go:use_package=nopair", "-o", "{OUT}", "{IDL}/main.thrift"}},
		{"field-mask-without-reflection", []string{"-g", "go:with_field_mask", "-o", "{OUT}", "{IDL}/main.thrift"}},
		{"apache-warning-and-adaptor", []string{"-g", "go:apache_warning,apache_adaptor", "-o", "{OUT}", "{IDL}/main.thrift"}},
		{"missing-file", []string{"-g", "go", "-o", "{OUT}", "{IDL}/nothere.thrift"}},
		{"directory-as-file", []string{"-g", "go", "-o", "{OUT}", "{IDL}"}},
		{"unknown-flag", []string{"--nope", "-g", "go", "-o", "{OUT}", "{IDL}/main.thrift"}},
		{"missing-plugin", []string{"-g", "go", "-p", "no-such-plugin-xyz", "-o", "{OUT}", "{IDL}/main.thrift"}},
		{"bad-plugin-time-limit", []string{"-g", "go", "--plugin-time-limit", "soon", "-o", "{OUT}", "{IDL}/main.thrift"}},
		{"empty-gen", []string{"-g", "", "-o", "{OUT}", "{IDL}/main.thrift"}},
		{"gen-without-value", []string{"{IDL}/main.thrift", "-g"}},
	}
	for _, c := range cmdlines {
		specs = append(specs, runSpec{kind: "cmdline", args: c.a, name: c.n})
	}
	run.Set("edits", len(cat))
	run.Set("runs", len(specs))

	var mu sync.Mutex
	outcomes := map[string]int64{}
	var wg sync.WaitGroup
	ch := make(chan int, 64)
	for w := 0; w < runtime.NumCPU(); w++ {
		wg.Add(1)
		go func() {
			defer wg.Done()
			for i := range ch {
				sp := specs[i]
				dir := filepath.Join(scratch, fmt.Sprintf("r%d", i))
				files := map[string]string{}
				for k, v := range base {
					files[k] = v
				}
				var args []string
				desc := ""
				switch sp.kind {
				case "edit":
					tf := sp.target + ".thrift"
					p := "c."
					if sp.target == "c" {
						p = ""
					}
					text := strings.ReplaceAll(sp.e.prepend, "{SELF}", tf) + files[tf] + "\n" + strings.ReplaceAll(sp.e.snippet, "{P}", p) + "\n"
					files[tf] = text
					for k, v := range sp.e.extra {
						files[k] = v
					}
					args = []string{"-g", sp.backend, "-o", "{OUT}"}
					if sp.recurse {
						args = append(args, "-r")
					}
					args = append(args, "{IDL}/main.thrift")
					desc = fmt.Sprintf("%s/%s in %s [%s%s]", sp.e.rule, sp.e.variant, tf, sp.backend, map[bool]string{true: " -r", false: ""}[sp.recurse])
				case "base":
					args = []string{"-g", sp.backend, "-o", "{OUT}"}
					if sp.recurse {
						args = append(args, "-r")
					}
					args = append(args, "{IDL}/main.thrift")
					desc = fmt.Sprintf("base [%s%s]", sp.backend, map[bool]string{true: " -r", false: ""}[sp.recurse])
				case "cmdline":
					args = sp.args
					desc = "cmdline/" + sp.name
				}
				r := execute(tg, dir, files, args)
				rp := map[string]any{"what": desc, "args": args, "files": files, "exit": r.exit, "output": tailStr(r.out, 1500), "written": r.files}
				run.Eval(desc, true)
				cls := ""
				if sp.kind == "edit" {
					cls = sp.e.rule + ":" + sp.e.variant + "@" + sp.target
				} else if sp.kind == "cmdline" {
					cls = "cmdline:" + sp.name
				}
				if sp.kind == "base" {
					want := []string{"c04/m/main.go"}
					if sp.recurse {
						want = append(want, "c04/b/b.go", "c04/c/c.go")
					}
					if sp.backend == "fastgo" {
						want = append(want, "c04/m/k-main.go")
						if sp.recurse {
							want = append(want, "c04/b/k-b.go", "c04/c/k-c.go")
						}
					}
					sort.Strings(want)
					if r.exit != 0 || strings.Join(want, ",") != strings.Join(r.files, ",") || traceLine(r.out) != "" {
						run.Violate(evid.Violation{Class: "valid-program-incomplete-output:" + desc, What: fmt.Sprintf("%s: exit %d, files %v (want %v): %s", desc, r.exit, r.files, want, firstLine(r.out)), Replay: rp})
					} else {
						mu.Lock()
						outcomes["base-complete"]++
						mu.Unlock()
					}
					continue
				}
				switch {
				case r.timedOut:
					run.Violate(evid.Violation{Class: "hang:" + cls, What: desc + ": still running after 120 s", Replay: rp})
				case traceLine(r.out) != "":
					run.Violate(evid.Violation{Class: "crash-trace:" + cls, What: fmt.Sprintf("%s: exit %d with a Go runtime trace: %s", desc, r.exit, traceLine(r.out)), Replay: rp})
				case r.exit == 0:
					run.Violate(evid.Violation{Class: "accepted:" + cls, What: fmt.Sprintf("%s: exit status 0 (files written: %d)", desc, len(r.files)), Replay: rp})
				case len(r.files) > 0:
					run.Violate(evid.Violation{Class: "partial-output:" + cls, What: fmt.Sprintf("%s: exit %d but wrote %v", desc, r.exit, r.files), Replay: rp})
				case strings.TrimSpace(r.out) == "":
					run.Violate(evid.Violation{Class: "silent:" + cls, What: fmt.Sprintf("%s: exit %d without any message", desc, r.exit), Replay: rp})
				default:
					mu.Lock()
					outcomes["diagnosed"]++
					mu.Unlock()
				}
			}
		}()
	}
	for i := range specs {
		ch <- i
	}
	close(ch)
	wg.Wait()
	run.Set("outcome_classes", outcomes)
	run.Sample(map[string]any{"edit": "typedef-cycle/len2-referenced-from-constant", "snippet": "typedef ZC1 ZC0\ntypedef ZC0 ZC1\nconst i32 ZK = ZC0.x", "target": "c.thrift (transitively included)", "command": "thriftgo -g go -o OUT -r main.thrift"})
	run.Sample(map[string]any{"base": mainText})
	run.Set("rule", "one evaluation = one process run of the thriftgo binary on the base program with one rule-breaking edit at one file (or one invalid command line); every edit changes the text and the unedited program exits 0, so all are non-trivial")
	run.Assume("cwd is empty and the environment scrubbed (no idl-ref.yaml, THRIFTGO_* unset); 120 s limit for runs that take < 0.1 s")
	run.Finish()
}

func firstLine(s string) string {
	s = strings.TrimSpace(s)
	if i := strings.IndexByte(s, '\n'); i >= 0 {
		return s[:i]
	}
	return s
}

func tailStr(s string, n int) string {
	if len(s) > n {
		return s[:n]
	}
	return s
}
