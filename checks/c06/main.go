// C06 — constants and default values in Go equal the values written in the IDL.
//
// Generate-compile-run. For every type shape and every WAY OF WRITING a value
// the type admits (literal; local / include-qualified identifier; enum by
// name, number, through a typedef; int for double; 0/1/true/false for bool;
// string literals in both quote styles with the escape alphabet; nested list /
// set / map / struct literals incl. empty ones) one constant and one struct
// with the value as default of a default-requiredness and of an optional field
// are generated under several representation-changing configurations. The
// driver dumps the package-level constant, NewX(), InitDefault() on a zero
// struct, every getter of the empty object and IsSet after storing a value
// different from the default; all are compared with refsem.Eval.
// A way that thriftgo rejects (each is probed alone first) is counted as
// "rejected" and left out (diagnosing it is C04's subject).
package main

import (
	"flag"
	"fmt"
	"strings"

	"verif/internal/evid"
	"verif/internal/gen"
	"verif/internal/idl"
	"verif/internal/refsem"
	"verif/internal/universe"
)

type way struct {
	name string
	t    *idl.Type
	v    *idl.Value
	c    *idl.Const
	s    *idl.Struct
	ev   *refsem.Val
}

func main() {
	flag.String("replay", "", "unused")
	run := evid.New("C06", "exploration")
	thorough := run.Thorough()
	ses := gen.NewSession(run, "c06")
	defer ses.Close()

	type family struct {
		name   string
		perWay bool // one item per way, so that a way whose code does not compile (C01's subject) does not hide the others
		mk     func() (main, inc *idl.File, ways []*universe.Way)
	}
	families := []family{
		{"std", false, func() (*idl.File, *idl.File, []*universe.Way) {
			e := universe.NewConstEnv("c06")
			return e.Main, e.Inc, universe.Ways(e)
		}},
		// an include whose Go package name equals the including file's, with constants of the same names
		{"samepkg", true, func() (*idl.File, *idl.File, []*universe.Way) { return universe.SamePkgFamily("c06s") }},
		// constants whose Go names coincide after conversion
		{"collide", true, func() (*idl.File, *idl.File, []*universe.Way) { return universe.CollideFamily("c06c") }},
	}
	// 1. probe each way alone (no compilation): which ones does thriftgo accept?
	pb, err := gen.NewBatch(ses.Scratch+"/probe", ses.Batch.Thriftgo)
	if err != nil {
		run.Fatal("%v", err)
	}
	accepted := map[string]bool{}
	var rejected []string
	type probe struct {
		it   *gen.Item
		name string
	}
	var probes []probe
	nWays := 0
	for _, fam := range families {
		_, _, pw := fam.mk()
		nWays += len(pw)
		for i := range pw {
			m, inc, ws := fam.mk()
			universe.Attach(m, ws[i])
			probes = append(probes, probe{pb.Add(&gen.Item{Key: fmt.Sprintf("probe-%s-%d", fam.name, i), Prog: &idl.Program{Files: []*idl.File{m, inc}}, Recurse: true}), pw[i].Name})
		}
	}
	pb.Generate()
	for _, p := range probes {
		if p.it.Exit == 0 {
			accepted[p.name] = true
		} else {
			rejected = append(rejected, p.name+": "+lastLine(p.it.Stderr+p.it.Stdout))
		}
		run.Eval("probe|"+p.name, false)
	}
	run.Set("ways", nWays)
	run.Set("ways_rejected_by_thriftgo", rejected)

	// 2. the combined program of accepted ways under every configuration
	configs := [][]string{nil, {"enum_as_int_32"}, {"value_type_in_container"}, {"naming_style=golint"}, {"naming_style=apache"}}
	if thorough {
		configs = append(configs, []string{"gen_setter"}, []string{"nil_safe"}, []string{"keep_unknown_fields"}, []string{"unescape_double_quote=false"}, []string{"with_reflection"}, []string{"reorder_fields"}, []string{"scan_value_for_enum=false"})
	}
	type cfgRun struct {
		it  *gen.Item
		ws  []*way
		cfg []string
	}
	var runs []*cfgRun
	for ci, c := range configs {
		for _, fam := range families {
			_, _, all := fam.mk()
			groups := [][]int{nil} // nil = all ways in one item
			if fam.perWay {
				groups = nil
				for i := range all {
					groups = append(groups, []int{i})
				}
			}
			for gi, grp := range groups {
				m, inc, uws := fam.mk()
				var ws []*way
				var want []string
				for wi, uw := range uws {
					if grp != nil && wi != grp[0] {
						continue
					}
					if accepted[uw.Name] {
						universe.Attach(m, uw)
						ev, err := refsem.Eval(uw.T, uw.V)
						if err != nil {
							run.Fatal("reference evaluation of %s: %v", uw.Name, err)
						}
						ws = append(ws, &way{name: uw.Name, t: uw.T, v: uw.V, c: uw.C, s: uw.S, ev: refsem.CompleteValue(uw.T, ev)})
						want = append(want, uw.C.Name)
					}
				}
				if len(ws) == 0 {
					continue
				}
				key := fmt.Sprintf("c%d", ci)
				if fam.name != "std" {
					key += fmt.Sprintf("%s%d", fam.name, gi)
				}
				it := ses.Batch.Add(&gen.Item{Key: key, Prog: &idl.Program{Files: []*idl.File{m, inc}}, Opts: c, Recurse: true, WantVars: want})
				runs = append(runs, &cfgRun{it, ws, c})
			}
		}
	}
	ses.Start("c0")

	outcomes := map[string]int64{}
	for ri, cr := range runs {
		ci := ri
		it := cr.it
		if !gen.Usable(it) {
			continue
		}
		viol := func(class, what string, w *way) {
			run.Violate(evid.Violation{Class: class, What: what, Replay: map[string]any{"way": w.name, "config": cr.cfg, "const": idl.Render(&idl.File{Path: "x.thrift", Defs: []idl.Def{{Const: w.c}}}), "expected": w.ev}})
		}
		var reqs []*gen.Req
		type q struct {
			w    *way
			kind string
		}
		var qs []q
		for _, w := range cr.ws {
			if _, ok := it.Vars[w.c.Name]; ok {
				reqs = append(reqs, &gen.Req{Type: gen.RegKey(it, w.c.Name), Op: "var"})
				qs = append(qs, q{w, "const"})
			} else {
				viol("constant-missing:"+w.name, fmt.Sprintf("no package-level constant or variable %s was generated for const %s", w.c.Name, w.c.Name), w)
			}
			if _, ok := it.Types[w.s.Name]; !ok {
				viol("struct-missing:"+w.name, "no generated type for "+w.s.Name, w)
				continue
			}
			reqs = append(reqs, &gen.Req{Type: gen.RegKey(it, w.s.Name), Op: "new"})
			qs = append(qs, q{w, "initdefault"})
			if it.Ctors[w.s.Name] {
				reqs = append(reqs, &gen.Req{Type: gen.RegKey(it, w.s.Name), Op: "ctor"})
				qs = append(qs, q{w, "ctor"})
			}
			// an optional container / struct field with a declared default that was cleared (nil) reads as the default
			switch w.t.Final().Kind {
			case idl.List, idl.Set, idl.Map, idl.StructK:
				reqs = append(reqs, &gen.Req{Type: gen.RegKey(it, w.s.Name), Op: "setget", Val: refsem.Obj().Set(2, refsem.Nil())})
				qs = append(qs, q{w, "nil-getter"})
			}
			// an optional field holding a value different from its default reports itself as set
			for _, other := range refsem.Domain(w.t, 1, true) {
				if other != nil && other.T != "n" && refsem.Same(w.t, other, w.ev) != "" {
					reqs = append(reqs, &gen.Req{Type: gen.RegKey(it, w.s.Name), Op: "setget", Val: refsem.Obj().Set(2, other)})
					qs = append(qs, q{w, "isset"})
					break
				}
			}
		}
		resps := ses.Do(reqs)
		for i, rs := range resps {
			w, kind := qs[i].w, qs[i].kind
			nontrivial := refsem.Same(w.t, w.ev, refsem.Zero(w.t)) != ""
			run.Eval(fmt.Sprintf("%d|%s|%s", ci, w.name, kind), nontrivial)
			if rs.Panic != "" {
				viol("panic:"+kind+":"+w.name, kind+" panicked: "+rs.Panic, w)
				continue
			}
			if rs.Err != "" {
				if strings.HasPrefix(rs.Err, "harness:") {
					run.Fatal("driver: %s (%s %s)", rs.Err, kind, w.name)
				}
				viol("error:"+kind+":"+w.name, kind+": "+rs.Err, w)
				continue
			}
			switch kind {
			case "const":
				if d := refsem.Same(w.t, w.ev, rs.Val); d != "" {
					viol("constant-value:"+w.name, fmt.Sprintf("constant %s: %s (IDL value / Go value)", w.c.Name, d), w)
					continue
				}
			case "initdefault", "ctor":
				want := refsem.Obj().Set(1, w.ev).Set(2, w.ev).Set(3, refsem.Int(0))
				if d := refsem.SameStruct(w.s, want, rs.Val); d != "" {
					viol("default-value:"+kind+":"+w.name, fmt.Sprintf("%s of %s: %s (IDL default / Go value)", kind, w.s.Name, d), w)
					continue
				}
				bad := false
				for _, id := range []string{"1", "2"} {
					if g, ok := rs.Getters[id]; ok {
						if d := refsem.Same(w.t, w.ev, g); d != "" && !(g.T == "n" && w.ev.IsNilish()) {
							viol("getter-default:"+w.name, fmt.Sprintf("%s.Get<field %s>() on a fresh object: %s (declared default / returned)", w.s.Name, id, d), w)
							bad = true
							break
						}
					}
				}
				if bad {
					continue
				}
			case "nil-getter":
				if g, ok := rs.Getters["2"]; ok {
					if d := refsem.Same(w.t, w.ev, g); d != "" {
						viol("getter-default-when-nil:"+w.name, fmt.Sprintf("%s: the optional field was set to nil; its getter returns something else than the declared default: %s (declared default / returned)", w.s.Name, d), w)
						continue
					}
				}
				if is, ok := rs.IsSet["2"]; ok && is {
					viol("isset-true-for-nil:"+w.name, fmt.Sprintf("%s: optional field holds nil but IsSet is true", w.s.Name), w)
					continue
				}
			case "isset":
				if is, ok := rs.IsSet["2"]; ok && !is {
					viol("isset-false-for-non-default:"+w.name, fmt.Sprintf("%s: optional field holds a value different from its default but IsSet is false", w.s.Name), w)
					continue
				}
			}
			outcomes[kind+"-ok"]++
		}
	}
	run.Set("configurations", len(configs))
	run.Set("outcome_classes", outcomes)
	if len(runs) > 0 && len(runs[0].ws) > 5 {
		w := runs[0].ws[len(runs[0].ws)/2]
		run.Sample(map[string]any{"way": w.name, "idl": idl.Render(&idl.File{Path: "x.thrift", Defs: []idl.Def{{Const: w.c}}}), "expected": w.ev.String()})
		w = runs[0].ws[30]
		run.Sample(map[string]any{"way": w.name, "idl": idl.Render(&idl.File{Path: "x.thrift", Defs: []idl.Def{{Const: w.c}}}), "expected": w.ev.String()})
	}
	run.Set("rule", "one evaluation = one (way of writing a value, configuration, observation: constant / NewX / InitDefault / getters / IsSet); non-trivial iff the value is not the zero value")
	run.Assume("string literals denote the Go interpreted string with the same body (docs/string-literals-in-the-IDL.md); fields a struct literal does not name are not compared when they have no default (none has)")
	run.Finish()
}

func lastLine(s string) string {
	s = strings.TrimSpace(s)
	if i := strings.LastIndexByte(s, '\n'); i >= 0 {
		return s[i+1:]
	}
	return s
}
