// C09 — schema evolution: unknown fields are tolerated, and preserved when asked.
//
// Generate-compile-run. Five base schemas (flat, nested struct, list<struct>,
// map<string,struct>, union+enum) and every compatible single edit (thorough:
// every pair of edits): add an {optional, default} field of each of 15 type
// classes with a fresh id at every nesting position, add a union member of
// each class, add an enum member. Old and new versions are generated with and
// without keep_unknown_fields; for every value of the new root's domain:
//
//	old reads new's bytes without error and agrees on the common fields;
//	new reads old's bytes with the added field at its default;
//	old(keep_unknown_fields) read + write yields bytes that the new schema
//	decodes to the original value, along every alternation old/new of length <= 3;
//	CarryingUnknownFields() <=> the root encoding held a field unknown to old.
package main

import (
	"encoding/hex"
	"flag"
	"fmt"
	"strconv"
	"strings"

	"verif/internal/evid"
	"verif/internal/gen"
	"verif/internal/idl"
	"verif/internal/refsem"
)

type schema struct {
	name    string
	root    *idl.Struct
	structs []*idl.Struct
	enums   []*idl.Enum
}

func fld(id int32, name string, t *idl.Type, req idl.Req) *idl.Field {
	return &idl.Field{ID: id, ExplicitID: true, Name: name, Type: t, Req: req}
}

// bases builds the five base schemas with a name suffix (so that old and every
// new variant can live in one IDL file).
func base(kind, sfx string) *schema {
	i32, str := idl.T(idl.I32), idl.T(idl.String)
	s := &schema{name: kind}
	inner := &idl.Struct{Cat: "struct", Name: "Inner" + sfx, Fields: []*idl.Field{fld(1, "x", i32, idl.ReqDefault), fld(2, "y", str, idl.ReqOptional)}}
	switch kind {
	case "flat":
		s.root = &idl.Struct{Cat: "struct", Name: "Root" + sfx, Fields: []*idl.Field{fld(1, "a", i32, idl.ReqDefault), fld(2, "b", str, idl.ReqOptional)}}
		s.structs = []*idl.Struct{s.root}
	case "nested":
		s.root = &idl.Struct{Cat: "struct", Name: "Root" + sfx, Fields: []*idl.Field{fld(1, "a", i32, idl.ReqDefault), fld(2, "in", idl.StructT(inner), idl.ReqOptional)}}
		s.structs = []*idl.Struct{inner, s.root}
	case "list":
		s.root = &idl.Struct{Cat: "struct", Name: "Root" + sfx, Fields: []*idl.Field{fld(1, "l", idl.ListOf(idl.StructT(inner)), idl.ReqDefault), fld(2, "a", i32, idl.ReqDefault)}}
		s.structs = []*idl.Struct{inner, s.root}
	case "map":
		s.root = &idl.Struct{Cat: "struct", Name: "Root" + sfx, Fields: []*idl.Field{fld(1, "m", idl.MapOf(str, idl.StructT(inner)), idl.ReqDefault), fld(2, "a", i32, idl.ReqDefault)}}
		s.structs = []*idl.Struct{inner, s.root}
	case "empty": // a root without any field
		s.root = &idl.Struct{Cat: "struct", Name: "Root" + sfx}
		s.structs = []*idl.Struct{s.root}
	case "nested0", "list0", "map0": // the inner struct has no field
		inner = &idl.Struct{Cat: "struct", Name: "Inner" + sfx}
		switch kind {
		case "nested0":
			s.root = &idl.Struct{Cat: "struct", Name: "Root" + sfx, Fields: []*idl.Field{fld(1, "a", i32, idl.ReqDefault), fld(2, "in", idl.StructT(inner), idl.ReqOptional), fld(3, "din", idl.StructT(inner), idl.ReqDefault)}}
		case "list0":
			s.root = &idl.Struct{Cat: "struct", Name: "Root" + sfx, Fields: []*idl.Field{fld(1, "l", idl.ListOf(idl.StructT(inner)), idl.ReqDefault), fld(2, "a", i32, idl.ReqDefault)}}
		default:
			s.root = &idl.Struct{Cat: "struct", Name: "Root" + sfx, Fields: []*idl.Field{fld(1, "m", idl.MapOf(str, idl.StructT(inner)), idl.ReqDefault)}}
		}
		s.structs = []*idl.Struct{inner, s.root}
	case "union0": // a union without any member and an exception without any field
		u := &idl.Struct{Cat: "union", Name: "U" + sfx}
		e := &idl.Enum{Name: "E" + sfx, Values: []*idl.EnumValue{{Name: "A"}, {Name: "B"}}}
		s.root = &idl.Struct{Cat: "struct", Name: "Root" + sfx, Fields: []*idl.Field{fld(1, "u", idl.StructT(u), idl.ReqOptional), fld(2, "e", idl.EnumT(e), idl.ReqDefault)}}
		s.structs = []*idl.Struct{u, s.root}
		s.enums = []*idl.Enum{e}
	case "union":
		e := &idl.Enum{Name: "E" + sfx, Values: []*idl.EnumValue{{Name: "A"}, {Name: "B"}}}
		u := &idl.Struct{Cat: "union", Name: "U" + sfx, Fields: []*idl.Field{fld(1, "n", i32, idl.ReqDefault), fld(2, "s", str, idl.ReqDefault)}}
		s.root = &idl.Struct{Cat: "struct", Name: "Root" + sfx, Fields: []*idl.Field{fld(1, "u", idl.StructT(u), idl.ReqOptional), fld(2, "e", idl.EnumT(e), idl.ReqDefault)}}
		s.structs = []*idl.Struct{u, s.root}
		s.enums = []*idl.Enum{e}
	}
	return s
}

func (s *schema) find(prefix string) *idl.Struct {
	for _, x := range s.structs {
		if strings.HasPrefix(x.Name, prefix) {
			return x
		}
	}
	return nil
}

type edit struct {
	desc   string
	target string                        // "Root" | "Inner" | "U" | "E"
	apply  func(s *schema, aux *auxDefs) // mutates the (fresh) schema
	id     int32
}

// auxDefs: leaf definitions shared by all variants (types of added fields).
type auxDefs struct {
	AE *idl.Enum
	AS *idl.Struct
}

type tclass struct {
	name string
	t    func(a *auxDefs) *idl.Type
}

func classes() []tclass {
	return []tclass{
		{"bool", func(a *auxDefs) *idl.Type { return idl.T(idl.Bool) }}, {"byte", func(a *auxDefs) *idl.Type { return idl.T(idl.Byte) }}, {"i16", func(a *auxDefs) *idl.Type { return idl.T(idl.I16) }},
		{"i32", func(a *auxDefs) *idl.Type { return idl.T(idl.I32) }}, {"i64", func(a *auxDefs) *idl.Type { return idl.T(idl.I64) }}, {"double", func(a *auxDefs) *idl.Type { return idl.T(idl.Double) }},
		{"string", func(a *auxDefs) *idl.Type { return idl.T(idl.String) }}, {"binary", func(a *auxDefs) *idl.Type { return idl.T(idl.Binary) }},
		{"enum", func(a *auxDefs) *idl.Type { return idl.EnumT(a.AE) }}, {"struct", func(a *auxDefs) *idl.Type { return idl.StructT(a.AS) }},
		{"list_i32", func(a *auxDefs) *idl.Type { return idl.ListOf(idl.T(idl.I32)) }}, {"set_string", func(a *auxDefs) *idl.Type { return idl.SetOf(idl.T(idl.String)) }},
		{"map_string_i64", func(a *auxDefs) *idl.Type { return idl.MapOf(idl.T(idl.String), idl.T(idl.I64)) }},
		{"list_struct", func(a *auxDefs) *idl.Type { return idl.ListOf(idl.StructT(a.AS)) }}, {"map_i32_struct", func(a *auxDefs) *idl.Type { return idl.MapOf(idl.T(idl.I32), idl.StructT(a.AS)) }},
		{"map_string_list_set", func(a *auxDefs) *idl.Type {
			return idl.MapOf(idl.T(idl.String), idl.ListOf(idl.SetOf(idl.T(idl.I16))))
		}},
	}
}

func edits() []edit {
	var out []edit
	for _, c := range classes() {
		c := c
		for _, rq := range []idl.Req{idl.ReqOptional, idl.ReqDefault} {
			rq := rq
			rn := map[idl.Req]string{idl.ReqOptional: "opt", idl.ReqDefault: "def"}[rq]
			for _, tgt := range []string{"Root", "Inner"} {
				tgt := tgt
				id := int32(10)
				if tgt == "Inner" {
					id = 7
				}
				out = append(out, edit{desc: "add-" + rn + "-" + c.name + "-to-" + tgt, target: tgt, id: id, apply: func(s *schema, a *auxDefs) {
					st := s.find(tgt)
					st.Fields = append(st.Fields, fld(id, "added", c.t(a), rq))
				}})
			}
		}
		out = append(out, edit{desc: "add-union-member-" + c.name, target: "U", id: 9, apply: func(s *schema, a *auxDefs) {
			st := s.find("U")
			st.Fields = append(st.Fields, fld(9, "added", c.t(a), idl.ReqDefault))
		}})
	}
	// added fields that carry a declared default (the reader that never sees them on the wire must still show the default)
	for _, tgt := range []string{"Root", "Inner"} {
		tgt := tgt
		id := int32(11)
		if tgt == "Inner" {
			id = 8
		}
		out = append(out, edit{desc: "add-def-i32-with-default-to-" + tgt, target: tgt, id: id, apply: func(s *schema, a *auxDefs) {
			st := s.find(tgt)
			f := fld(id, "added", idl.T(idl.I32), idl.ReqDefault)
			f.Default = idl.VI(7)
			st.Fields = append(st.Fields, f)
		}})
		out = append(out, edit{desc: "add-opt-string-with-default-to-" + tgt, target: tgt, id: id, apply: func(s *schema, a *auxDefs) {
			st := s.find(tgt)
			f := fld(id, "added", idl.T(idl.String), idl.ReqOptional)
			f.Default = idl.VS("none")
			st.Fields = append(st.Fields, f)
		}})
		out = append(out, edit{desc: "add-opt-list_i32-with-default-to-" + tgt, target: tgt, id: id, apply: func(s *schema, a *auxDefs) {
			st := s.find(tgt)
			f := fld(id, "added", idl.ListOf(idl.T(idl.I32)), idl.ReqOptional)
			f.Default = idl.VL(idl.VI(1), idl.VI(2))
			st.Fields = append(st.Fields, f)
		}})
	}
	out = append(out, edit{desc: "add-enum-member", target: "E", apply: func(s *schema, a *auxDefs) {
		s.enums[0].Values = append(s.enums[0].Values, &idl.EnumValue{Name: "ADDED", Value: 9, Explicit: true})
	}})
	return out
}

type variant struct {
	idx      int
	kind     string
	edits    []edit
	old, new *schema
}

// project: v (a value of the new root) as the old schema sees it.
func project(oldS, newS *idl.Struct, v *refsem.Val) *refsem.Val {
	if v == nil || v.T != "o" {
		return v
	}
	out := refsem.Obj()
	oids := refsem.FieldIDs(oldS.Fields)
	for i, f := range oldS.Fields {
		fv := v.Get(oids[i])
		if fv == nil {
			continue
		}
		var nf *idl.Field
		nids := refsem.FieldIDs(newS.Fields)
		for j, g := range newS.Fields {
			if nids[j] == oids[i] {
				nf = g
			}
		}
		out.Set(oids[i], projectT(f.Type, nf.Type, fv))
	}
	return out
}

func projectT(ot, nt *idl.Type, v *refsem.Val) *refsem.Val {
	ot, nt = ot.Final(), nt.Final()
	switch ot.Kind {
	case idl.StructK:
		return project(ot.Struct, nt.Struct, v)
	case idl.List, idl.Set:
		if v.T != "l" {
			return v
		}
		c := refsem.List()
		for _, e := range v.L {
			c.L = append(c.L, projectT(ot.Elem, nt.Elem, e))
		}
		return c
	case idl.Map:
		if v.T != "m" {
			return v
		}
		c := refsem.Map()
		for _, kv := range v.M {
			c.M = append(c.M, [2]*refsem.Val{kv[0], projectT(ot.Elem, nt.Elem, kv[1])})
		}
		return c
	}
	return v
}

// hasUnknownAtRoot: does the encoding of v hold a root-level field old does not know?
func hasUnknownAtRoot(oldS, newS *idl.Struct, v *refsem.Val) bool {
	known := map[int32]bool{}
	for _, id := range refsem.FieldIDs(oldS.Fields) {
		known[id] = true
	}
	c := refsem.Complete(newS, v)
	nids := refsem.FieldIDs(newS.Fields)
	for i, f := range newS.Fields {
		fv := c.Get(nids[i])
		if fv == nil || (fv.T == "n" && f.Req == idl.ReqOptional) {
			continue
		}
		if !known[nids[i]] {
			return true
		}
	}
	return false
}

func main() {
	flag.String("replay", "", "unused")
	run := evid.New("C09", "exploration")
	thorough := run.Thorough()
	ses := gen.NewSession(run, "c09")
	defer ses.Close()

	file := &idl.File{Path: "evo.thrift", Namespaces: []*idl.Namespace{{Lang: "go", Name: "c09.evo"}}}
	aux := &auxDefs{AE: &idl.Enum{Name: "AuxE", Values: []*idl.EnumValue{{Name: "P"}, {Name: "Q", Value: 4, Explicit: true}}},
		AS: &idl.Struct{Cat: "struct", Name: "AuxS", Fields: []*idl.Field{fld(1, "k", idl.T(idl.I64), idl.ReqDefault), fld(2, "t", idl.T(idl.String), idl.ReqOptional)}}}
	file.Add(aux.AE)
	file.Add(aux.AS)
	addSchema := func(s *schema) {
		for _, e := range s.enums {
			file.Add(e)
		}
		for _, st := range s.structs {
			file.Add(st)
		}
	}
	kinds := []string{"flat", "nested", "list", "map", "union", "empty", "nested0", "list0", "map0", "union0"}
	olds := map[string]*schema{}
	for _, k := range kinds {
		olds[k] = base(k, "_old_"+k)
		addSchema(olds[k])
	}
	var variants []*variant
	all := edits()
	applicable := func(k string, e edit) bool {
		switch e.target {
		case "Inner":
			return k == "nested" || k == "list" || k == "map" || k == "nested0" || k == "list0" || k == "map0"
		case "U":
			return k == "union" || k == "union0"
		case "E":
			return k == "union"
		}
		// zero-field bases: a representative subset of the field classes is enough for the root
		if k == "empty" || k == "nested0" || k == "list0" || k == "map0" || k == "union0" {
			return strings.Contains(e.desc, "-i32-") || strings.Contains(e.desc, "-string-") || strings.Contains(e.desc, "-struct-") || strings.Contains(e.desc, "-list_struct-") || strings.Contains(e.desc, "-map_string_i64-") || strings.Contains(e.desc, "-with-default-")
		}
		return true
	}
	for _, k := range kinds {
		for _, e := range all {
			if !applicable(k, e) {
				continue
			}
			v := &variant{idx: len(variants), kind: k, edits: []edit{e}, old: olds[k]}
			v.new = base(k, fmt.Sprintf("_v%d", v.idx))
			e.apply(v.new, aux)
			addSchema(v.new)
			variants = append(variants, v)
		}
	}
	if thorough {
		// pairs of edits at different targets (or the same target with different ids) on the nested and union bases
		for _, k := range []string{"nested", "union", "map"} {
			for i, e1 := range all {
				for j, e2 := range all {
					if j <= i || !applicable(k, e1) || !applicable(k, e2) || e1.target == e2.target || (i+j)%7 != 0 {
						continue
					}
					v := &variant{idx: len(variants), kind: k, edits: []edit{e1, e2}, old: olds[k]}
					v.new = base(k, fmt.Sprintf("_v%d", v.idx))
					e1.apply(v.new, aux)
					e2.apply(v.new, aux)
					addSchema(v.new)
					variants = append(variants, v)
				}
			}
		}
	}
	prog := &idl.Program{Files: []*idl.File{file}}
	plain := ses.Batch.Add(&gen.Item{Key: "plain", Prog: prog})
	kuf := ses.Batch.Add(&gen.Item{Key: "kuf", Prog: prog, Opts: []string{"keep_unknown_fields"}})
	ses.Start("plain", "kuf")
	run.Set("variants", len(variants))

	outcomes := map[string]int64{}
	type tv struct {
		v        *variant
		val      *refsem.Val
		newBytes []byte
		oldBytes []byte
	}
	var tvs []*tv
	for _, v := range variants {
		dom := refsem.StructDomain(v.new.root, 2, true)
		if len(dom) > 48 && !thorough {
			// deterministic thinning; the added field's values are all kept at least once
			var d2 []*refsem.Val
			for i, x := range dom {
				if i%((len(dom)+47)/48) == 0 {
					d2 = append(d2, x)
				}
			}
			dom = d2
		}
		// an added list / set / map with more elements than any nesting budget (70)
		for _, e := range v.edits {
			if e.target != "Root" || len(dom) == 0 {
				continue
			}
			var added *idl.Field
			for _, f := range v.new.root.Fields {
				if f.Name == "added" {
					added = f
				}
			}
			if added == nil {
				continue
			}
			ft := added.Type.Final()
			if ft.Kind != idl.List && ft.Kind != idl.Set && ft.Kind != idl.Map {
				continue
			}
			big := dom[len(dom)-1].Clone()
			var bv *refsem.Val
			switch ft.Kind {
			case idl.List, idl.Set:
				bv = refsem.List()
				ed := refsem.Domain(ft.Elem, 1, false)
				for i := 0; i < 70; i++ {
					x := ed[i%len(ed)]
					if ft.Kind == idl.Set || ft.Elem.Final().Kind == idl.I32 {
						switch ft.Elem.Final().Kind {
						case idl.I32, idl.I16, idl.I64, idl.Byte:
							x = refsem.Int(int64(i))
						case idl.String:
							x = refsem.Str(fmt.Sprintf("e%02d", i))
						}
					}
					bv.L = append(bv.L, x)
				}
			case idl.Map:
				bv = refsem.Map()
				vd := refsem.Domain(ft.Elem, 1, false)
				for i := 0; i < 70; i++ {
					var k *refsem.Val
					switch ft.Key.Final().Kind {
					case idl.String:
						k = refsem.Str(fmt.Sprintf("k%02d", i))
					default:
						k = refsem.Int(int64(i))
					}
					bv.M = append(bv.M, [2]*refsem.Val{k, vd[i%len(vd)]})
				}
			}
			big.Set(added.ID, bv)
			dom = append(dom, big)
		}
		for _, val := range dom {
			c := refsem.Complete(v.new.root, val)
			t := &tv{v: v, val: val, newBytes: refsem.EncodeStruct(nil, v.new.root.Fields, c)}
			p := project(v.old.root, v.new.root, c)
			t.oldBytes = refsem.EncodeStruct(nil, v.old.root.Fields, p)
			tvs = append(tvs, t)
		}
	}
	run.Set("value_vectors", len(tvs))
	desc := func(v *variant) string {
		var d []string
		for _, e := range v.edits {
			d = append(d, e.desc)
		}
		return v.kind + ":" + strings.Join(d, "+")
	}
	viol := func(class, what string, t *tv, extra map[string]any) {
		rp := map[string]any{"variant": desc(t.v), "value": t.val, "new_encoding": hex.EncodeToString(t.newBytes), "old_struct": t.v.old.root.Name, "new_struct": t.v.new.root.Name}
		for k, x := range extra {
			rp[k] = x
		}
		run.Violate(evid.Violation{Class: class, What: what, Replay: rp})
	}
	bad := func(rs *gen.Resp, what string, t *tv) bool {
		if rs.Panic != "" {
			viol("panic:"+what+":"+desc(t.v), fmt.Sprintf("%s panicked: %s", what, firstLine(rs.Panic)), t, nil)
			return true
		}
		if strings.HasPrefix(rs.Err, "harness:") {
			run.Fatal("driver: %s", rs.Err)
		}
		if rs.Err != "" {
			viol("error:"+what+":"+desc(t.v), fmt.Sprintf("%s failed for value %v: %s", what, t.val, rs.Err), t, nil)
			return true
		}
		return false
	}

	// step 1: old reads new's bytes (plain and kuf); new reads old's bytes; kuf read+write
	var reqs []*gen.Req
	for _, t := range tvs {
		nb, ob := hex.EncodeToString(t.newBytes), hex.EncodeToString(t.oldBytes)
		reqs = append(reqs,
			&gen.Req{Type: gen.RegKey(plain, t.v.old.root.Name), Op: "read", Bytes: nb},
			&gen.Req{Type: gen.RegKey(plain, t.v.new.root.Name), Op: "read", Bytes: ob},
			&gen.Req{Type: gen.RegKey(kuf, t.v.old.root.Name), Op: "readwrite", Bytes: nb},
			&gen.Req{Type: gen.RegKey(plain, t.v.old.root.Name), Op: "readwrite", Bytes: nb})
	}
	resps := ses.Do(reqs)
	type chainIn struct {
		t *tv
		b []byte
	}
	var chain []chainIn
	for i, t := range tvs {
		r1, r2, r3, r4 := resps[4*i], resps[4*i+1], resps[4*i+2], resps[4*i+3]
		unknownHere := hasUnknownAtRoot(t.v.old.root, t.v.new.root, t.val)
		run.Eval(desc(t.v)+"|"+t.val.Key(false), string(t.newBytes) != string(t.oldBytes))
		full := refsem.Complete(t.v.new.root, t.val)
		proj := project(t.v.old.root, t.v.new.root, full)
		if !bad(r1, "old.Read(new bytes)", t) {
			if d := refsem.SameStruct(t.v.old.root, proj, r1.Val); d != "" {
				viol("common-field-changed:"+desc(t.v), fmt.Sprintf("old version reading new data: %s (want/got)", d), t, nil)
			} else {
				outcomes["old-reads-new"]++
			}
		}
		if !bad(r2, "new.Read(old bytes)", t) {
			want := refsem.Complete(t.v.new.root, proj2new(t.v, proj))
			if d := refsem.SameStruct(t.v.new.root, want, r2.Val); d != "" {
				viol("added-field-not-default:"+desc(t.v), fmt.Sprintf("new version reading old data: %s (want/got)", d), t, nil)
			} else {
				outcomes["new-reads-old"]++
			}
		}
		if !bad(r3, "old(keep_unknown_fields).Read+Write(new bytes)", t) {
			b, _ := hex.DecodeString(r3.Bytes)
			dec, unk, err := refsem.DecodeStruct(t.v.new.root.Fields, b)
			switch {
			case err != nil || refsem.WellFormed(b) != nil:
				viol("rewritten-malformed:"+desc(t.v), fmt.Sprintf("bytes re-written by the old version do not decode: %v (%x)", err, b), t, map[string]any{"rewritten": r3.Bytes})
			case len(unk) > 0:
				viol("rewritten-garbage:"+desc(t.v), fmt.Sprintf("re-written bytes hold a field unknown to the new schema: id %d type %d", unk[0].ID, unk[0].Type), t, map[string]any{"rewritten": r3.Bytes})
			default:
				if d := refsem.SameStruct(t.v.new.root, full, dec); d != "" {
					viol("unknown-field-lost:"+desc(t.v), fmt.Sprintf("after old(keep_unknown_fields) read+write the new schema decodes a different value: %s (want/got)", d), t, map[string]any{"rewritten": r3.Bytes})
				} else {
					outcomes["kuf-roundtrip"]++
					chain = append(chain, chainIn{t, b})
				}
			}
			if c, ok := r3.Extra["carrying_unknown"].(bool); ok {
				if c != unknownHere {
					viol("carrying-unknown-wrong:"+desc(t.v), fmt.Sprintf("CarryingUnknownFields() = %v but the encoding %s a root-level field unknown to the old version", c, map[bool]string{true: "holds", false: "does not hold"}[unknownHere]), t, nil)
				}
			} else {
				viol("carrying-unknown-missing", "old(keep_unknown_fields) has no CarryingUnknownFields method", t, nil)
			}
		}
		// re-writing by an old version WITHOUT keep_unknown_fields is not part of the
		// property (only "no panic" is demanded of it)
		if r4.Panic != "" {
			viol("panic:old.Read+Write:"+desc(t.v), "old.Read+Write panicked: "+firstLine(r4.Panic), t, nil)
		} else {
			outcomes["plain-roundtrip"]++
		}
	}
	// step 2: chains new -> old(kuf) -> new(kuf) -> old(kuf), bytes must still decode to the value
	reqs = reqs[:0]
	for _, c := range chain {
		reqs = append(reqs, &gen.Req{Type: gen.RegKey(kuf, c.t.v.new.root.Name), Op: "readwrite", Bytes: hex.EncodeToString(c.b)})
	}
	resps = ses.Do(reqs)
	reqs = reqs[:0]
	var chain2 []chainIn
	for i, c := range chain {
		rs := resps[i]
		if bad(rs, "chain step new(kuf).Read+Write", c.t) {
			continue
		}
		b, _ := hex.DecodeString(rs.Bytes)
		chain2 = append(chain2, chainIn{c.t, b})
		reqs = append(reqs, &gen.Req{Type: gen.RegKey(kuf, c.t.v.old.root.Name), Op: "readwrite", Bytes: rs.Bytes})
	}
	resps = ses.Do(reqs)
	for i, c := range chain2 {
		rs := resps[i]
		run.Eval("chain|"+desc(c.t.v)+"|"+c.t.val.Key(false), true)
		if bad(rs, "chain step old(kuf).Read+Write", c.t) {
			continue
		}
		b, _ := hex.DecodeString(rs.Bytes)
		dec, unk, err := refsem.DecodeStruct(c.t.v.new.root.Fields, b)
		full := refsem.Complete(c.t.v.new.root, c.t.val)
		if err != nil || len(unk) > 0 {
			viol("chain-malformed:"+desc(c.t.v), fmt.Sprintf("after the chain new->old->new->old the bytes do not decode cleanly: %v unknown=%d", err, len(unk)), c.t, map[string]any{"final": rs.Bytes})
		} else if d := refsem.SameStruct(c.t.v.new.root, full, dec); d != "" {
			viol("chain-value-changed:"+desc(c.t.v), fmt.Sprintf("after the chain new->old->new->old: %s (want/got)", d), c.t, map[string]any{"final": rs.Bytes})
		} else {
			outcomes["chain-ok"]++
		}
	}
	run.Set("outcome_classes", outcomes)
	if len(tvs) > 0 {
		t := tvs[len(tvs)/2]
		run.Sample(map[string]any{"variant": desc(t.v), "value": t.val.String(), "new_encoding": hex.EncodeToString(t.newBytes), "old_encoding": hex.EncodeToString(t.oldBytes)})
	}
	run.Set("rule", "one evaluation = one (old/new pair, value of new) driven through old.Read, new.Read, old(keep_unknown_fields).Read+Write and the chain; non-trivial iff the new encoding differs from its projection onto the old schema (i.e. sets something unknown to old)")
	run.Assume("CarryingUnknownFields is judged for root-level additions only")
	run.Finish()
	_ = strconv.Itoa
}

// proj2new: a value of the old schema seen as a value of the new one (same ids).
func proj2new(v *variant, p *refsem.Val) *refsem.Val { return p }

func firstLine(s string) string {
	if i := strings.IndexByte(s, '\n'); i >= 0 {
		return s[:i]
	}
	return s
}
