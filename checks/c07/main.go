// C07 — code generation is deterministic.
//
// The hidden nondeterminism of a thriftgo run is (a) the start position of
// every iteration over a Go map, (b) goroutine parallelism, (c) what is
// already on disk and where the output goes. (a) is owned through a patched
// runtime (overlay of runtime/map.go, see overlay.sh): the k-th iteration
// over a map with >= 2 entries starts at a position chosen by the harness.
// For every (program, configuration):
//
//	baseline      all iterations start at position 0; run twice, in two
//	              different output directories, the second one already
//	              populated, with GOMAXPROCS 1 and 16: identical trees and
//	              identical plugin requests, and the same sequence of
//	              (calling function, map size class) iterations — which shows
//	              that iteration numbers mean the same thing in every run;
//	per site      for every call site (program counter) that iterates a map,
//	              ALL its iterations start at v (quick: v = 1, the rotation
//	              that changes the order of every map with >= 2 entries;
//	              thorough: every v < 8 * 2^B);
//	per iteration (thorough, two programs) every single iteration k alone,
//	              every start v of that map;
//	diagonals     every iteration starts at v, v = 1..7;
//	pairs         (thorough) a site and the first iteration of another site;
//
// and every run must produce the baseline's file set, bytes and plugin
// request (plain and include-compressed form). Then the stock binary (no
// overlay, real random starts and hash seeds) is run repeatedly under
// GOMAXPROCS 1, 2, 16 into fresh and populated directories.
package main

import (
	"bytes"
	"crypto/sha256"
	"flag"
	"fmt"
	"os"
	"os/exec"
	"path/filepath"
	"sort"
	"strings"
	"sync"
	"time"

	"verif/internal/docs"
	"verif/internal/evid"
	"verif/internal/gen"
	"verif/internal/idl"
	"verif/internal/progs"
	"verif/internal/universe"
)

type cfg struct {
	name     string
	args     []string // between the program name and the IDL path, without -o
	diagOnly bool     // an option on its own. quick: baseline + the 7 diagonals, on the annotated program only;
	// thorough: every program; per-site deviations (start 1) on the annotated program, diagonals elsewhere
}

type outcome struct {
	exit  int
	err   string
	files map[string]string // rel path -> sha256
	sizes map[string]int    // rel path -> length
	req   string            // sha256 of the plain request
	reqz  string            // sha256 of the compressed request
	norm  string            // sha256 of the request without Name2Category maps + those maps as sorted lines
	iters []string
}

const n2cOnly = "the plugin request has different bytes: the entries of a Name2Category map are written in another order"

func hash(b []byte) string { return fmt.Sprintf("%x", sha256.Sum256(b)) }

func (o *outcome) diff(base *outcome) string {
	if o.exit != base.exit {
		return fmt.Sprintf("exit %d vs %d: %s", o.exit, base.exit, o.err)
	}
	var names []string
	for f := range base.files {
		names = append(names, f)
	}
	sort.Strings(names)
	for _, f := range names {
		h, ok := o.files[f]
		if !ok {
			return "file " + f + " is missing"
		}
		if h != base.files[f] {
			return "file " + f + " has different bytes"
		}
	}
	for f := range o.files {
		if _, ok := base.files[f]; !ok {
			return "extra file " + f
		}
	}
	if o.norm != base.norm {
		return "the plugin request differs (in more than the order of Name2Category entries)"
	}
	if o.req != base.req || o.reqz != base.reqz {
		return n2cOnly
	}
	return ""
}

func main() {
	flag.String("replay", "", "unused")
	run := evid.New("C07", "exploration")
	thorough := run.Thorough()
	scratch := os.Getenv("VERIF_SCRATCH")
	if scratch == "" {
		run.Fatal("VERIF_SCRATCH not set (run through ./check)")
	}
	overlay := filepath.Join(scratch, "overlay.json")
	worker := filepath.Join(scratch, "c07w")
	{
		cmd := exec.Command("go", "build", "-tags", "verif", "-overlay", overlay, "-o", worker, "./checks/c07/worker")
		cmd.Dir = "/verif"
		cmd.Env = gen.GoEnv()
		if out, err := cmd.CombinedOutput(); err != nil {
			run.Fatal("building the worker: %v\n%s", err, out)
		}
	}
	tg, err := gen.BuildThriftgo(scratch)
	if err != nil {
		run.Fatal("%v", err)
	}

	// ---- programs
	type dprog struct {
		name  string
		main  string
		texts map[string]string
	}
	var dps []*dprog
	all := progs.Programs()
	if thorough {
		env := universe.NewEnv("c07t")
		env.StandardRoots(env.Types1(false))
		all = append(all, &progs.Prog{Name: "type-shapes", Files: env.Program().Files})
	}
	for _, p := range all {
		if p.Name == "two-includes-same-base-name" {
			continue // nothing the other programs do not have
		}
		dir := filepath.Join(scratch, "idl", p.Name)
		texts := docs.Texts(&idl.Program{Files: p.Files})
		for rel, t := range texts {
			fp := filepath.Join(dir, rel)
			os.MkdirAll(filepath.Dir(fp), 0o755)
			os.WriteFile(fp, []byte(t), 0o644)
		}
		dps = append(dps, &dprog{p.Name, filepath.Join(dir, p.Files[0].Path), texts})
	}
	cfgs := []cfg{
		{"go -r", []string{"-g", "go", "-r"}, false},
		{"go", []string{"-g", "go"}, false},
		{"go:with_reflection -r", []string{"-g", "go:with_reflection", "-r"}, false},
		{"go:with_reflection,with_field_mask -r", []string{"-g", "go:with_reflection,with_field_mask", "-r"}, false},
		{"go:gen_type_meta,reserve_comments -r", []string{"-g", "go:gen_type_meta,reserve_comments", "-r"}, false},
		{"go:keep_unknown_fields,gen_deep_equal,frugal_tag -r", []string{"-g", "go:keep_unknown_fields,gen_deep_equal,frugal_tag", "-r"}, false},
		{"go:template=slim -r", []string{"-g", "go:template=slim", "-r"}, false},
		{"go:trim_idl -r", []string{"-g", "go:trim_idl", "-r"}, false},
		{"fastgo -r", []string{"-g", "fastgo", "-r"}, false},
	}
	if thorough {
		cfgs = append(cfgs,
			cfg{"go:template=raw_struct -r", []string{"-g", "go:template=raw_struct", "-r"}, false},
			cfg{"go:use_option,gen_setter,json_enum_as_text -r", []string{"-g", "go:use_option,gen_setter,json_enum_as_text", "-r"}, false},
			cfg{"go:naming_style=apache,with_reflection -r", []string{"-g", "go:naming_style=apache,with_reflection", "-r"}, false},
			cfg{"go:streamx,thrift_streaming,no_processor -r", []string{"-g", "go:thrift_streaming,no_processor", "-r"}, false},
			cfg{"go:enable_nested_struct,nil_safe,code_ref -r", []string{"-g", "go:enable_nested_struct,nil_safe,code_ref", "-r"}, false},
			cfg{"fastgo:with_reflection -r", []string{"-g", "fastgo:with_reflection", "-r"}, false},
		)
	}

	// every documented option on its own
	opts, err := gen.DocumentedOptions()
	if err != nil {
		run.Fatal("%v", err)
	}
	have := map[string]bool{}
	for _, c := range cfgs {
		have[c.name] = true
	}
	for _, o := range opts {
		l := gen.OptionAlone(o)
		if l == nil {
			continue
		}
		name := "go:" + strings.Join(l, ",") + " -r"
		if !have[name] {
			have[name] = true
			cfgs = append(cfgs, cfg{name, []string{"-g", "go:" + strings.Join(l, ","), "-r"}, true})
		}
		// the fastgo backend takes the same options
		fname := "fastgo:" + strings.Join(l, ",") + " -r"
		if !have[fname] {
			have[fname] = true
			cfgs = append(cfgs, cfg{fname, []string{"-g", "fastgo:" + strings.Join(l, ","), "-r"}, true})
		}
	}
	var mu sync.Mutex
	caseN := 0
	// one worker run; the output tree is hashed and removed
	exec1 := func(bin string, dp *dprog, c cfg, mapSpec string, gomaxprocs int, populate map[string]string, wantIters bool) *outcome {
		mu.Lock()
		caseN++
		dir := filepath.Join(scratch, "runs", fmt.Sprintf("%08d", caseN))
		mu.Unlock()
		out := filepath.Join(dir, "out-"+fmt.Sprint(caseN%7)) // the directory's own name varies
		os.MkdirAll(out, 0o755)
		defer os.RemoveAll(dir)
		for rel, content := range populate {
			fp := filepath.Join(out, rel)
			os.MkdirAll(filepath.Dir(fp), 0o755)
			os.WriteFile(fp, []byte(content), 0o644)
		}
		args := append(append([]string{}, c.args...), "-o", out, dp.main)
		cmd := exec.Command(bin, args...)
		cmd.Dir = dir
		cmd.Env = append(os.Environ(), "VERIF_MAP="+mapSpec, "VERIF_REQ="+filepath.Join(dir, "req.bin"), fmt.Sprintf("GOMAXPROCS=%d", gomaxprocs))
		if wantIters {
			cmd.Env = append(cmd.Env, "VERIF_ITERS="+filepath.Join(dir, "iters.txt"))
		}
		var buf bytes.Buffer
		cmd.Stdout, cmd.Stderr = &buf, &buf
		o := &outcome{files: map[string]string{}, sizes: map[string]int{}}
		if err := cmd.Run(); err != nil {
			o.exit = 1
			o.err = buf.String()
			if len(o.err) > 400 {
				o.err = o.err[len(o.err)-400:]
			}
		}
		filepath.Walk(out, func(p string, info os.FileInfo, err error) error {
			if err == nil && !info.IsDir() {
				rel, _ := filepath.Rel(out, p)
				if _, pre := populate[rel]; pre && strings.HasPrefix(rel, "stale/") {
					return nil
				}
				b, _ := os.ReadFile(p)
				// the only place the output root may legitimately appear is nowhere: contents must not mention it
				o.files[rel] = hash(bytes.ReplaceAll(b, []byte(out), []byte("<OUT>")))
				o.sizes[rel] = len(b)
			}
			return nil
		})
		if b, err := os.ReadFile(filepath.Join(dir, "req.bin")); err == nil {
			o.req = hash(bytes.ReplaceAll(b, []byte(out), []byte("<OUT>")))
		}
		if b, err := os.ReadFile(filepath.Join(dir, "req.bin.z")); err == nil {
			o.reqz = hash(bytes.ReplaceAll(b, []byte(out), []byte("<OUT>")))
		}
		if b, err := os.ReadFile(filepath.Join(dir, "req.bin.norm")); err == nil {
			o.norm = hash(bytes.ReplaceAll(b, []byte(out), []byte("<OUT>")))
		}
		if wantIters {
			b, _ := os.ReadFile(filepath.Join(dir, "iters.txt"))
			o.iters = strings.Split(strings.TrimSpace(string(b)), "\n")
			if len(o.iters) == 1 && o.iters[0] == "" {
				o.iters = nil
			}
		}
		return o
	}

	type job struct {
		spec string
		what string
		k    int
	}
	outcomes := map[string]int64{}
	totalIters, totalRuns := 0, 0
	allSites := map[string]int{}
	var sampleIters []string
	for _, dp := range dps {
		for _, c := range cfgs {
			if c.diagOnly && ((!thorough && dp.name != "annotated-same-base-name") || dp.name == "type-shapes") {
				continue
			}
			key := dp.name + "|" + c.name
			rp := map[string]any{"program": dp.name, "args": c.args, "files": dp.texts}
			base := exec1(worker, dp, c, "-1,0,-1,0,0", 1, nil, true)
			if base.exit != 0 {
				// a configuration that thriftgo rejects for this program is not a determinism question
				run.Note(fmt.Sprintf("%s: rejected by thriftgo (%s)", key, firstLine(base.err)))
				outcomes["rejected"]++
				continue
			}
			if len(base.files) == 0 && base.req != "" {
				run.Note(fmt.Sprintf("%s: writes no file (only the plugin request is compared)", key))
			} else if len(base.files) == 0 || base.req == "" {
				run.Fatal("%s: baseline produced %d files, request recorded=%v", key, len(base.files), base.req != "")
			}
			run.Eval(key+"|baseline", true)
			// baseline again: other directory, populated with the previous output + a stale file, GOMAXPROCS 16
			pop := map[string]string{"stale/old.txt": "left over"}
			// every file the run is going to write already exists, longer than what will be written
			for rel := range base.files {
				pop[rel] = strings.Repeat("// stale line of an earlier, longer output\n", 4000)
			}
			again := exec1(worker, dp, c, "-1,0,-1,0,0", 16, pop, true)
			run.Eval(key+"|baseline-again", true)
			if d := again.diff(base); d == n2cOnly {
				// maps with more than 8 entries: the placement of keys depends on the per-process hash seed
				run.Violate(evid.Violation{Class: "plugin-request:Name2Category-order", What: fmt.Sprintf("%s: two runs with the same iteration starts: %s", key, d), Replay: rp})
			} else if d != "" {
				run.Violate(evid.Violation{Class: "differs-without-any-map-deviation:" + c.name, What: fmt.Sprintf("%s: the same command with the same iteration starts, in another (populated) directory with GOMAXPROCS=16: %s", key, d), Replay: rp})
				continue
			}
			// once more into a directory where every file already exists with exactly the length it is
			// going to have, but other content (an earlier revision with renamed identifiers)
			pop2 := map[string]string{}
			for rel, n := range base.sizes {
				pop2[rel] = strings.Repeat("#", n)
			}
			again2 := exec1(worker, dp, c, "-1,0,-1,0,0", 8, pop2, false)
			run.Eval(key+"|baseline-over-same-length-files", true)
			if d := again2.diff(base); d != "" && d != n2cOnly {
				run.Violate(evid.Violation{Class: "differs-over-same-length-stale-files:" + c.name, What: fmt.Sprintf("%s: the same command into a directory whose files have the final lengths but other content: %s", key, d), Replay: rp})
				continue
			}
			stable := len(base.iters) == len(again.iters)
			if stable {
				for i := range base.iters {
					if base.iters[i] != again.iters[i] {
						stable = false
						break
					}
				}
			}
			if !stable {
				run.NotExhaustive(fmt.Sprintf("%s: the sequence of map iterations is not the same in two runs (%d vs %d): deviations are indexed by position only", key, len(base.iters), len(again.iters)))
			}
			if len(sampleIters) == 0 && len(base.iters) > 3 {
				sampleIters = append([]string{key}, base.iters[:min(len(base.iters), 12)]...)
			}
			totalIters += len(base.iters)
			var jobs []job
			// call sites: every iteration made from one program counter deviates at once
			type site struct {
				pc    string
				fn    string
				maxB  int
				count int
				first int
			}
			sites := map[string]*site{}
			var siteOrder []string
			for k, line := range base.iters {
				f := strings.Fields(line)
				if len(f) < 3 {
					continue
				}
				var b int
				fmt.Sscanf(f[0], "%d", &b)
				st := sites[f[1]]
				if st == nil {
					st = &site{pc: f[1], fn: strings.Join(f[2:], " "), first: k}
					sites[f[1]] = st
					siteOrder = append(siteOrder, f[1])
				}
				st.count++
				if b > st.maxB {
					st.maxB = b
				}
			}
			mu.Lock()
			for _, pc := range siteOrder {
				allSites[sites[pc].fn] += sites[pc].count
			}
			mu.Unlock()
			for _, pc := range siteOrder {
				if c.diagOnly && (!thorough || dp.name != "annotated-same-base-name") {
					break
				}
				st := sites[pc]
				starts := []int{1}
				if thorough && !c.diagOnly && dp.name != "type-shapes" {
					starts = nil
					for v := 1; v < 8<<uint(st.maxB); v++ {
						starts = append(starts, v)
					}
				} else if st.maxB > 0 {
					starts = []int{1, 8, 9} // next slot, next bucket, both
				}
				for _, v := range starts {
					jobs = append(jobs, job{fmt.Sprintf("-1,0,-1,0,0,%s,%d", pc, v), fmt.Sprintf("all %d iterations made by %s start at %d", st.count, st.fn, v), st.first})
				}
			}
			if thorough && !c.diagOnly && dp.name == "interplay" && (c.name == "go -r" || c.name == "go:with_reflection,with_field_mask -r" || c.name == "fastgo -r") {
				// every single iteration on its own
				for k, line := range base.iters {
					var b int
					fmt.Sscanf(line, "%d", &b)
					for v := 1; v < 8<<uint(b); v++ {
						jobs = append(jobs, job{fmt.Sprintf("%d,%d,-1,0,0", k, v), fmt.Sprintf("iteration %d (%s) starts at %d", k, line, v), k})
					}
				}
			}
			for v := 1; v < 8; v++ {
				jobs = append(jobs, job{fmt.Sprintf("-1,0,-1,0,%d", v), fmt.Sprintf("every iteration starts at %d", v), -1})
			}
			if thorough && dp.name == "interplay" && c.name == "go:with_reflection -r" {
				// pairs of call sites
				for i, p1 := range siteOrder {
					for _, p2 := range siteOrder[i+1:] {
						_ = p2
						k2 := sites[p2].first
						jobs = append(jobs, job{fmt.Sprintf("%d,1,-1,0,0,%s,1", k2, p1), fmt.Sprintf("all iterations of %s and the first of %s start at 1", sites[p1].fn, sites[p2].fn), sites[p1].first})
					}
				}
			}
			totalRuns += len(jobs)
			type res struct {
				j job
				d string
			}
			results := make([]res, len(jobs))
			var wg sync.WaitGroup
			sem := make(chan struct{}, 16)
			for i, j := range jobs {
				wg.Add(1)
				sem <- struct{}{}
				go func(i int, j job) {
					defer wg.Done()
					defer func() { <-sem }()
					o := exec1(worker, dp, c, j.spec, 1+i%3*7, nil, false)
					results[i] = res{j, o.diff(base)}
				}(i, j)
			}
			wg.Wait()
			bad := map[string]bool{}
			for _, r := range results {
				run.Eval(key+"|"+r.j.spec, true)
				if r.d == "" {
					outcomes["same-as-baseline"]++
					continue
				}
				outcomes["differs"]++
				// class: what differs + the function whose iteration was moved
				fn := "diagonal"
				if r.j.k >= 0 && r.j.k < len(base.iters) {
					f := strings.Fields(base.iters[r.j.k])
					if len(f) >= 3 {
						fn = f[2]
					}
				}
				what := r.d
				if strings.HasPrefix(what, "file ") {
					f := strings.Fields(what)[1]
					what = "file *" + filepath.Ext(f) + suffixOf(f) + " " + strings.Join(strings.Fields(what)[2:], " ")
				}
				cls := "order-reaches-output:" + fn + ":" + what
				if r.d == n2cOnly {
					cls = "plugin-request:Name2Category-order"
				}
				if !bad[cls] || true {
					bad[cls] = true
					m := map[string]any{"map_spec": r.j.spec, "deviation": r.j.what}
					for k, v := range rp {
						m[k] = v
					}
					run.Violate(evid.Violation{Class: cls, What: fmt.Sprintf("%s: %s => %s", key, r.j.what, r.d), Replay: m})
				}
			}
		}
	}
	// ---- the stock binary: real random starts and hash seeds
	stockRuns := 0
	reps := 6
	if thorough {
		reps = 20
	}
	for _, dp := range dps {
		for _, c := range cfgs {
			if c.diagOnly && (thorough || dp.name != "annotated-same-base-name") {
				continue // thorough: the options on their own are covered by the worker runs
			}
			key := dp.name + "|" + c.name + "|stock"
			var base *outcome
			type r struct {
				o *outcome
				g int
			}
			rs := make([]r, reps)
			var wg sync.WaitGroup
			for i := 0; i < reps; i++ {
				wg.Add(1)
				go func(i int) {
					defer wg.Done()
					g := []int{1, 2, 16}[i%3]
					var pop map[string]string
					if i%2 == 1 {
						pop = map[string]string{"stale/old.txt": "x"}
					}
					rs[i] = r{execStock(tg, scratch, &mu, &caseN, dp.main, c.args, g, pop), g}
				}(i)
			}
			wg.Wait()
			for i, x := range rs {
				stockRuns++
				run.Eval(fmt.Sprintf("%s|%d", key, i), true)
				if i == 0 {
					base = x.o
					continue
				}
				if d := x.o.diff(base); d != "" {
					run.Violate(evid.Violation{Class: "stock-binary-runs-differ:" + c.name, What: fmt.Sprintf("%s: run %d (GOMAXPROCS=%d) differs from run 0: %s", key, i, x.g, d), Replay: map[string]any{"program": dp.name, "args": c.args, "files": dp.texts}})
					break
				}
			}
			outcomes["stock-identical"]++
		}
	}
	run.Set("programs", len(dps))
	run.Set("configurations", len(cfgs))
	run.Set("map_iterations_hooked", totalIters)
	run.Set("call_sites_iterating_maps", allSites)
	run.Set("deviation_runs", totalRuns)
	run.Set("stock_binary_runs", stockRuns)
	run.Set("outcome_classes", outcomes)
	run.Sample(map[string]any{"first_iterations_of": sampleIters})
	run.Sample(map[string]any{"deviation": "VERIF_MAP=17,3,-1,0,0: the 18th iteration over a map with >=2 entries starts at slot 3 of its bucket; output tree and plugin request must equal the baseline's"})
	run.Set("rule", "one evaluation = one thriftgo run under one assignment of map-iteration starts (or one stock-binary run); all are non-trivial: every hooked iteration is over a map with at least two entries")
	run.Assume("a map iteration whose order can reach the output changes the output for at least one rotation of its start position; the placement of keys inside maps with more than 8 entries also depends on per-process hash seeds, which are only varied by the repeated stock-binary runs")
	run.Assume("time.Sleep-free: no wall-clock oracle is used; GOMAXPROCS is varied over 1, 8, 15 (worker) and 1, 2, 16 (stock binary)")
	run.Finish()
}

func suffixOf(f string) string {
	b := filepath.Base(f)
	for _, s := range []string{"-reflection.go", "k-", "hessian2"} {
		if strings.Contains(b, s) {
			return "(" + s + ")"
		}
	}
	return ""
}

func firstLine(s string) string {
	s = strings.TrimSpace(s)
	if i := strings.IndexByte(s, '\n'); i >= 0 {
		return s[:i]
	}
	return s
}

func execStock(tg, scratch string, mu *sync.Mutex, caseN *int, mainPath string, cargs []string, gomaxprocs int, populate map[string]string) *outcome {
	mu.Lock()
	*caseN++
	n := *caseN
	mu.Unlock()
	dir := filepath.Join(scratch, "runs", fmt.Sprintf("%08d", n))
	out := filepath.Join(dir, "o"+fmt.Sprint(n%5))
	os.MkdirAll(out, 0o755)
	defer os.RemoveAll(dir)
	for rel, content := range populate {
		fp := filepath.Join(out, rel)
		os.MkdirAll(filepath.Dir(fp), 0o755)
		os.WriteFile(fp, []byte(content), 0o644)
	}
	args := append(append([]string{}, cargs...), "-o", out, mainPath)
	cmd := exec.Command(tg, args...)
	cmd.Dir = dir
	cmd.Env = append(os.Environ(), fmt.Sprintf("GOMAXPROCS=%d", gomaxprocs))
	var buf bytes.Buffer
	cmd.Stdout, cmd.Stderr = &buf, &buf
	o := &outcome{files: map[string]string{}}
	done := make(chan error, 1)
	go func() { done <- cmd.Run() }()
	select {
	case err := <-done:
		if err != nil {
			o.exit, o.err = 1, buf.String()
		}
	case <-time.After(5 * time.Minute):
		cmd.Process.Kill()
		o.exit, o.err = 1, "did not terminate"
	}
	filepath.Walk(out, func(p string, info os.FileInfo, err error) error {
		if err == nil && !info.IsDir() {
			rel, _ := filepath.Rel(out, p)
			if strings.HasPrefix(rel, "stale/") {
				return nil
			}
			b, _ := os.ReadFile(p)
			o.files[rel] = hash(bytes.ReplaceAll(b, []byte(out), []byte("<OUT>")))
		}
		return nil
	})
	return o
}
