// c07 worker: one thriftgo run (sdk.InvokeThriftgo) in a process whose map
// iteration starts are chosen by the harness (runtime overlay).
//
//	VERIF_MAP   "k1,v1,k2,v2,diag,sitepc,sitev"  iteration k1 (k2) starts at v1 (v2), every iteration
//	            called from program counter sitepc (hex) at sitev, all others at diag
//	VERIF_REQ   file receiving the marshalled plugin request (plain) ; VERIF_REQ+".z" the compressed form
//	VERIF_ITERS file receiving one line per hooked iteration: "<B> <pc> <calling function> <file:line>"
//
// The remaining arguments are thriftgo's.
package main

import (
	"fmt"
	"os"
	"runtime"
	"sort"
	"strings"
	_ "unsafe"

	"github.com/cloudwego/thriftgo/parser"
	"github.com/cloudwego/thriftgo/plugin"
	"github.com/cloudwego/thriftgo/sdk"
)

//go:linkname verifMapSet runtime.verifMapSet
func verifMapSet(k1, v1, k2, v2, diag int64, sitePC uintptr, siteV int64)

//go:linkname verifMapStop runtime.verifMapStop
func verifMapStop() int64

//go:linkname verifMapInfo runtime.verifMapInfo
func verifMapInfo(k int64) (uint8, uintptr)

type rec struct{ path string }

func (r *rec) GetName() string               { return "vrec" }
func (r *rec) GetPluginParameters() []string { return []string{"k=v", "flag="} }
func (r *rec) Invoke(req *plugin.Request) *plugin.Response {
	if r.path != "" {
		b, err := plugin.MarshalRequest(req)
		if err != nil {
			return plugin.BuildErrorResponse(err.Error())
		}
		os.WriteFile(r.path, b, 0o644)
		// the same request without the Name2Category maps, and those maps as sorted lines:
		// lets the check tell "only the order of Name2Category entries differs" from anything else
		if back, err := plugin.UnmarshalRequest(b); err == nil {
			var lines []string
			seen := map[*parser.Thrift]bool{}
			var walk func(t *parser.Thrift)
			walk = func(t *parser.Thrift) {
				if t == nil || seen[t] {
					return
				}
				seen[t] = true
				for k, v := range t.Name2Category {
					lines = append(lines, fmt.Sprintf("%s %s=%d", t.Filename, k, v))
				}
				t.Name2Category = nil
				for _, inc := range t.Includes {
					walk(inc.Reference)
				}
			}
			walk(back.AST)
			sort.Strings(lines)
			nb, _ := plugin.MarshalRequest(back)
			os.WriteFile(r.path+".norm", append(nb, []byte(strings.Join(lines, "\n"))...), 0o644)
		}
		z, err := plugin.VerifMarshalCompressed(req)
		if err != nil {
			return plugin.BuildErrorResponse(err.Error())
		}
		os.WriteFile(r.path+".z", z, 0o644)
	}
	return plugin.NewResponse()
}

func main() {
	var k1, v1, k2, v2, diag, siteV int64 = -1, 0, -1, 0, 0, 0
	var sitePC uint64
	if s := os.Getenv("VERIF_MAP"); s != "" {
		fmt.Sscanf(s, "%d,%d,%d,%d,%d,%x,%d", &k1, &v1, &k2, &v2, &diag, &sitePC, &siteV)
	}
	args := append([]string{"thriftgo"}, os.Args[1:]...)
	verifMapSet(k1, v1, k2, v2, diag, uintptr(sitePC), siteV)
	err := sdk.InvokeThriftgo([]plugin.SDKPlugin{&rec{os.Getenv("VERIF_REQ")}}, args...)
	n := verifMapStop()
	if p := os.Getenv("VERIF_ITERS"); p != "" {
		var sb strings.Builder
		for k := int64(0); k < n; k++ {
			b, pc := verifMapInfo(k)
			name := "?"
			if f := runtime.FuncForPC(pc); f != nil {
				file, line := f.FileLine(pc)
				if i := strings.LastIndex(file, "/"); i >= 0 {
					file = file[i+1:]
				}
				name = fmt.Sprintf("%s %s:%d", f.Name(), file, line)
			}
			fmt.Fprintf(&sb, "%d %x %s\n", b, pc, name)
		}
		os.WriteFile(p, []byte(sb.String()), 0o644)
	}
	if err != nil {
		fmt.Fprintln(os.Stderr, err.Error())
		os.Exit(2)
	}
}
