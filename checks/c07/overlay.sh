#!/bin/bash
# writes the overlay description ($1): a patched copy of $GOROOT/src/runtime/map.go in
# which the start of every iteration over a map with >= 2 entries can be chosen by the
# harness (through linkname'd accessors), plus the plugin export file.
set -e
out="$1"; dir="$(dirname "$out")/rt"; mkdir -p "$dir"
goroot="$(go env GOROOT)"
src="$goroot/src/runtime/map.go"
grep -q 'r := uintptr(rand())' "$src" || { echo "runtime/map.go: patch point not found" >&2; exit 1; }
python3 - "$src" "$dir/map.go" <<'PY'
import sys
s=open(sys.argv[1]).read()
assert s.count('\tr := uintptr(rand())\n')==1
s=s.replace('\tr := uintptr(rand())\n','\tr := uintptr(rand())\n\tif verifMap.on && h.count >= 2 {\n\t\tr = verifMapStart(h, getcallerpc())\n\t}\n')
s+='''

// ---- verification hook (overlay only) ----
const verifMapMax = 1 << 14

var verifMap struct {
	on     bool
	count  int64
	k1, v1 int64
	k2, v2 int64
	diag   int64
	sitePC uintptr
	siteV  int64
	bs     [verifMapMax]uint8
	pcs    [verifMapMax]uintptr
}

func verifMapStart(h *hmap, pc uintptr) uintptr {
	k := atomic.Xaddint64(&verifMap.count, 1) - 1
	if k < verifMapMax {
		verifMap.bs[k] = h.B
		verifMap.pcs[k] = pc
	}
	if verifMap.sitePC != 0 && pc == verifMap.sitePC {
		return uintptr(verifMap.siteV)
	}
	switch k {
	case verifMap.k1:
		return uintptr(verifMap.v1)
	case verifMap.k2:
		return uintptr(verifMap.v2)
	}
	return uintptr(verifMap.diag)
}

//go:linkname verifMapSet
// verifMapSet switches the hook on: iteration number k1 (k2) starts at v1 (v2), every iteration
// called from sitePC at siteV, all others at diag.
func verifMapSet(k1, v1, k2, v2, diag int64, sitePC uintptr, siteV int64) {
	verifMap.k1, verifMap.v1, verifMap.k2, verifMap.v2, verifMap.diag = k1, v1, k2, v2, diag
	verifMap.sitePC, verifMap.siteV = sitePC, siteV
	verifMap.count = 0
	verifMap.on = true
}

//go:linkname verifMapStop
// verifMapStop switches the hook off and returns the number of hooked iterations.
func verifMapStop() int64 {
	verifMap.on = false
	return verifMap.count
}

//go:linkname verifMapInfo
func verifMapInfo(k int64) (uint8, uintptr) {
	if k < 0 || k >= verifMapMax {
		return 0, 0
	}
	return verifMap.bs[k], verifMap.pcs[k]
}
'''
open(sys.argv[2],'w').write(s)
PY
cat > "$out" <<JSON
{"Replace": {"$src": "$dir/map.go", "/repo/plugin/export_verif.go": "/verif/overlays/plugin/export_verif.go"}}
JSON
