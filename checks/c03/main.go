// C03 — the parser is total and the AST is faithful to the source text.
//
// Bounded-exhaustive, in-process on parser.ParseString (each call under
// recover):
//
//	totality     (a) all strings over a 14-byte alphabet up to length L
//	             (b) all sequences of <= K tokens from a 36-token alphabet
//	             (c) every prefix, single-token deletion and duplication of every
//	                 document of the faithful-AST universe
//	             (d) pumping families w x^n y up to 64 KiB (must return; < 20 s each)
//	faithfulness every document of a universe built from every definition kind
//	             with every optional part present/absent, rendered under the
//	             baseline layout, every 1-deviation layout (each token boundary x
//	             each filler, each separator slot, each quote, each integer
//	             spelling) and (thorough) every 2-deviation on the smallest docs;
//	             AST must equal the model's AST field by field.
//
// Not asserted: which error is returned for ungrammatical input; recorded
// comments; requiredness recorded for throws fields (thrift treats them as
// optional whatever is written; the property does not say).
package main

import (
	"flag"
	"fmt"
	"os"
	"runtime"
	"strings"
	"sync"
	"sync/atomic"
	"time"

	"verif/internal/docs"
	"verif/internal/evid"
	"verif/internal/idl"
	"verif/internal/idlast"

	"github.com/cloudwego/thriftgo/parser"
)

type parseRes struct {
	ast   *parser.Thrift
	err   error
	panic string
}

func parse(text string) (r parseRes) {
	defer func() {
		if x := recover(); x != nil {
			r.panic = fmt.Sprint(x)
		}
	}()
	r.ast, r.err = parser.ParseString("doc.thrift", text)
	return
}

func panicClass(p string) string {
	// strip addresses / indices so that one defect is one class
	for _, cut := range []string{"[", "0x"} {
		if i := strings.Index(p, cut); i > 0 {
			p = p[:i]
		}
	}
	return strings.TrimSpace(p)
}

// ---------------------------------------------------------------- layouts

var fillers = []string{" ", "\t", "\n", "\r\n", "/*c*/", "//c\n", "#c\n", " /* m\n * n */ ", "\n\n  ", "", "/*é€*/", "// ü 中\n"}

type deviation struct {
	kind string // "gap" | "sep" | "quote" | "num"
	idx  int
	alt  int
}

func layoutWith(devs []deviation) idl.Layout {
	l := idl.Baseline()
	l.Gap = func(i int, need bool) string {
		for _, d := range devs {
			if d.kind == "gap" && d.idx == i {
				f := fillers[d.alt]
				if f == "" && need {
					return " "
				}
				return f
			}
		}
		if i == 0 {
			return ""
		}
		return " "
	}
	l.Sep = func(k int) string {
		for _, d := range devs {
			if d.kind == "sep" && d.idx == k {
				return []string{",", ";", ""}[d.alt]
			}
		}
		return ","
	}
	l.Quote = func(k int) byte {
		for _, d := range devs {
			if d.kind == "quote" && d.idx == k {
				return '\''
			}
		}
		return '"'
	}
	l.Num = func(k, n int) int {
		for _, d := range devs {
			if d.kind == "num" && d.idx == k && d.alt < n {
				return d.alt
			}
		}
		return 0
	}
	return l
}

func allDeviations(toks []idl.Tok) []deviation {
	_, gaps, seps, lits, nums := idl.RenderTokens(toks, idl.Baseline())
	var ds []deviation
	for g := 0; g < gaps; g++ {
		for a := 1; a < len(fillers); a++ { // filler 0 is the baseline
			ds = append(ds, deviation{"gap", g, a})
		}
	}
	for s := 0; s < seps; s++ {
		ds = append(ds, deviation{"sep", s, 1}, deviation{"sep", s, 2})
	}
	for q := 0; q < lits; q++ {
		ds = append(ds, deviation{"quote", q, 1})
	}
	for n := 0; n < nums; n++ {
		for a := 1; a <= 6; a++ {
			ds = append(ds, deviation{"num", n, a})
		}
	}
	return ds
}

// ---------------------------------------------------------------- main

type ctx struct {
	run      *evid.Run
	parses   int64
	outcomes sync.Map
}

func normThrows(t *parser.Thrift) {
	for _, s := range t.Services {
		for _, f := range s.Functions {
			for _, th := range f.Throws {
				th.Requiredness = 0
			}
		}
	}
}

func (c *ctx) checkFaithful(d docs.Doc, want *parser.Thrift, text string, how string, devs []deviation) {
	atomic.AddInt64(&c.parses, 1)
	r := parse(text)
	if r.panic != "" {
		c.run.Violate(evid.Violation{Class: "panic:" + panicClass(r.panic), What: "parser panicked on a grammatical document: " + r.panic, Replay: map[string]any{"text": text}})
		return
	}
	if r.err != nil {
		cls := "grammatical-rejected:" + how
		if len(devs) > 0 {
			cls += ":" + devs[0].kind
			if devs[0].kind == "gap" {
				cls += fmt.Sprintf(":%q", fillers[devs[0].alt])
			}
		}
		c.run.Violate(evid.Violation{Class: cls, What: fmt.Sprintf("document %s (%s) rejected: %v", d.Name, how, firstLine(r.err.Error())), Replay: map[string]any{"text": text}})
		return
	}
	normThrows(r.ast)
	if p, w := idlast.Diff(r.ast, want, idlast.ParseOnly); p != "" {
		c.run.Violate(evid.Violation{Class: "ast-mismatch:" + p, What: fmt.Sprintf("document %s (%s): AST%s: got/want %s", d.Name, how, p, w), Replay: map[string]any{"text": text, "path": p}})
	}
}

// litShape: the body with runs abstracted (for violation classes): b = backslash, q = the delimiter, o = the other quote, x = text.
func litShape(b string, q byte) string {
	var out []byte
	for i := 0; i < len(b); i++ {
		switch {
		case b[i] == '\\':
			out = append(out, 'b')
		case b[i] == q:
			out = append(out, 'q')
		case b[i] == '"' || b[i] == '\'':
			out = append(out, 'o')
		default:
			out = append(out, 'x')
		}
	}
	return string(out)
}

func firstLine(s string) string {
	if i := strings.IndexByte(s, '\n'); i >= 0 {
		return s[:i]
	}
	return s
}

func (c *ctx) checkTotal(text, family string) {
	atomic.AddInt64(&c.parses, 1)
	r := parse(text)
	if r.panic != "" {
		c.run.Violate(evid.Violation{Class: "panic:" + panicClass(r.panic), What: fmt.Sprintf("parser panicked (%s): %s", family, r.panic), Replay: map[string]any{"text": text}})
	}
}

func parallel(n int, f func(i int)) {
	var wg sync.WaitGroup
	ch := make(chan int, 256)
	for w := 0; w < runtime.NumCPU(); w++ {
		wg.Add(1)
		go func() {
			defer wg.Done()
			for i := range ch {
				f(i)
			}
		}()
	}
	for i := 0; i < n; i++ {
		ch <- i
	}
	close(ch)
	wg.Wait()
}

func main() {
	replay := flag.String("replay", "", "replay file")
	run := evid.New("C03", "exploration")
	c := &ctx{run: run}
	if *replay != "" {
		doReplay(*replay)
		return
	}
	thorough := run.Thorough()
	if thorough {
		run.SetBudget(40 * time.Minute)
	} else {
		run.SetBudget(8 * time.Minute)
	}

	// ---- faithfulness
	docs := docs.Documents(thorough)
	var faithful, layouts int64
	var sampleDoc string
	parallel(len(docs), func(i int) {
		d := docs[i]
		want := idlast.ToAST(d.File)
		normThrows(want)
		toks := idl.Tokens(d.File)
		base, _, _, _, _ := idl.RenderTokens(toks, layoutWith(nil))
		if i == len(docs)/2 {
			sampleDoc = base
		}
		c.checkFaithful(d, want, base, "baseline", nil)
		atomic.AddInt64(&faithful, 1)
		run.Eval("F:"+d.Name+":base", len(d.File.Defs) > 0)
		devs := allDeviations(toks)
		for _, dv := range devs {
			text, _, _, _, _ := idl.RenderTokens(toks, layoutWith([]deviation{dv}))
			if text == base {
				continue
			}
			c.checkFaithful(d, want, text, "1-deviation", []deviation{dv})
			atomic.AddInt64(&layouts, 1)
		}
		run.EvalN("", int64(len(devs)), int64(len(devs)))
	})
	run.Set("documents", len(docs))
	run.Set("layout_1_deviations", layouts)
	// 2-deviations on the smallest documents
	if thorough {
		var small []int
		for i, d := range docs {
			if n := len(idl.Tokens(d.File)); n > 0 && n <= 40 {
				small = append(small, i)
			}
		}
		if len(small) > 60 {
			small = small[:60]
		}
		var two int64
		parallel(len(small), func(k int) {
			if run.OverBudget() {
				return
			}
			d := docs[small[k]]
			want := idlast.ToAST(d.File)
			normThrows(want)
			toks := idl.Tokens(d.File)
			devs := allDeviations(toks)
			for x := 0; x < len(devs); x++ {
				for y := x + 1; y < len(devs); y++ {
					if devs[x].kind == devs[y].kind && devs[x].idx == devs[y].idx {
						continue
					}
					text, _, _, _, _ := idl.RenderTokens(toks, layoutWith([]deviation{devs[x], devs[y]}))
					c.checkFaithful(d, want, text, "2-deviation", []deviation{devs[x], devs[y]})
					atomic.AddInt64(&two, 1)
				}
			}
		})
		run.Set("layout_2_deviations", two)
		run.EvalN("", two, two)
	}

	// ---- literal bodies written verbatim: every string over {x, \, ", '} up to length 4 (thorough 5)
	// between both kinds of quotes, at three positions. Reference (docs/string-literals-in-the-IDL.md and
	// its example): the body is one literal iff scanning it left to right with the grammar's
	// (backslash + quote | any character but the delimiter) reaches the closing delimiter exactly;
	// its text is the body with backslash pairs kept and backslash + delimiter turned into the delimiter.
	{
		litAlpha := []byte{'x', '\\', '"', '\''}
		maxL := 4
		if thorough {
			maxL = 5
		}
		var bodies []string
		var gen func(cur []byte)
		gen = func(cur []byte) {
			bodies = append(bodies, string(cur))
			if len(cur) == maxL {
				return
			}
			for _, b := range litAlpha {
				gen(append(append([]byte{}, cur...), b))
			}
		}
		gen(nil)
		complete := func(b string, q byte) bool {
			s := b + string(q)
			i := 0
			for i < len(s) {
				if s[i] == '\\' && i+1 < len(s) && (s[i+1] == '"' || s[i+1] == '\'') {
					i += 2
					continue
				}
				if s[i] == q {
					return i == len(s)-1
				}
				i++
			}
			return false // the closing delimiter was consumed by an escape
		}
		textOf := func(b string, q byte) string {
			var out []byte
			for i := 0; i < len(b); i++ {
				if b[i] == '\\' && i+1 < len(b) {
					if b[i+1] == '\\' {
						out = append(out, '\\', '\\')
						i++
						continue
					}
					if b[i+1] == q {
						continue
					}
				}
				out = append(out, b[i])
			}
			return string(out)
		}
		var nlit int64
		for _, q := range []byte{'"', '\''} {
			for _, b := range bodies {
				if !complete(b, q) {
					continue
				}
				want := textOf(b, q)
				lit := string(q) + b + string(q)
				for pi, doc := range []string{"const string c = " + lit + "\n", "struct S { 1: string f = " + lit + " }\n", "struct S { 1: i32 f } (k = " + lit + ")\n"} {
					nlit++
					r := parse(doc)
					atomic.AddInt64(&c.parses, 1)
					run.Eval(fmt.Sprintf("rawlit|%d|%c|%s", pi, q, b), len(b) > 0)
					rp := map[string]any{"document": doc, "expected_literal_text": want}
					var got string
					switch {
					case r.panic != "":
						run.Violate(evid.Violation{Class: "panic:" + panicClass(r.panic), What: "parser panicked on a literal: " + firstLine(r.panic), Replay: rp})
						continue
					case r.err != nil:
						run.Violate(evid.Violation{Class: "grammatical-rejected:literal-body", What: fmt.Sprintf("document %q rejected: %v", doc, firstLine(r.err.Error())), Replay: rp})
						continue
					case pi == 0 && len(r.ast.Constants) == 1 && r.ast.Constants[0].Value.TypedValue.Literal != nil:
						got = *r.ast.Constants[0].Value.TypedValue.Literal
					case pi == 1 && len(r.ast.Structs) == 1 && len(r.ast.Structs[0].Fields) == 1 && r.ast.Structs[0].Fields[0].Default != nil && r.ast.Structs[0].Fields[0].Default.TypedValue.Literal != nil:
						got = *r.ast.Structs[0].Fields[0].Default.TypedValue.Literal
					case pi == 2 && len(r.ast.Structs) == 1 && len(r.ast.Structs[0].Annotations) == 1 && len(r.ast.Structs[0].Annotations[0].Values) == 1:
						got = r.ast.Structs[0].Annotations[0].Values[0]
					default:
						run.Violate(evid.Violation{Class: "literal-shape", What: fmt.Sprintf("document %q does not yield exactly one literal at the expected place", doc), Replay: rp})
						continue
					}
					if got != want {
						run.Violate(evid.Violation{Class: "literal-text:" + litShape(b, q), What: fmt.Sprintf("literal %s: AST text %q, the documented rule gives %q", lit, got, want), Replay: rp})
					}
				}
			}
		}
		run.Set("raw_literal_documents", nlit)
	}

	// ---- totality (c): prefixes, deletions, duplications of universe documents
	var mut int64
	parallel(len(docs), func(i int) {
		toks := idl.Tokens(docs[i].File)
		base, _, _, _, _ := idl.RenderTokens(toks, layoutWith(nil))
		step := 1
		if !thorough && len(base) > 300 {
			step = 3
		}
		for p := 0; p < len(base); p += step {
			c.checkTotal(base[:p], "prefix")
			atomic.AddInt64(&mut, 1)
		}
		for k := range toks {
			del := append(append([]idl.Tok{}, toks[:k]...), toks[k+1:]...)
			t1, _, _, _, _ := idl.RenderTokens(del, layoutWith(nil))
			c.checkTotal(t1, "token-deletion")
			dup := append(append(append([]idl.Tok{}, toks[:k+1]...), toks[k]), toks[k+1:]...)
			t2, _, _, _, _ := idl.RenderTokens(dup, layoutWith(nil))
			c.checkTotal(t2, "token-duplication")
			atomic.AddInt64(&mut, 2)
		}
	})
	run.Set("totality_mutations", mut)
	run.EvalN("", mut, mut)

	// ---- totality (a): all strings over a small byte alphabet
	alpha := []byte{'s', 't', '{', '}', '(', ')', '<', '>', '"', '\'', '\\', ',', '1', ' ', '=', '.'}
	maxLen := 5
	if thorough {
		maxLen = 6
	}
	var nstr int64
	{
		// shard on the first two bytes
		n := len(alpha)
		parallel(n*n, func(sh int) {
			if run.OverBudget() {
				return
			}
			buf := make([]byte, 0, maxLen)
			var rec func()
			cnt := int64(0)
			rec = func() {
				c.checkTotal(string(buf), "byte-strings")
				cnt++
				if len(buf) == maxLen {
					return
				}
				for _, b := range alpha {
					buf = append(buf, b)
					rec()
					buf = buf[:len(buf)-1]
				}
			}
			buf = append(buf, alpha[sh/n], alpha[sh%n])
			rec()
			atomic.AddInt64(&nstr, cnt)
		})
		for _, b := range alpha {
			c.checkTotal(string([]byte{b}), "byte-strings")
			nstr++
		}
		c.checkTotal("", "byte-strings")
		nstr++
	}
	run.Set("byte_strings", map[string]any{"alphabet": string(alpha), "max_len": maxLen, "count": nstr})
	run.EvalN("", nstr, nstr-1)

	// ---- totality (b): all token sequences
	tokAlpha := []string{"include", "cpp_include", "namespace", "const", "typedef", "enum", "struct", "union", "exception", "service", "extends", "oneway", "void", "throws", "required", "optional",
		"map", "list", "set", "i32", "string", "cpp_type", "x", "a.b", "1", "0x1f", "-2", "1.5", "1e3", "\"s\"", "'t'", "\"u", "{", "}", "(", ")", "<", ">", "[", "]", ",", ";", ":", "=", "*", "//c\n", "/*d*/", "/*", "#e\r\n", "\n"}
	maxTok := 3
	if thorough {
		maxTok = 4
	}
	var ntok int64
	{
		n := len(tokAlpha)
		parallel(n*n, func(sh int) {
			if run.OverBudget() {
				return
			}
			cnt := int64(0)
			cur := []string{tokAlpha[sh/n], tokAlpha[sh%n]}
			var rec func()
			rec = func() {
				c.checkTotal(strings.Join(cur, " "), "token-sequences")
				cnt++
				if len(cur) == maxTok {
					return
				}
				for _, t := range tokAlpha {
					cur = append(cur, t)
					rec()
					cur = cur[:len(cur)-1]
				}
			}
			rec()
			atomic.AddInt64(&ntok, cnt)
		})
		for _, t := range tokAlpha {
			c.checkTotal(t, "token-sequences")
			ntok++
		}
	}
	run.Set("token_sequences", map[string]any{"alphabet_size": len(tokAlpha), "max_tokens": maxTok, "count": ntok})
	run.EvalN("", ntok, ntok)

	// ---- totality (d): pumping families up to 64 KiB; must return within 20 s
	type fam struct{ name, w, x, y string }
	fams := []fam{
		{"nested-list-type", "typedef ", "list<", "i32 T"},
		{"nested-list-type-closed", "typedef list<", "list<", "i32" + strings.Repeat(">", 1) + " T"},
		{"nested-map-type", "typedef ", "map<i32,", "i32 T"},
		{"nested-const-list", "const list<i32> c = ", "[", "1"},
		{"nested-const-map", "const i32 c = ", "{1:", "1"},
		{"annotations", "struct S {} (", "a=\"b\",", ")"},
		{"open-annotations", "struct S {} ", "(a=\"b\"", ""},
		{"comments", "", "/* c */", "struct S {}"},
		{"open-comment", "/*", "/* *", ""},
		{"line-comments", "", "//x\n#y\n", "struct S{}"},
		{"fields", "struct S {", "1: i32 a,", "}"},
		{"fields-unclosed", "struct S {", "i32 a ", ""},
		{"open-structs", "", "struct S {", ""},
		{"literal", "const string s = \"", "\\\"a", "\""},
		{"open-literal", "const string s = \"", "ab\\", ""},
		{"idents", "const i32 ", "a.", "b = 1"},
		{"digits", "const i32 c = ", "9", ""},
		{"enum-values", "enum E {", "A = 1;", "}"},
		{"functions", "service S {", "void f(1: i32 a) throws (1: E e),", "}"},
		{"open-parens", "service S { void f", "(", ""},
		{"angle", "typedef set", "<", ""},
		{"spaces", "struct", " \t\r\n", "S {}"},
	}
	var pumped int64
	var slowest float64
	var pm sync.Mutex
	parallel(len(fams), func(i int) {
		f := fams[i]
		for n := 1; ; n *= 2 {
			text := f.w + strings.Repeat(f.x, n) + f.y
			if len(text) > 64*1024 {
				break
			}
			t0 := time.Now()
			c.checkTotal(text, "pump:"+f.name)
			el := time.Since(t0).Seconds()
			pm.Lock()
			pumped++
			if el > slowest {
				slowest = el
			}
			pm.Unlock()
			if el > 20 {
				run.Violate(evid.Violation{Class: "slow:" + f.name, What: fmt.Sprintf("parsing %d bytes of family %s took %.1f s", len(text), f.name, el), Replay: map[string]any{"w": f.w, "x": f.x, "n": n, "y": f.y}})
				break
			}
		}
	})
	run.Set("pumping", map[string]any{"families": len(fams), "inputs": pumped, "slowest_parse_s": slowest, "limit_s": 20})
	run.EvalN("", pumped, pumped)

	run.Set("parses", atomic.LoadInt64(&c.parses))
	run.Sample(map[string]any{"document_baseline_layout": sampleDoc})
	if len(docs) > 0 {
		toks := idl.Tokens(docs[len(docs)/3].File)
		t, _, _, _, _ := idl.RenderTokens(toks, layoutWith([]deviation{{"gap", 2, 5}}))
		run.Sample(map[string]any{"document_1_deviation_layout": t})
	}
	run.Set("rule", "faithfulness: one evaluation = one (document, layout) parsed and compared with the model AST, non-trivial iff the document has >=1 definition; totality: one evaluation = one input string parsed under recover, non-trivial iff non-empty; enumerators never repeat an element")
	run.Assume("bytes >= 0x80 and control bytes are not in the byte alphabet; the token alphabet has one member per token class")
	run.Assume("timing oracle only for pumping families: 20 s for inputs <= 64 KiB (observed < 0.1 s)")
	run.Finish()
}

func doReplay(p string) {
	b, err := os.ReadFile(p)
	if err != nil {
		os.Exit(3)
	}
	fmt.Println("replay file holds the failing text; parsing it:")
	s := string(b)
	i := strings.Index(s, `"text": "`)
	if i < 0 {
		os.Exit(3)
	}
	var text string
	fmt.Sscanf(s[i+8:], "%q", &text)
	r := parse(text)
	fmt.Printf("panic=%q err=%v\n", r.panic, r.err)
	if r.panic != "" {
		fmt.Printf("VIOLATION property=C03 replay=%s\n", p)
		os.Exit(1)
	}
}
