// C03 — the parser is total and the AST is faithful to the source text.
//
// Bounded-exhaustive, in-process on parser.ParseString (each call under
// recover):
//
//	totality     (a) all strings over a 14-byte alphabet up to length L
//	             (b) all sequences of <= K tokens from a 36-token alphabet
//	             (c) every prefix, single-token deletion and duplication of every
//	                 document of the faithful-AST universe
//	             (d) pumping families w x^n y up to 64 KiB (must return; < 20 s each)
//	faithfulness every document of a universe built from every definition kind
//	             with every optional part present/absent, rendered under the
//	             baseline layout, every 1-deviation layout (each token boundary x
//	             each filler, each separator slot, each quote, each integer
//	             spelling) and (thorough) every 2-deviation on the smallest docs;
//	             AST must equal the model's AST field by field.
//
// Not asserted: which error is returned for ungrammatical input; recorded
// comments; requiredness recorded for throws fields (thrift treats them as
// optional whatever is written; the property does not say).
package main

import (
	"flag"
	"fmt"
	"os"
	"runtime"
	"strings"
	"sync"
	"sync/atomic"
	"time"

	"verif/internal/evid"
	"verif/internal/idl"
	"verif/internal/idlast"

	"github.com/cloudwego/thriftgo/parser"
)

type parseRes struct {
	ast   *parser.Thrift
	err   error
	panic string
}

func parse(text string) (r parseRes) {
	defer func() {
		if x := recover(); x != nil {
			r.panic = fmt.Sprint(x)
		}
	}()
	r.ast, r.err = parser.ParseString("doc.thrift", text)
	return
}

func panicClass(p string) string {
	// strip addresses / indices so that one defect is one class
	for _, cut := range []string{"[", "0x"} {
		if i := strings.Index(p, cut); i > 0 {
			p = p[:i]
		}
	}
	return strings.TrimSpace(p)
}

// ---------------------------------------------------------------- universe

func ann(kv ...string) []idl.Ann {
	var a []idl.Ann
	for i := 0; i+1 < len(kv); i += 2 {
		a = append(a, idl.Ann{Key: kv[i], Values: []string{kv[i+1]}})
	}
	return a
}

type defv struct {
	name string
	d    any // *idl.Const / Typedef / Enum / Struct / Service
}

func universe() (defs []defv, headers [][]any) {
	add := func(n string, d any) { defs = append(defs, defv{n, d}) }
	i32, str, dbl := idl.T(idl.I32), idl.T(idl.String), idl.T(idl.Double)
	// --- constants: every const-value shape and spelling
	vals := []struct {
		n string
		t *idl.Type
		v *idl.Value
	}{
		{"int", i32, idl.VI(7)},
		{"neg", i32, idl.VI(-3)},
		{"zero", idl.T(idl.I64), idl.VI(0)},
		{"hex", i32, &idl.Value{K: idl.VInt, Int: 26, Text: "0x1A"}},
		{"oct", i32, &idl.Value{K: idl.VInt, Int: 8, Text: "0o10"}},
		{"plus", i32, &idl.Value{K: idl.VInt, Int: 5, Text: "+5"}},
		{"big", idl.T(idl.I64), idl.VI(9223372036854775807)},
		{"dbl", dbl, idl.VD(1.5)},
		{"dblneg", dbl, idl.VD(-2.25)},
		{"dbldot", dbl, &idl.Value{K: idl.VDouble, Text: ".5"}},
		{"dblexp", dbl, &idl.Value{K: idl.VDouble, Text: "1.5e3"}},
		{"dblexp2", dbl, &idl.Value{K: idl.VDouble, Text: "2E-2"}},
		{"dblexp3", dbl, &idl.Value{K: idl.VDouble, Text: "1e10"}},
		{"dblexp4", dbl, &idl.Value{K: idl.VDouble, Text: "-7.25e+2"}},
		{"dblint", dbl, idl.VI(2)},
		{"lit", str, idl.VS("hello")},
		{"litempty", str, idl.VS("")},
		{"litq", str, idl.VS(`a"b'c`)},
		{"litesc", str, idl.VS(`x\n\t\x41 y`)},
		{"litpunct", str, idl.VS("a,b;c{d}(e)#f//g/*h*/")},
		{"bool", idl.T(idl.Bool), idl.VB(true)},
		{"ident", idl.RawT("Foo"), &idl.Value{K: idl.VRawIdent, Raw: "Foo.BAR"}},
		{"identinc", idl.RawT("inc.Foo"), &idl.Value{K: idl.VRawIdent, Raw: "inc.Foo.BAR"}},
		{"list0", idl.ListOf(i32), idl.VL()},
		{"list", idl.ListOf(i32), idl.VL(idl.VI(1), idl.VI(2), idl.VI(3))},
		{"listnest", idl.ListOf(idl.ListOf(str)), idl.VL(idl.VL(idl.VS("a")), idl.VL())},
		{"map0", idl.MapOf(str, i32), idl.VM()},
		{"map", idl.MapOf(str, i32), idl.VM([2]*idl.Value{idl.VS("k"), idl.VI(1)}, [2]*idl.Value{idl.VS("l"), idl.VI(2)})},
		{"mapnest", idl.MapOf(str, idl.ListOf(i32)), idl.VM([2]*idl.Value{idl.VS("k"), idl.VL(idl.VI(1))})},
		{"structlit", idl.RawT("S"), idl.VM([2]*idl.Value{idl.VS("a"), idl.VI(1)}, [2]*idl.Value{idl.VS("b"), idl.VM()})},
	}
	for _, v := range vals {
		add("const-"+v.n, &idl.Const{Name: "C_" + v.n, Type: v.t, Value: v.v})
	}
	add("const-ann", &idl.Const{Name: "CA", Type: i32, Value: idl.VI(1), Anns: ann("k", "v", "k", "w", "j", "x")})
	// --- types
	cpp := idl.MapOf(str, i32)
	cpp.HasCpp, cpp.CppType = true, "std::map"
	cppl := idl.ListOf(i32)
	cppl.HasCpp, cppl.CppType = true, "std::deque"
	cpps := idl.SetOf(i32)
	cpps.HasCpp, cpps.CppType = true, "x"
	annT := idl.T(idl.String)
	annT.Anns = ann("t", "1", "u", "2", "t", "3")
	annL := idl.ListOf(annT)
	annL.Anns = ann("l", "x")
	types := []struct {
		n string
		t *idl.Type
	}{
		{"bool", idl.T(idl.Bool)}, {"byte", idl.T(idl.Byte)}, {"i16", idl.T(idl.I16)}, {"i64", idl.T(idl.I64)}, {"binary", idl.T(idl.Binary)},
		{"raw", idl.RawT("Other")}, {"rawinc", idl.RawT("inc.Other")},
		{"list", idl.ListOf(i32)}, {"set", idl.SetOf(str)}, {"map", idl.MapOf(i32, str)},
		{"nest", idl.MapOf(str, idl.ListOf(idl.SetOf(idl.T(idl.I64))))},
		{"cppmap", cpp}, {"cpplist", cppl}, {"cppset", cpps}, {"anntype", annT}, {"annlist", annL},
	}
	for _, t := range types {
		add("typedef-"+t.n, &idl.Typedef{Name: "T_" + t.n, Type: t.t})
	}
	add("typedef-ann", &idl.Typedef{Name: "TA", Type: i32, Anns: ann("a", "1", "a", "2")})
	// --- enums
	add("enum-empty", &idl.Enum{Name: "E0"})
	add("enum-implicit", &idl.Enum{Name: "E1", Values: []*idl.EnumValue{{Name: "A"}, {Name: "B"}, {Name: "C"}}})
	add("enum-explicit", &idl.Enum{Name: "E2", Values: []*idl.EnumValue{{Name: "A", Value: 5, Explicit: true}, {Name: "B"}, {Name: "C", Value: -2, Explicit: true}, {Name: "D"}, {Name: "E", Value: 16, Explicit: true, ValText: "0x10"}, {Name: "F"}}})
	add("enum-ann", &idl.Enum{Name: "E3", Values: []*idl.EnumValue{{Name: "A", Anns: ann("x", "1", "x", "2")}, {Name: "B", Value: 3, Explicit: true, Anns: ann("y", "z")}}, Anns: ann("e", "f")})
	// --- struct-likes
	fieldSets := []struct {
		n  string
		fs []*idl.Field
	}{
		{"empty", nil},
		{"implicit", []*idl.Field{{Name: "a", Type: i32}, {Name: "b", Type: str}}},
		{"explicit", []*idl.Field{{ID: 1, ExplicitID: true, Name: "a", Type: i32}, {ID: 5, ExplicitID: true, Name: "b", Type: str, Req: idl.ReqRequired}, {Name: "c", Type: dbl, Req: idl.ReqOptional}, {ID: -1, ExplicitID: true, Name: "d", Type: i32}, {Name: "e", Type: i32}}},
		{"hexid", []*idl.Field{{ID: 16, ExplicitID: true, IDText: "0x10", Name: "a", Type: i32}, {Name: "b", Type: i32}}},
		{"defaults", []*idl.Field{{ID: 1, ExplicitID: true, Name: "a", Type: i32, Default: idl.VI(3)}, {ID: 2, ExplicitID: true, Name: "b", Type: str, Default: idl.VS("x"), Req: idl.ReqOptional}, {ID: 3, ExplicitID: true, Name: "c", Type: idl.ListOf(i32), Default: idl.VL(idl.VI(1))}, {ID: 4, ExplicitID: true, Name: "d", Type: idl.RawT("E"), Default: &idl.Value{K: idl.VRawIdent, Raw: "E.A"}}, {ID: 5, ExplicitID: true, Name: "e", Type: dbl, Default: &idl.Value{K: idl.VDouble, Text: "2.5e1"}}}},
		{"anns", []*idl.Field{{ID: 1, ExplicitID: true, Name: "a", Type: annT, Anns: ann("go.tag", `json:"a"`, "k", "v", "go.tag", "x")}, {ID: 2, ExplicitID: true, Name: "b", Type: cpp, Default: idl.VM(), Anns: ann("k", "")}}},
	}
	for _, cat := range []string{"struct", "union", "exception"} {
		for _, fs := range fieldSets {
			if cat != "struct" && (fs.n == "hexid" || fs.n == "anns") {
				continue
			}
			add(cat+"-"+fs.n, &idl.Struct{Cat: cat, Name: "S_" + fs.n, Fields: fs.fs})
		}
	}
	add("struct-ann", &idl.Struct{Cat: "struct", Name: "SA", Fields: fieldSets[1].fs, Anns: ann("s", "1", "t", "2", "s", "3")})
	// --- services
	arg := func(n string) *idl.Field { return &idl.Field{Name: n, Type: i32} }
	argx := func(id int32, n string) *idl.Field {
		return &idl.Field{ID: id, ExplicitID: true, Name: n, Type: idl.RawT("Ex")}
	}
	fns := []*idl.Function{
		{Name: "f0"},
		{Name: "f1", Ret: i32, Args: []*idl.Field{arg("a")}},
		{Name: "f2", Ret: idl.ListOf(str), Args: []*idl.Field{{ID: 2, ExplicitID: true, Name: "a", Type: str, Req: idl.ReqRequired}, arg("b")}, Throws: []*idl.Field{argx(1, "e")}},
		{Name: "f3", Oneway: true, Args: []*idl.Field{arg("a")}},
		{Name: "f4", Ret: idl.RawT("inc.R"), Throws: []*idl.Field{}},
		{Name: "f5", Args: []*idl.Field{arg("a")}, Throws: []*idl.Field{argx(1, "e"), argx(2, "g")}, Anns: ann("fa", "1", "fa", "2")},
		{Name: "f6", Ret: annT, Args: []*idl.Field{arg("a"), arg("b"), arg("c")}, Throws: []*idl.Field{{Name: "e", Type: idl.RawT("Ex")}}},
	}
	add("service-empty", &idl.Service{Name: "Svc0"})
	add("service-ext", &idl.Service{Name: "Svc1", ExtendRaw: "Base", Functions: fns[:2]})
	add("service-extinc", &idl.Service{Name: "Svc2", ExtendRaw: "inc.Base", Functions: fns[2:4], Anns: ann("sa", "x")})
	add("service-all", &idl.Service{Name: "Svc3", Functions: fns})
	for i, fn := range fns {
		add(fmt.Sprintf("service-fn%d", i), &idl.Service{Name: "SvcF", Functions: []*idl.Function{fn}})
	}
	// --- headers
	headers = [][]any{
		nil,
		{&idl.Include{Path: "inc.thrift"}},
		{&idl.Include{Path: "a/b.thrift"}, &idl.Include{Path: "../c.thrift"}, "cppinc.h", &idl.Namespace{Lang: "go", Name: "a.b.c"}},
		{&idl.Namespace{Lang: "*", Name: "x"}, &idl.Namespace{Lang: "go", Name: "y", Anns: ann("n", "1", "n", "2")}, &idl.Namespace{Lang: "py", Name: "z.w"}},
	}
	return
}

type doc struct {
	name string
	file *idl.File
}

func mkdoc(name string, hdr []any, ds ...defv) doc {
	f := &idl.File{Path: "doc.thrift"}
	for _, h := range hdr {
		switch x := h.(type) {
		case *idl.Include:
			f.Includes = append(f.Includes, x)
		case string:
			f.CppIncludes = append(f.CppIncludes, x)
		case *idl.Namespace:
			f.Namespaces = append(f.Namespaces, x)
		}
	}
	// definitions are shared between documents: File back-pointers are not used by
	// raw-name documents, so sharing is harmless
	for _, d := range ds {
		name += "+" + d.name
		f.Add(d.d)
	}
	return doc{name, f}
}

func documents(thorough bool) []doc {
	defs, headers := universe()
	var docs []doc
	for hi, h := range headers {
		docs = append(docs, mkdoc(fmt.Sprintf("h%d", hi), h))
	}
	for _, d := range defs {
		docs = append(docs, mkdoc("h0", nil, d))
	}
	// representatives of each kind for pairs/triples (all orders)
	rep := []string{"const-int", "const-map", "typedef-map", "enum-explicit", "struct-explicit", "union-implicit", "exception-defaults", "service-all"}
	var reps []defv
	for _, r := range rep {
		for _, d := range defs {
			if d.name == r {
				reps = append(reps, d)
			}
		}
	}
	for hi, h := range headers[1:] {
		for _, a := range reps[:4] {
			docs = append(docs, mkdoc(fmt.Sprintf("h%d", hi+1), h, a))
		}
	}
	for _, a := range reps {
		for _, b := range reps {
			if a.name != b.name {
				docs = append(docs, mkdoc("h0", nil, a, b))
			}
		}
	}
	// same kind twice (order within a kind)
	for _, d := range defs {
		for _, e := range defs {
			if d.name < e.name && strings.SplitN(d.name, "-", 2)[0] == strings.SplitN(e.name, "-", 2)[0] && (thorough || (strings.HasSuffix(d.name, "t") || strings.HasSuffix(e.name, "t"))) {
				docs = append(docs, mkdoc("h0", nil, e, d))
			}
		}
	}
	tri := reps
	if !thorough {
		tri = reps[2:6]
	}
	for _, a := range tri {
		for _, b := range tri {
			for _, c := range tri {
				if a.name != b.name && b.name != c.name && a.name != c.name {
					docs = append(docs, mkdoc("h2", headers[2], a, b, c))
				}
			}
		}
	}
	return docs
}

// ---------------------------------------------------------------- layouts

var fillers = []string{" ", "\t", "\n", "\r\n", "/*c*/", "//c\n", "#c\n", " /* m\n * n */ ", "\n\n  ", ""}

type deviation struct {
	kind string // "gap" | "sep" | "quote" | "num"
	idx  int
	alt  int
}

func layoutWith(devs []deviation) idl.Layout {
	l := idl.Baseline()
	l.Gap = func(i int, need bool) string {
		for _, d := range devs {
			if d.kind == "gap" && d.idx == i {
				f := fillers[d.alt]
				if f == "" && need {
					return " "
				}
				return f
			}
		}
		if i == 0 {
			return ""
		}
		return " "
	}
	l.Sep = func(k int) string {
		for _, d := range devs {
			if d.kind == "sep" && d.idx == k {
				return []string{",", ";", ""}[d.alt]
			}
		}
		return ","
	}
	l.Quote = func(k int) byte {
		for _, d := range devs {
			if d.kind == "quote" && d.idx == k {
				return '\''
			}
		}
		return '"'
	}
	l.Num = func(k, n int) int {
		for _, d := range devs {
			if d.kind == "num" && d.idx == k && d.alt < n {
				return d.alt
			}
		}
		return 0
	}
	return l
}

func allDeviations(toks []idl.Tok) []deviation {
	_, gaps, seps, lits, nums := idl.RenderTokens(toks, idl.Baseline())
	var ds []deviation
	for g := 0; g < gaps; g++ {
		for a := 1; a < len(fillers); a++ { // filler 0 is the baseline
			ds = append(ds, deviation{"gap", g, a})
		}
	}
	for s := 0; s < seps; s++ {
		ds = append(ds, deviation{"sep", s, 1}, deviation{"sep", s, 2})
	}
	for q := 0; q < lits; q++ {
		ds = append(ds, deviation{"quote", q, 1})
	}
	for n := 0; n < nums; n++ {
		for a := 1; a <= 4; a++ {
			ds = append(ds, deviation{"num", n, a})
		}
	}
	return ds
}

// ---------------------------------------------------------------- main

type ctx struct {
	run      *evid.Run
	parses   int64
	outcomes sync.Map
}

func normThrows(t *parser.Thrift) {
	for _, s := range t.Services {
		for _, f := range s.Functions {
			for _, th := range f.Throws {
				th.Requiredness = 0
			}
		}
	}
}

func (c *ctx) checkFaithful(d doc, want *parser.Thrift, text string, how string, devs []deviation) {
	atomic.AddInt64(&c.parses, 1)
	r := parse(text)
	if r.panic != "" {
		c.run.Violate(evid.Violation{Class: "panic:" + panicClass(r.panic), What: "parser panicked on a grammatical document: " + r.panic, Replay: map[string]any{"text": text}})
		return
	}
	if r.err != nil {
		cls := "grammatical-rejected:" + how
		if len(devs) > 0 {
			cls += ":" + devs[0].kind
			if devs[0].kind == "gap" {
				cls += fmt.Sprintf(":%q", fillers[devs[0].alt])
			}
		}
		c.run.Violate(evid.Violation{Class: cls, What: fmt.Sprintf("document %s (%s) rejected: %v", d.name, how, firstLine(r.err.Error())), Replay: map[string]any{"text": text}})
		return
	}
	normThrows(r.ast)
	if p, w := idlast.Diff(r.ast, want, idlast.ParseOnly); p != "" {
		c.run.Violate(evid.Violation{Class: "ast-mismatch:" + p, What: fmt.Sprintf("document %s (%s): AST%s: got/want %s", d.name, how, p, w), Replay: map[string]any{"text": text, "path": p}})
	}
}

func firstLine(s string) string {
	if i := strings.IndexByte(s, '\n'); i >= 0 {
		return s[:i]
	}
	return s
}

func (c *ctx) checkTotal(text, family string) {
	atomic.AddInt64(&c.parses, 1)
	r := parse(text)
	if r.panic != "" {
		c.run.Violate(evid.Violation{Class: "panic:" + panicClass(r.panic), What: fmt.Sprintf("parser panicked (%s): %s", family, r.panic), Replay: map[string]any{"text": text}})
	}
}

func parallel(n int, f func(i int)) {
	var wg sync.WaitGroup
	ch := make(chan int, 256)
	for w := 0; w < runtime.NumCPU(); w++ {
		wg.Add(1)
		go func() {
			defer wg.Done()
			for i := range ch {
				f(i)
			}
		}()
	}
	for i := 0; i < n; i++ {
		ch <- i
	}
	close(ch)
	wg.Wait()
}

func main() {
	replay := flag.String("replay", "", "replay file")
	run := evid.New("C03", "exploration")
	c := &ctx{run: run}
	if *replay != "" {
		doReplay(*replay)
		return
	}
	thorough := run.Thorough()
	if thorough {
		run.SetBudget(40 * time.Minute)
	} else {
		run.SetBudget(8 * time.Minute)
	}

	// ---- faithfulness
	docs := documents(thorough)
	var faithful, layouts int64
	var sampleDoc string
	parallel(len(docs), func(i int) {
		d := docs[i]
		want := idlast.ToAST(d.file)
		normThrows(want)
		toks := idl.Tokens(d.file)
		base, _, _, _, _ := idl.RenderTokens(toks, layoutWith(nil))
		if i == len(docs)/2 {
			sampleDoc = base
		}
		c.checkFaithful(d, want, base, "baseline", nil)
		atomic.AddInt64(&faithful, 1)
		run.Eval("F:"+d.name+":base", len(d.file.Defs) > 0)
		devs := allDeviations(toks)
		for _, dv := range devs {
			text, _, _, _, _ := idl.RenderTokens(toks, layoutWith([]deviation{dv}))
			if text == base {
				continue
			}
			c.checkFaithful(d, want, text, "1-deviation", []deviation{dv})
			atomic.AddInt64(&layouts, 1)
		}
		run.EvalN("", int64(len(devs)), int64(len(devs)))
	})
	run.Set("documents", len(docs))
	run.Set("layout_1_deviations", layouts)
	// 2-deviations on the smallest documents
	if thorough {
		var small []int
		for i, d := range docs {
			if n := len(idl.Tokens(d.file)); n > 0 && n <= 40 {
				small = append(small, i)
			}
		}
		if len(small) > 60 {
			small = small[:60]
		}
		var two int64
		parallel(len(small), func(k int) {
			if run.OverBudget() {
				return
			}
			d := docs[small[k]]
			want := idlast.ToAST(d.file)
			normThrows(want)
			toks := idl.Tokens(d.file)
			devs := allDeviations(toks)
			for x := 0; x < len(devs); x++ {
				for y := x + 1; y < len(devs); y++ {
					if devs[x].kind == devs[y].kind && devs[x].idx == devs[y].idx {
						continue
					}
					text, _, _, _, _ := idl.RenderTokens(toks, layoutWith([]deviation{devs[x], devs[y]}))
					c.checkFaithful(d, want, text, "2-deviation", []deviation{devs[x], devs[y]})
					atomic.AddInt64(&two, 1)
				}
			}
		})
		run.Set("layout_2_deviations", two)
		run.EvalN("", two, two)
	}

	// ---- totality (c): prefixes, deletions, duplications of universe documents
	var mut int64
	parallel(len(docs), func(i int) {
		toks := idl.Tokens(docs[i].file)
		base, _, _, _, _ := idl.RenderTokens(toks, layoutWith(nil))
		step := 1
		if !thorough && len(base) > 300 {
			step = 3
		}
		for p := 0; p < len(base); p += step {
			c.checkTotal(base[:p], "prefix")
			atomic.AddInt64(&mut, 1)
		}
		for k := range toks {
			del := append(append([]idl.Tok{}, toks[:k]...), toks[k+1:]...)
			t1, _, _, _, _ := idl.RenderTokens(del, layoutWith(nil))
			c.checkTotal(t1, "token-deletion")
			dup := append(append(append([]idl.Tok{}, toks[:k+1]...), toks[k]), toks[k+1:]...)
			t2, _, _, _, _ := idl.RenderTokens(dup, layoutWith(nil))
			c.checkTotal(t2, "token-duplication")
			atomic.AddInt64(&mut, 2)
		}
	})
	run.Set("totality_mutations", mut)
	run.EvalN("", mut, mut)

	// ---- totality (a): all strings over a small byte alphabet
	alpha := []byte{'s', 't', '{', '}', '(', ')', '<', '>', '"', '\'', '\\', ',', '1', ' ', '=', '.'}
	maxLen := 5
	if thorough {
		maxLen = 6
	}
	var nstr int64
	{
		// shard on the first two bytes
		n := len(alpha)
		parallel(n*n, func(sh int) {
			if run.OverBudget() {
				return
			}
			buf := make([]byte, 0, maxLen)
			var rec func()
			cnt := int64(0)
			rec = func() {
				c.checkTotal(string(buf), "byte-strings")
				cnt++
				if len(buf) == maxLen {
					return
				}
				for _, b := range alpha {
					buf = append(buf, b)
					rec()
					buf = buf[:len(buf)-1]
				}
			}
			buf = append(buf, alpha[sh/n], alpha[sh%n])
			rec()
			atomic.AddInt64(&nstr, cnt)
		})
		for _, b := range alpha {
			c.checkTotal(string([]byte{b}), "byte-strings")
			nstr++
		}
		c.checkTotal("", "byte-strings")
		nstr++
	}
	run.Set("byte_strings", map[string]any{"alphabet": string(alpha), "max_len": maxLen, "count": nstr})
	run.EvalN("", nstr, nstr-1)

	// ---- totality (b): all token sequences
	tokAlpha := []string{"include", "cpp_include", "namespace", "const", "typedef", "enum", "struct", "union", "exception", "service", "extends", "oneway", "void", "throws", "required", "optional",
		"map", "list", "set", "i32", "string", "cpp_type", "x", "a.b", "1", "0x1f", "-2", "1.5", "1e3", "\"s\"", "'t'", "\"u", "{", "}", "(", ")", "<", ">", "[", "]", ",", ";", ":", "=", "*", "//c\n", "/*d*/", "/*", "#e\r\n", "\n"}
	maxTok := 3
	if thorough {
		maxTok = 4
	}
	var ntok int64
	{
		n := len(tokAlpha)
		parallel(n*n, func(sh int) {
			if run.OverBudget() {
				return
			}
			cnt := int64(0)
			cur := []string{tokAlpha[sh/n], tokAlpha[sh%n]}
			var rec func()
			rec = func() {
				c.checkTotal(strings.Join(cur, " "), "token-sequences")
				cnt++
				if len(cur) == maxTok {
					return
				}
				for _, t := range tokAlpha {
					cur = append(cur, t)
					rec()
					cur = cur[:len(cur)-1]
				}
			}
			rec()
			atomic.AddInt64(&ntok, cnt)
		})
		for _, t := range tokAlpha {
			c.checkTotal(t, "token-sequences")
			ntok++
		}
	}
	run.Set("token_sequences", map[string]any{"alphabet_size": len(tokAlpha), "max_tokens": maxTok, "count": ntok})
	run.EvalN("", ntok, ntok)

	// ---- totality (d): pumping families up to 64 KiB; must return within 20 s
	type fam struct{ name, w, x, y string }
	fams := []fam{
		{"nested-list-type", "typedef ", "list<", "i32 T"},
		{"nested-list-type-closed", "typedef list<", "list<", "i32" + strings.Repeat(">", 1) + " T"},
		{"nested-map-type", "typedef ", "map<i32,", "i32 T"},
		{"nested-const-list", "const list<i32> c = ", "[", "1"},
		{"nested-const-map", "const i32 c = ", "{1:", "1"},
		{"annotations", "struct S {} (", "a=\"b\",", ")"},
		{"open-annotations", "struct S {} ", "(a=\"b\"", ""},
		{"comments", "", "/* c */", "struct S {}"},
		{"open-comment", "/*", "/* *", ""},
		{"line-comments", "", "//x\n#y\n", "struct S{}"},
		{"fields", "struct S {", "1: i32 a,", "}"},
		{"fields-unclosed", "struct S {", "i32 a ", ""},
		{"open-structs", "", "struct S {", ""},
		{"literal", "const string s = \"", "\\\"a", "\""},
		{"open-literal", "const string s = \"", "ab\\", ""},
		{"idents", "const i32 ", "a.", "b = 1"},
		{"digits", "const i32 c = ", "9", ""},
		{"enum-values", "enum E {", "A = 1;", "}"},
		{"functions", "service S {", "void f(1: i32 a) throws (1: E e),", "}"},
		{"open-parens", "service S { void f", "(", ""},
		{"angle", "typedef set", "<", ""},
		{"spaces", "struct", " \t\r\n", "S {}"},
	}
	var pumped int64
	var slowest float64
	var pm sync.Mutex
	parallel(len(fams), func(i int) {
		f := fams[i]
		for n := 1; ; n *= 2 {
			text := f.w + strings.Repeat(f.x, n) + f.y
			if len(text) > 64*1024 {
				break
			}
			t0 := time.Now()
			c.checkTotal(text, "pump:"+f.name)
			el := time.Since(t0).Seconds()
			pm.Lock()
			pumped++
			if el > slowest {
				slowest = el
			}
			pm.Unlock()
			if el > 20 {
				run.Violate(evid.Violation{Class: "slow:" + f.name, What: fmt.Sprintf("parsing %d bytes of family %s took %.1f s", len(text), f.name, el), Replay: map[string]any{"w": f.w, "x": f.x, "n": n, "y": f.y}})
				break
			}
		}
	})
	run.Set("pumping", map[string]any{"families": len(fams), "inputs": pumped, "slowest_parse_s": slowest, "limit_s": 20})
	run.EvalN("", pumped, pumped)

	run.Set("parses", atomic.LoadInt64(&c.parses))
	run.Sample(map[string]any{"document_baseline_layout": sampleDoc})
	if len(docs) > 0 {
		toks := idl.Tokens(docs[len(docs)/3].file)
		t, _, _, _, _ := idl.RenderTokens(toks, layoutWith([]deviation{{"gap", 2, 5}}))
		run.Sample(map[string]any{"document_1_deviation_layout": t})
	}
	run.Set("rule", "faithfulness: one evaluation = one (document, layout) parsed and compared with the model AST, non-trivial iff the document has >=1 definition; totality: one evaluation = one input string parsed under recover, non-trivial iff non-empty; enumerators never repeat an element")
	run.Assume("bytes >= 0x80 and control bytes are not in the byte alphabet; the token alphabet has one member per token class")
	run.Assume("timing oracle only for pumping families: 20 s for inputs <= 64 KiB (observed < 0.1 s)")
	run.Finish()
}

func doReplay(p string) {
	b, err := os.ReadFile(p)
	if err != nil {
		os.Exit(3)
	}
	fmt.Println("replay file holds the failing text; parsing it:")
	s := string(b)
	i := strings.Index(s, `"text": "`)
	if i < 0 {
		os.Exit(3)
	}
	var text string
	fmt.Sscanf(s[i+8:], "%q", &text)
	r := parse(text)
	fmt.Printf("panic=%q err=%v\n", r.panic, r.err)
	if r.panic != "" {
		fmt.Printf("VIOLATION property=C03 replay=%s\n", p)
		os.Exit(1)
	}
}
