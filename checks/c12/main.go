// C12 — output assembly loses nothing (explicit-state BFS over Feed calls).
//
// Transition = one real FileManager.Feed(src, items) on the manager built
// from /repo's working tree; after every transition BuildResponse is compared
// with a small reference model written from the property text. States are
// deduplicated on the manager's private tables (exported by an overlay file).
// Successor = replay the shortest history on a fresh manager + 1 call.
//
// Not asserted (property is silent): spelling of the fresh name given to a
// conflicting file; a *named* patch whose name was never submitted (excluded
// from the alphabet).
package main

import (
	"crypto/sha256"
	"encoding/json"
	"flag"
	"fmt"
	"os"
	"regexp"
	"runtime"
	"strings"
	"sync"
	"time"

	"verif/internal/evid"

	"github.com/cloudwego/thriftgo/generator"
	"github.com/cloudwego/thriftgo/generator/backend"
	"github.com/cloudwego/thriftgo/plugin"
)

// Item is one plugin.Generated of the alphabet.
type Item struct {
	Name    string `json:"name,omitempty"` // "" = unnamed
	IP      string `json:"ip,omitempty"`   // insertion point, "" = unset
	Content string `json:"content"`
}

func mk(x string) string { return "@@thriftgo_insertion_point(" + x + ")" }

func (it Item) gen() *plugin.Generated {
	g := &plugin.Generated{Content: it.Content}
	if it.Name != "" {
		n := it.Name
		g.Name = &n
	}
	if it.IP != "" {
		p := it.IP
		g.InsertionPoint = &p
	}
	return g
}

// ---------- reference model (written from the property text) ----------

type mPatch struct{ ip, content string }
type mFile struct {
	name    string // final name ("" until learnt for renamed files)
	orig    string // name as submitted
	renamed bool
	content string
	patches []mPatch
}
type model struct {
	files []*mFile
	err   bool
}

// a marker is what plugin.InsertionPoint(names...) writes; the names are up to the plugin author
var markerRe = regexp.MustCompile(`@@thriftgo_insertion_point\([^()]*\)`)

func (m *model) byName(n string) *mFile {
	for _, f := range m.files {
		if f.name == n {
			return f
		}
	}
	return nil
}

// feed applies one Feed call. freshName(pos) tells the model which name the
// implementation chose for the conflicting file stored at position pos (the
// spelling is the implementation's business; uniqueness is checked by the caller).
func (m *model) feed(items []Item, freshName func(pos int) (string, bool)) (ok bool) {
	var last *mFile
	dropping := false
	for _, it := range items {
		if it.Name == "" {
			if dropping {
				continue // patch of a dropped duplicate
			}
			if last == nil {
				m.err = true
				return true
			}
			last.patches = append(last.patches, mPatch{it.IP, it.Content})
			continue
		}
		dropping = false
		ex := m.byName(it.Name)
		switch {
		case ex == nil:
			f := &mFile{name: it.Name, orig: it.Name, content: it.Content}
			m.files = append(m.files, f)
			last = f
		case it.IP != "":
			ex.patches = append(ex.patches, mPatch{it.IP, it.Content})
			last = ex
		default:
			// same name again: identical content (to the file of that name or to
			// one of the copies already kept for that name) => dropped with its patches
			dup := ex.content == it.Content
			for _, f := range m.files {
				if f.renamed && f.orig == it.Name && f.content == it.Content {
					dup = true
				}
			}
			if dup {
				dropping = true
				// "last" keeps pointing at the previous target; nothing may attach to it
				// until the next named item (handled by dropping).
				continue
			}
			f := &mFile{orig: it.Name, renamed: true, content: it.Content}
			pos := len(m.files)
			n, have := freshName(pos)
			if !have {
				return false
			}
			f.name = n
			m.files = append(m.files, f)
			last = f
		}
	}
	return true
}

// oddMarker: a marker whose name itself contains parentheses. Where such a marker ends cannot be
// told from the text, so an unpatched one may stay or go (not judged); a patched one must be
// replaced like any other.
const oddName = "f(x)"

var oddMarker = "@@thriftgo_insertion_point(" + oddName + ")"

func (f *mFile) hasPatch(ip string) bool {
	for _, p := range f.patches {
		if p.ip == ip {
			return true
		}
	}
	return false
}

func (f *mFile) render() string {
	content := f.content
	if strings.Contains(content, oddMarker) {
		var sb strings.Builder
		n := 0
		for _, p := range f.patches {
			if p.ip == oddName {
				sb.WriteString(p.content)
				n++
			}
		}
		if n > 0 {
			content = strings.ReplaceAll(content, oddMarker, sb.String())
		} else {
			content = strings.ReplaceAll(content, oddMarker, "")
		}
	}
	return markerRe.ReplaceAllStringFunc(content, func(mk string) string {
		var sb strings.Builder
		for _, p := range f.patches {
			if "@@thriftgo_insertion_point("+p.ip+")" == mk {
				sb.WriteString(p.content)
			}
		}
		return sb.String()
	})
}

// ---------- implementation side ----------

type history [][]Item

func build(h history) (*generator.FileManager, []error) {
	fm := generator.NewFileManager(backend.DummyLogFunc())
	errs := make([]error, len(h))
	for i, call := range h {
		gs := make([]*plugin.Generated, len(call))
		for j, it := range call {
			gs[j] = it.gen()
		}
		errs[i] = fm.Feed("src", gs)
	}
	return fm, errs
}

// checkHistory runs the model in lock-step over a history whose prefix is
// known good and returns a violation class + description, or "".
func checkHistory(h history) (class, what string, terminal bool) {
	fm, errs := build(h)
	resp := fm.BuildResponse()
	m := &model{}
	// name uniqueness is checked first: every later comparison presupposes that a
	// name denotes one file.
	{
		seen := map[string]int{}
		for i, g := range resp.Contents {
			if j, dup := seen[g.GetName()]; dup {
				return "output-name-not-unique", fmt.Sprintf("output files %d and %d are both named %q (one would overwrite the other)", j, i, g.GetName()), false
			}
			seen[g.GetName()] = i
		}
	}
	for i, call := range h {
		fresh := func(pos int) (string, bool) {
			if pos >= len(resp.Contents) {
				return "", false
			}
			return resp.Contents[pos].GetName(), true
		}
		ok := m.feed(call, fresh)
		if !ok {
			return "conflicting-file-lost", fmt.Sprintf("a file with an existing name and different content is missing from the output (%d files, model expects more)", len(resp.Contents)), true
		}
		if m.err != (errs[i] != nil) {
			if m.err {
				return "orphan-patch-accepted", "unnamed patch without a preceding named item was accepted", true
			}
			return "unexpected-feed-error", "Feed failed: " + errs[i].Error(), true
		}
		if m.err {
			return "", "", true
		}
	}
	if resp.IsSetError() {
		return "unexpected-response-error", resp.GetError(), true
	}
	if len(resp.Contents) != len(m.files) {
		return "file-count", fmt.Sprintf("output has %d files, model %d", len(resp.Contents), len(m.files)), false
	}
	seen := map[string]int{}
	for i, g := range resp.Contents {
		mf := m.files[i]
		if !g.IsSetName() || g.GetName() == "" {
			return "unnamed-output", fmt.Sprintf("output file %d has no name", i), false
		}
		if j, dup := seen[g.GetName()]; dup {
			return "output-name-not-unique", fmt.Sprintf("output files %d and %d are both named %q (one would overwrite the other)", j, i, g.GetName()), false
		}
		seen[g.GetName()] = i
		if !mf.renamed && g.GetName() != mf.name {
			return "name-changed", fmt.Sprintf("file %d submitted as %q is output as %q", i, mf.name, g.GetName()), false
		}
		if g.IsSetInsertionPoint() {
			return "output-has-insertion-point", fmt.Sprintf("output file %d still has an insertion point", i), false
		}
		want := mf.render()
		got := g.Content
		if strings.Contains(mf.content, oddMarker) && !mf.hasPatch(oddName) {
			got = strings.ReplaceAll(got, oddMarker, "") // unpatched marker with parentheses in its name: not judged
		}
		if got != want {
			cls := "content-mismatch"
			if markerRe.MatchString(g.Content) {
				cls = "marker-not-removed"
			}
			return cls, fmt.Sprintf("file %q: got %q want %q", g.GetName(), g.Content, want), false
		}
	}
	return "", "", false
}

func alphabet() (files, patches, named []Item) {
	x, y := mk("x"), mk("y")
	contents := []string{"plain", "h" + x + "t", x + "m" + y + "m" + x, "other", "o" + mk("p-1 q") + "o", "w" + mk(oddName) + "w"}
	for _, n := range []string{"A.go", "A_1.go", "B.txt"} {
		for _, c := range contents {
			files = append(files, Item{Name: n, Content: c})
		}
	}
	for _, ip := range []string{"x", "y", "z", "p-1 q", oddName} {
		for _, c := range []string{"P", "Q"} {
			patches = append(patches, Item{IP: ip, Content: c})
		}
	}
	// patches whose own text holds a marker (of another point of the file, and of their own point):
	// inserted text is not scanned again
	patches = append(patches, Item{IP: "x", Content: "S" + y + "S"}, Item{IP: "y", Content: "T" + x + "T"}, Item{IP: "x", Content: "U" + x + "U"})
	for _, n := range []string{"A.go", "A_1.go", "B.txt"} {
		for _, ip := range []string{"x", "y"} {
			named = append(named, Item{Name: n, IP: ip, Content: "R"})
		}
	}
	return
}

func main() {
	replay := flag.String("replay", "", "replay file")
	run := evid.New("C12", "model_checking")
	if *replay != "" {
		doReplay(*replay)
		return
	}
	type bound struct{ maxList, maxDepth int }
	bounds := []bound{{2, 2}}
	if run.Thorough() {
		bounds = []bound{{3, 2}, {2, 3}}
		run.SetBudget(25 * time.Minute)
	}
	files, patches, named := alphabet()
	all := append(append(append([]Item{}, files...), patches...), named...)
	var states, transitions int64
	outcomes := map[string]int64{}
	var boundInfo []map[string]any
	for _, b := range bounds {
		st, tr, dep, complete := explore(run, all, b.maxList, b.maxDepth, outcomes)
		states += st
		transitions += tr
		boundInfo = append(boundInfo, map[string]any{"max_items_per_feed": b.maxList, "max_feed_calls": b.maxDepth,
			"states": st, "transitions": tr, "depth_completed": dep, "complete": complete})
	}
	run.Set("states", states)
	run.Set("transitions", transitions)
	run.Set("traces_validated_against_impl", transitions)
	run.Set("bounds", boundInfo)
	run.Set("alphabet_items", len(all))
	run.Set("outcome_classes", outcomes)
	run.Set("rule", "transition = one real FileManager.Feed call with an item list from the alphabet, followed by BuildResponse compared with the reference model; every transition is non-trivial (>=1 item); histories are distinct by construction (distinct state representative x distinct item list)")
	run.Assume("FileManager.Feed/BuildResponse depend only on the manager's private fields rendered by VerifState (all fields, by reflection)")
	run.Assume("named patches for a name never submitted are outside the alphabet (protocol text is silent)")
	run.Finish()
}

type node struct {
	h     history
	names map[string]bool
}

func explore(run *evid.Run, all []Item, maxList, maxDepth int, outcomes map[string]int64) (states, transitions int64, depthDone int, complete bool) {
	var lists [][]Item
	var rec func(cur []Item)
	rec = func(cur []Item) {
		if len(cur) > 0 {
			lists = append(lists, append([]Item{}, cur...))
		}
		if len(cur) == maxList {
			return
		}
		for _, it := range all {
			rec(append(cur, it))
		}
	}
	rec(nil)

	seen := map[[16]byte]bool{}
	var mu sync.Mutex
	fm0, _ := build(nil)
	seen[key16(fm0.VerifState())] = true
	states = 1
	frontier := []node{{nil, map[string]bool{}}}
	complete = true
	for depth := 1; depth <= maxDepth; depth++ {
		var next []node
		var wg sync.WaitGroup
		work := make(chan node, 64)
		stopped := false
		for w := 0; w < runtime.NumCPU(); w++ {
			wg.Add(1)
			go func() {
				defer wg.Done()
				loc := map[string]int64{}
				var ltr int64
				for nd := range work {
					if run.OverBudget() {
						mu.Lock()
						stopped = true
						mu.Unlock()
						continue
					}
					for _, l := range lists {
						okList := true
						var added []string
						for _, it := range l {
							if it.Name == "" {
								continue
							}
							kn := nd.names[it.Name]
							for _, a := range added {
								if a == it.Name {
									kn = true
								}
							}
							if it.IP != "" && !kn {
								okList = false
								break
							}
							added = append(added, it.Name)
						}
						if !okList {
							continue
						}
						h := make(history, 0, len(nd.h)+1)
						h = append(append(h, nd.h...), l)
						ltr++
						class, what, terminal := checkHistory(h)
						if class != "" {
							loc["violation:"+class]++
							run.Violate(evid.Violation{Class: class, What: what, Replay: h})
							continue
						}
						if terminal {
							loc["feed-error"]++
							continue
						}
						fm, _ := build(h)
						st := fm.VerifState()
						switch {
						case strings.Contains(st, "count=map[\""):
							loc["with-rename"]++
						case strings.Contains(st, "patch=map[\""):
							loc["with-patch"]++
						default:
							loc["files-only"]++
						}
						k := key16(st)
						mu.Lock()
						if seen[k] {
							mu.Unlock()
							continue
						}
						seen[k] = true
						states++
						ns := states
						mu.Unlock()
						if ns <= 4 || ns%50000 == 0 {
							run.Sample(map[string]any{"history": h, "state": st})
						}
						if depth < maxDepth {
							nm := map[string]bool{}
							for _, g := range fm.BuildResponse().Contents {
								nm[g.GetName()] = true
							}
							mu.Lock()
							next = append(next, node{h, nm})
							mu.Unlock()
						}
					}
				}
				mu.Lock()
				transitions += ltr
				for k, v := range loc {
					outcomes[k] += v
				}
				mu.Unlock()
			}()
		}
		for _, nd := range frontier {
			work <- nd
		}
		close(work)
		wg.Wait()
		if stopped {
			complete = false
			break
		}
		depthDone = depth
		frontier = next
	}
	run.EvalN("C12", transitions, transitions)
	return
}

func key16(s string) [16]byte {
	h := sha256.Sum256([]byte(s))
	var k [16]byte
	copy(k[:], h[:16])
	return k
}

func doReplay(p string) {
	b, err := os.ReadFile(p)
	if err != nil {
		fmt.Fprintln(os.Stderr, err)
		os.Exit(3)
	}
	var r struct {
		Replay history `json:"replay"`
	}
	if err := json.Unmarshal(b, &r); err != nil {
		fmt.Fprintln(os.Stderr, err)
		os.Exit(3)
	}
	class, what, _ := checkHistory(r.Replay)
	if class != "" {
		fmt.Printf("VIOLATION property=C12 replay=%s\n  class=%s: %s\n", p, class, what)
		os.Exit(1)
	}
	fmt.Println("replay: property holds on this history")
}
