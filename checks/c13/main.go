// C13 — field-mask filtered serialization emits exactly the selected data.
//
// Generate-compile-run with with_field_mask,with_reflection (also
// field_mask_halfway and field_mask_zero_required): for every clean set of
// <= 2 (thorough 3) paths over the root types (fields by name / id, list and
// set indices incl. out of range, int and string map keys present and absent,
// '*', nested), white and black list, and a few values chosen so that every
// "unselected prefix" pattern of a list occurs (lengths 0..4):
//
//	Write under the mask: bytes are well-formed (every container count equals
//	the elements that follow) and decode to the reference filter of the value;
//	Read under the mask: the object holds exactly the filtered value, no error;
//	nil mask: same bytes as without a mask.
//
// Reference filter (fieldmask/README.md, App. A.2 of DESIGN.md): white — a
// child is kept iff its node ends a path, has '*', or names the child; black —
// a child is dropped iff it ends a path; sub-masks recurse; required fields
// are always written (current value in full, or zero with field_mask_zero_required).
package main

import (
	"encoding/hex"
	"flag"
	"fmt"
	"strings"

	"verif/internal/evid"
	"verif/internal/gen"
	"verif/internal/idl"
	"verif/internal/refsem"
)

const extraDriver = `package main

import (
	"encoding/hex"
	"encoding/json"
	"reflect"

	"github.com/apache/thrift/lib/go/thrift"
	"github.com/cloudwego/thriftgo/fieldmask"
	"github.com/cloudwego/thriftgo/thrift_reflection"
)

type fmArgs struct {
	Paths []string ` + "`json:\"paths\"`" + `
	Black bool     ` + "`json:\"black\"`" + `
	Nil   bool     ` + "`json:\"nil\"`" + `
}

func extraOp(q *Req, r *Resp) bool {
	if q.Op != "fm_write" && q.Op != "fm_read" {
		return false
	}
	var a fmArgs
	_ = json.Unmarshal(q.Args, &a)
	var o any
	var err error
	if q.Op == "fm_write" {
		o, err = objFrom(q.Type, q.Val)
	} else {
		o, err = newObj(q.Type)
	}
	if err != nil {
		r.Err = "harness: " + err.Error()
		return true
	}
	rv := reflect.ValueOf(o)
	var fm *fieldmask.FieldMask
	if !a.Nil {
		desc := rv.MethodByName("GetTypeDescriptor").Call(nil)[0].Interface().(*thrift_reflection.TypeDescriptor)
		fm, err = fieldmask.Options{BlackListMode: a.Black}.NewFieldMask(desc, a.Paths...)
		if err != nil {
			r.Err = "mask: " + err.Error()
			return true
		}
	}
	rv.MethodByName("Set_FieldMask").Call([]reflect.Value{reflect.ValueOf(fm)})
	if q.Op == "fm_write" {
		buf := thrift.NewTMemoryBuffer()
		if err := o.(rwStruct).Write(thrift.NewTBinaryProtocol(buf, true, true)); err != nil {
			r.Err = err.Error()
			return true
		}
		r.Bytes = hex.EncodeToString(buf.Bytes())
		return true
	}
	b, _ := hex.DecodeString(q.Bytes)
	buf := thrift.NewTMemoryBuffer()
	buf.Write(b)
	if err := o.(rwStruct).Read(thrift.NewTBinaryProtocol(buf, true, true)); err != nil {
		r.Err = err.Error()
		return true
	}
	describe(o, r)
	return true
}
`

func fld(id int32, name string, t *idl.Type, req idl.Req) *idl.Field {
	return &idl.Field{ID: id, ExplicitID: true, Name: name, Type: t, Req: req}
}

// ---------------------------------------------------------------- paths and reference trie

type step struct {
	kind string // field | idx | skey | ikey | star
	ids  []int
	strs []string
	text string
}
type path struct {
	steps []step
	text  string
}

type node struct {
	complete bool
	star     *node
	kids     map[string]*node
}

func (n *node) child(k string, create bool) *node {
	if n.kids == nil {
		if !create {
			return nil
		}
		n.kids = map[string]*node{}
	}
	c := n.kids[k]
	if c == nil && create {
		c = &node{}
		n.kids[k] = c
	}
	return c
}

func insert(n *node, st []step) {
	if len(st) == 0 {
		n.complete = true
		return
	}
	s := st[0]
	switch s.kind {
	case "star":
		if n.star == nil {
			n.star = &node{}
		}
		insert(n.star, st[1:])
	case "skey":
		for _, k := range s.strs {
			insert(n.child("s:"+k, true), st[1:])
		}
	default:
		for _, k := range s.ids {
			insert(n.child(fmt.Sprint("i:", k), true), st[1:])
		}
	}
}

func clean(n *node) bool {
	if n == nil {
		return true
	}
	if n.star != nil && (len(n.kids) > 0 || n.complete) {
		return false
	}
	if n.complete && len(n.kids) > 0 {
		return false
	}
	if !clean(n.star) {
		return false
	}
	for _, c := range n.kids {
		if !clean(c) {
			return false
		}
	}
	return true
}

func joinInts(a []int) string {
	s := make([]string, len(a))
	for i, x := range a {
		s[i] = fmt.Sprint(x)
	}
	return strings.Join(s, ",")
}

// enumPaths over an idl struct type, to depth d.
func enumPaths(t *idl.Type, d int, byID bool) []path {
	out := []path{}
	idxSets := [][]int{{0}, {1}, {3}, {7}, {0, 1}, {1, 2}, {0, 3}, {2, 7}}
	var rec func(t *idl.Type, pre []step, text string, d int)
	rec = func(t *idl.Type, pre []step, text string, d int) {
		if d == 0 {
			return
		}
		t = t.Final()
		type nx struct {
			s step
			t *idl.Type
		}
		var nexts []nx
		switch t.Kind {
		case idl.StructK:
			ids := refsem.FieldIDs(t.Struct.Fields)
			for i, f := range t.Struct.Fields {
				txt := "." + f.Name
				if byID && ids[i] >= 0 {
					txt = "." + fmt.Sprint(ids[i])
				}
				nexts = append(nexts, nx{step{kind: "field", ids: []int{int(ids[i])}, text: txt}, f.Type})
			}
		case idl.List, idl.Set:
			for _, s := range idxSets {
				nexts = append(nexts, nx{step{kind: "idx", ids: s, text: "[" + joinInts(s) + "]"}, t.Elem})
			}
			nexts = append(nexts, nx{step{kind: "star", text: "[*]"}, t.Elem})
		case idl.Map:
			switch t.Key.Final().Kind {
			case idl.String:
				for _, s := range [][]string{{"a"}, {"zz"}, {"a", "b"}} {
					q := make([]string, len(s))
					for i, x := range s {
						q[i] = fmt.Sprintf("%q", x)
					}
					nexts = append(nexts, nx{step{kind: "skey", strs: s, text: "{" + strings.Join(q, ",") + "}"}, t.Elem})
				}
			case idl.I32, idl.I64, idl.I16, idl.Byte, idl.EnumK:
				for _, s := range [][]int{{1}, {9}, {1, 2}} {
					nexts = append(nexts, nx{step{kind: "ikey", ids: s, text: "{" + joinInts(s) + "}"}, t.Elem})
				}
			}
			nexts = append(nexts, nx{step{kind: "star", text: "{*}"}, t.Elem})
		}
		for _, n := range nexts {
			st := append(append([]step{}, pre...), n.s)
			tx := text + n.s.text
			out = append(out, path{st, tx})
			rec(n.t, st, tx, d-1)
		}
	}
	rec(t, nil, "$", d)
	return out
}

// ---------------------------------------------------------------- reference filter

type filt struct {
	black        bool
	zeroRequired bool
	forRead      bool // reading: a rejected field is skipped even if required
}

func zeroFull(t *idl.Type) *refsem.Val {
	t = t.Final()
	switch t.Kind {
	case idl.StructK:
		return refsem.Obj() // the zero value of a struct is written as an empty struct
	case idl.List, idl.Set:
		return refsem.List()
	case idl.Map:
		return refsem.Map()
	}
	return refsem.Zero(t)
}

// apply returns the filtered value of v under trie node n (nil = everything).
func (f *filt) apply(t *idl.Type, v *refsem.Val, n *node) *refsem.Val {
	t = t.Final()
	if v == nil || n == nil {
		return v
	}
	if !f.black && n.complete {
		return v
	}
	// sub returns (keep, subnode)
	sub := func(key string) (bool, *node) {
		if !f.black {
			if n.star != nil {
				return true, subOrNil(n.star)
			}
			c := n.child(key, false)
			if c == nil {
				return false, nil
			}
			return true, subOrNil(c)
		}
		c := n.star
		if c == nil {
			c = n.child(key, false)
		}
		if c == nil {
			return true, nil
		}
		if c.complete {
			return false, nil
		}
		return true, c
	}
	switch t.Kind {
	case idl.StructK:
		if v.T != "o" {
			return v
		}
		out := refsem.Obj()
		ids := refsem.FieldIDs(t.Struct.Fields)
		for i, fd := range t.Struct.Fields {
			fv := v.Get(ids[i])
			if fv == nil {
				continue
			}
			keep, sn := sub(fmt.Sprint("i:", ids[i]))
			switch {
			case keep:
				out.Set(ids[i], f.apply(fd.Type, fv, sn))
			case fd.Req == idl.ReqRequired && !f.forRead:
				if f.zeroRequired {
					out.Set(ids[i], zeroFull(fd.Type))
				} else {
					out.Set(ids[i], fv)
				}
			}
		}
		return out
	case idl.List, idl.Set:
		if v.T != "l" {
			return v
		}
		out := refsem.List()
		for i, e := range v.L {
			if keep, sn := sub(fmt.Sprint("i:", i)); keep {
				out.L = append(out.L, f.apply(t.Elem, e, sn))
			}
		}
		return out
	case idl.Map:
		if v.T != "m" {
			return v
		}
		out := refsem.Map()
		for _, kv := range v.M {
			key := ""
			switch kv[0].T {
			case "s":
				key = "s:" + string(kv[0].Bytes())
			case "i":
				key = "i:" + kv[0].I
			default:
				key = "other"
			}
			if keep, sn := sub(key); keep {
				out.M = append(out.M, [2]*refsem.Val{kv[0], f.apply(t.Elem, kv[1], sn)})
			}
		}
		return out
	}
	return v
}

func subOrNil(c *node) *node {
	if c.complete {
		return nil
	}
	return c
}

// strictSame: presence-exact comparison (a filtered default-requiredness field is absent).
func strictSame(t *idl.Type, want, got *refsem.Val) string {
	t = t.Final()
	if want == nil || got == nil {
		if want == nil && got == nil {
			return ""
		}
		return fmt.Sprintf("%v vs %v", want, got)
	}
	switch t.Kind {
	case idl.StructK:
		if want.T != "o" || got.T != "o" {
			if want.IsNilish() && got.IsNilish() {
				return ""
			}
			return fmt.Sprintf("%v vs %v", want, got)
		}
		ids := refsem.FieldIDs(t.Struct.Fields)
		for i, f := range t.Struct.Fields {
			w, g := want.Get(ids[i]), got.Get(ids[i])
			if w != nil && w.T == "n" && f.Req == idl.ReqOptional {
				w = nil
			}
			if g != nil && g.T == "n" && f.Req == idl.ReqOptional {
				g = nil
			}
			if d := strictSame(f.Type, w, g); d != "" {
				return fmt.Sprintf("field %s(%d): %s", f.Name, ids[i], d)
			}
		}
		return ""
	case idl.List, idl.Set:
		if want.IsNilish() && got.IsNilish() {
			return ""
		}
		if want.T != "l" || got.T != "l" || len(want.L) != len(got.L) {
			return fmt.Sprintf("%v vs %v", want, got)
		}
		for i := range want.L {
			if d := strictSame(t.Elem, want.L[i], got.L[i]); d != "" {
				return fmt.Sprintf("[%d]: %s", i, d)
			}
		}
		return ""
	case idl.Map:
		if want.IsNilish() && got.IsNilish() {
			return ""
		}
		if want.T != "m" || got.T != "m" || len(want.M) != len(got.M) {
			return fmt.Sprintf("%v vs %v", want, got)
		}
		for _, kv := range want.M {
			ok := false
			for _, kw := range got.M {
				if kv[0].Key(true) == kw[0].Key(true) {
					if d := strictSame(t.Elem, kv[1], kw[1]); d != "" {
						return fmt.Sprintf("{%v}: %s", kv[0], d)
					}
					ok = true
				}
			}
			if !ok {
				return fmt.Sprintf("key %v missing in %v", kv[0], got)
			}
		}
		return ""
	}
	return refsem.Same(t, want, got)
}

// ---------------------------------------------------------------- main

func main() {
	flag.String("replay", "", "unused")
	run := evid.New("C13", "exploration")
	thorough := run.Thorough()
	ses := gen.NewSession(run, "c13")
	defer ses.Close()
	ses.Batch.ExtraDriver = map[string]string{"extra_fm.go": extraDriver}

	i32, str := idl.T(idl.I32), idl.T(idl.String)
	file := &idl.File{Path: "fm.thrift", Namespaces: []*idl.Namespace{{Lang: "go", Name: "c13.fm"}}}
	leaf := &idl.Struct{Cat: "struct", Name: "Leaf", Fields: []*idl.Field{fld(1, "A", i32, idl.ReqDefault), fld(2, "B", str, idl.ReqOptional), fld(3, "R", i32, idl.ReqRequired)}}
	file.Add(leaf)
	mid := &idl.Struct{Cat: "struct", Name: "Mid", Fields: []*idl.Field{
		fld(1, "L", idl.StructT(leaf), idl.ReqDefault), fld(2, "Ls", idl.ListOf(idl.StructT(leaf)), idl.ReqDefault), fld(3, "Sm", idl.MapOf(str, idl.StructT(leaf)), idl.ReqDefault),
		fld(4, "Im", idl.MapOf(i32, idl.StructT(leaf)), idl.ReqDefault), fld(5, "X", i32, idl.ReqDefault), fld(6, "St", idl.SetOf(i32), idl.ReqDefault),
		fld(7, "Dm", idl.MapOf(idl.T(idl.Double), i32), idl.ReqDefault), fld(8, "OL", idl.StructT(leaf), idl.ReqOptional), fld(9, "RL", idl.StructT(leaf), idl.ReqRequired),
		fld(10, "Li", idl.ListOf(i32), idl.ReqDefault), fld(11, "OLi", idl.ListOf(str), idl.ReqOptional), fld(12, "RLi", idl.ListOf(i32), idl.ReqRequired)}}
	file.Add(mid)
	root := &idl.Struct{Cat: "struct", Name: "Root", Fields: []*idl.Field{
		fld(1, "S", i32, idl.ReqDefault), fld(2, "M", idl.StructT(mid), idl.ReqDefault), fld(3, "Lm", idl.ListOf(idl.StructT(mid)), idl.ReqDefault),
		fld(5, "Rs", str, idl.ReqRequired), fld(64, "Hi", i32, idl.ReqDefault), fld(65, "Hl", idl.StructT(leaf), idl.ReqOptional), fld(-1, "Neg", i32, idl.ReqDefault)}}
	file.Add(root)
	// maps keyed by an enum / i64 / i16, and field ids at the boundary of the mask's id table (62, 63, 64)
	en := &idl.Enum{Name: "Ke", Values: []*idl.EnumValue{{Name: "A", Value: 1, Explicit: true}, {Name: "B", Value: 2, Explicit: true}, {Name: "C", Value: 9, Explicit: true}}}
	file.Add(en)
	ext := &idl.Struct{Cat: "struct", Name: "Ext", Fields: []*idl.Field{
		fld(1, "Em", idl.MapOf(idl.EnumT(en), idl.StructT(leaf)), idl.ReqDefault), fld(2, "Ei", idl.MapOf(idl.EnumT(en), i32), idl.ReqDefault), fld(3, "Lm", idl.MapOf(idl.T(idl.I64), idl.StructT(leaf)), idl.ReqOptional),
		fld(4, "Hm", idl.MapOf(idl.T(idl.I16), str), idl.ReqDefault), fld(62, "F62", i32, idl.ReqDefault), fld(63, "F63", idl.StructT(leaf), idl.ReqDefault), fld(64, "F64", idl.ListOf(idl.StructT(leaf)), idl.ReqDefault),
		// required fields of every zero-writer class (field_mask_zero_required writes their zero when filtered)
		fld(5, "Re", idl.EnumT(en), idl.ReqRequired), fld(6, "Rb", idl.T(idl.Bool), idl.ReqRequired), fld(7, "Rd", idl.T(idl.Double), idl.ReqRequired), fld(8, "Ry", idl.T(idl.Byte), idl.ReqRequired),
		fld(9, "Rh", idl.T(idl.I16), idl.ReqRequired), fld(10, "Rl", idl.T(idl.I64), idl.ReqRequired), fld(11, "Rbin", idl.T(idl.Binary), idl.ReqRequired), fld(12, "Rm", idl.MapOf(str, i32), idl.ReqRequired), fld(13, "Rset", idl.SetOf(str), idl.ReqRequired)}}
	file.Add(ext)
	prog := &idl.Program{Files: []*idl.File{file}}

	configs := [][]string{{"with_field_mask", "with_reflection"}, {"with_field_mask", "with_reflection", "field_mask_zero_required"}, {"with_field_mask", "with_reflection", "field_mask_halfway"}}
	var items []*gen.Item
	for i, c := range configs {
		items = append(items, ses.Batch.Add(&gen.Item{Key: fmt.Sprintf("m%d", i), Prog: prog, Opts: c}))
	}
	plain := ses.Batch.Add(&gen.Item{Key: "plain", Prog: prog})
	ses.Start("m0", "plain")

	// values
	lf := func(a int64, b string, r int64) *refsem.Val {
		o := refsem.Obj().Set(1, refsem.Int(a)).Set(3, refsem.Int(r))
		if b != "" {
			o.Set(2, refsem.Str(b))
		}
		return o
	}
	ints := func(n int) *refsem.Val {
		l := refsem.List()
		for i := 0; i < n; i++ {
			l.L = append(l.L, refsem.Int(int64(10+i)))
		}
		return l
	}
	leaves := func(n int) *refsem.Val {
		l := refsem.List()
		for i := 0; i < n; i++ {
			l.L = append(l.L, lf(int64(i), fmt.Sprintf("b%d", i), int64(100+i)))
		}
		return l
	}
	midVal := func(n int) *refsem.Val {
		m := refsem.Obj().Set(1, lf(1, "x", 2)).Set(2, leaves(n)).Set(5, refsem.Int(55)).Set(6, ints(n)).Set(9, lf(9, "r", 99)).Set(10, ints(n)).Set(12, ints(n))
		sm, im, dm := refsem.Map(), refsem.Map(), refsem.Map()
		if n > 0 {
			sm.M = append(sm.M, [2]*refsem.Val{refsem.Str("a"), lf(11, "sa", 12)}, [2]*refsem.Val{refsem.Str("b"), lf(13, "", 14)})
			im.M = append(im.M, [2]*refsem.Val{refsem.Int(1), lf(21, "i1", 22)}, [2]*refsem.Val{refsem.Int(2), lf(23, "i2", 24)})
			dm.M = append(dm.M, [2]*refsem.Val{refsem.Dbl(1.5), refsem.Int(7)})
		}
		m.Set(3, sm).Set(4, im).Set(7, dm)
		if n%2 == 0 {
			m.Set(8, lf(8, "ol", 88))
			l := refsem.List()
			for i := 0; i < n; i++ {
				l.L = append(l.L, refsem.Str(fmt.Sprintf("s%d", i)))
			}
			m.Set(11, l)
		}
		return m
	}
	type rootT struct {
		s     *idl.Struct
		vals  []*refsem.Val
		depth int
	}
	var midVals []*refsem.Val
	for n := 0; n <= 4; n++ {
		midVals = append(midVals, midVal(n))
	}
	rootVal := func(n int) *refsem.Val {
		lm := refsem.List()
		for i := 0; i < n; i++ {
			lm.L = append(lm.L, midVal(i))
		}
		return refsem.Obj().Set(1, refsem.Int(1)).Set(2, midVal(n)).Set(3, lm).Set(5, refsem.Str("rs")).Set(64, refsem.Int(64)).Set(65, lf(65, "hl", 66)).Set(-1, refsem.Int(-1))
	}
	extVal := func(n int) *refsem.Val {
		em, ei, lm, hm := refsem.Map(), refsem.Map(), refsem.Map(), refsem.Map()
		for i, k := range []int64{1, 2, 9}[:n] {
			em.M = append(em.M, [2]*refsem.Val{refsem.Int(k), lf(int64(30+i), "e", int64(40+i))})
			ei.M = append(ei.M, [2]*refsem.Val{refsem.Int(k), refsem.Int(int64(50 + i))})
			lm.M = append(lm.M, [2]*refsem.Val{refsem.Int(k), lf(int64(60+i), "", int64(70+i))})
			hm.M = append(hm.M, [2]*refsem.Val{refsem.Int(k), refsem.Str(fmt.Sprintf("h%d", i))})
		}
		rm := refsem.Map([2]*refsem.Val{refsem.Str("k"), refsem.Int(1)})
		return refsem.Obj().Set(1, em).Set(2, ei).Set(3, lm).Set(4, hm).Set(62, refsem.Int(62)).Set(63, lf(63, "f63", 630)).Set(64, leaves(n)).
			Set(5, refsem.Int(2)).Set(6, refsem.Bool(true)).Set(7, refsem.Dbl(1.5)).Set(8, refsem.Int(3)).Set(9, refsem.Int(4)).Set(10, refsem.Int(5)).Set(11, refsem.Str("bb")).Set(12, rm).Set(13, refsem.List(refsem.Str("s")))
	}
	rootsT := []*rootT{{mid, midVals, 3}, {root, []*refsem.Val{rootVal(3), rootVal(1)}, 2}, {ext, []*refsem.Val{extVal(3), extVal(1)}, 3}}
	if !thorough {
		rootsT[0].vals = []*refsem.Val{midVals[4], midVals[1], midVals[3]}
	}

	outcomes := map[string]int64{}
	type job struct {
		rt    *rootT
		paths []path
		black bool
		val   *refsem.Val
		item  *gen.Item
		cfg   int
		trie  *node
	}
	var jobs []*job
	for _, rt := range rootsT {
		ps := enumPaths(idl.StructT(rt.s), rt.depth, false)
		ps = append(ps, enumPaths(idl.StructT(rt.s), 1, true)...)
		seen := map[string]bool{}
		var uniq []path
		for _, p := range ps {
			if !seen[p.text] {
				seen[p.text] = true
				uniq = append(uniq, p)
			}
		}
		ps = uniq
		run.Set("paths_"+rt.s.Name, len(ps))
		var lists [][]path
		for i := range ps {
			lists = append(lists, []path{ps[i]})
		}
		stride := 1
		if !thorough {
			stride = 2
		}
		k := 0
		for i := range ps {
			for j := i + 1; j < len(ps); j++ {
				k++
				if k%stride != 0 {
					continue
				}
				lists = append(lists, []path{ps[i], ps[j]})
			}
		}
		if !thorough && stride > 1 {
			run.Note(fmt.Sprintf("quick tier: every %dth pair of paths of %s (all singles); the thorough tier takes all pairs", stride, rt.s.Name))
		}
		for _, l := range lists {
			tr := &node{}
			for _, p := range l {
				insert(tr, p.steps)
			}
			if !clean(tr) {
				continue
			}
			for _, black := range []bool{false, true} {
				for vi, v := range rt.vals {
					for ci, it := range items {
						if !gen.Usable(it) {
							continue
						}
						if ci > 0 && (vi > 0 || len(l) > 1) && !thorough {
							continue // other configurations: singles on the first value
						}
						jobs = append(jobs, &job{rt, l, black, v, it, ci, tr})
					}
				}
			}
		}
	}
	run.Set("mask_value_config_triples", len(jobs))
	texts := func(ps []path) []string {
		s := make([]string, len(ps))
		for i, p := range ps {
			s[i] = p.text
		}
		return s
	}
	var reqs []*gen.Req
	for _, j := range jobs {
		args := map[string]any{"paths": texts(j.paths), "black": j.black}
		full := refsem.EncodeStruct(nil, j.rt.s.Fields, refsem.Complete(j.rt.s, j.val))
		reqs = append(reqs, &gen.Req{Type: gen.RegKey(j.item, j.rt.s.Name), Op: "fm_write", Val: j.val, Args: args},
			&gen.Req{Type: gen.RegKey(j.item, j.rt.s.Name), Op: "fm_read", Bytes: hex.EncodeToString(full), Args: args})
	}
	resps := ses.Do(reqs)
	for i, j := range jobs {
		wr, rd := resps[2*i], resps[2*i+1]
		mode := "white"
		if j.black {
			mode = "black"
		}
		f := &filt{black: j.black, zeroRequired: j.cfg == 1}
		full := refsem.Complete(j.rt.s, j.val)
		want := f.apply(idl.StructT(j.rt.s), full, j.trie)
		nontrivial := want.Key(false) != full.Key(false) && len(want.O) > 0
		run.Eval(fmt.Sprintf("%d|%s|%v|%s|%s", j.cfg, j.rt.s.Name, texts(j.paths), mode, j.val.Key(false)), nontrivial)
		shape := pathShape(j.paths)
		rp := map[string]any{"struct": j.rt.s.Name, "paths": texts(j.paths), "black": j.black, "value": j.val, "config": configs[j.cfg]}
		for k, rs := range []*gen.Resp{wr, rd} {
			op := []string{"write", "read"}[k]
			if rs.Panic != "" {
				run.Violate(evid.Violation{Class: "panic:" + op + ":" + mode + ":" + panicShape(rs.Panic), What: fmt.Sprintf("%s under mask %v (%s) panicked: %s", op, texts(j.paths), mode, firstLine(rs.Panic)), Replay: rp})
				continue
			}
			if strings.HasPrefix(rs.Err, "harness:") {
				run.Fatal("driver: %s", rs.Err)
			}
			if strings.HasPrefix(rs.Err, "mask:") {
				run.Violate(evid.Violation{Class: "mask-rejected:" + shape, What: fmt.Sprintf("valid paths %v rejected: %s", texts(j.paths), firstLine(rs.Err)), Replay: rp})
				continue
			}
			if rs.Err != "" {
				run.Violate(evid.Violation{Class: op + "-error:" + mode + ":" + shape, What: fmt.Sprintf("%s under mask %v (%s) failed: %s", op, texts(j.paths), mode, firstLine(rs.Err)), Replay: rp})
				continue
			}
			if op == "write" {
				b, _ := hex.DecodeString(rs.Bytes)
				if err := refsem.WellFormed(b); err != nil {
					run.Violate(evid.Violation{Class: "malformed:" + mode + ":" + shape, What: fmt.Sprintf("%s: bytes written under mask %v (%s) are malformed: %v", j.rt.s.Name, texts(j.paths), mode, err), Replay: rp})
					continue
				}
				dec, unk, err := refsem.DecodeStruct(j.rt.s.Fields, b)
				if err != nil || len(unk) > 0 {
					run.Violate(evid.Violation{Class: "undecodable:" + mode + ":" + shape, What: fmt.Sprintf("bytes written under mask %v do not decode: %v", texts(j.paths), err), Replay: rp})
					continue
				}
				if d := strictSame(idl.StructT(j.rt.s), want, dec); d != "" {
					run.Violate(evid.Violation{Class: "write-filter-wrong:" + mode + ":" + cfgName(j.cfg) + ":" + shape, What: fmt.Sprintf("%s written under mask %v (%s): %s (want/got)", j.rt.s.Name, texts(j.paths), mode, d), Replay: rp})
					continue
				}
				outcomes["write-ok"]++
			} else {
				// a filtered-out field stays at what a fresh object holds (zero / unset)
				fr := &filt{black: j.black, forRead: true}
				wantObj := readExpectation(j.rt.s, fr.apply(idl.StructT(j.rt.s), full, j.trie))
				if d := refsem.SameStruct(j.rt.s, wantObj, rs.Val); d != "" {
					run.Violate(evid.Violation{Class: "read-filter-wrong:" + mode + ":" + cfgName(j.cfg) + ":" + shape, What: fmt.Sprintf("%s read under mask %v (%s): %s (want/got)", j.rt.s.Name, texts(j.paths), mode, d), Replay: rp})
					continue
				}
				outcomes["read-ok"]++
			}
		}
	}
	// nil mask == code generated without the option
	reqs = reqs[:0]
	type nm struct {
		rt *rootT
		v  *refsem.Val
		it *gen.Item
	}
	var nms []nm
	for _, rt := range rootsT {
		for _, v := range rt.vals {
			for _, it := range items {
				if gen.Usable(it) {
					nms = append(nms, nm{rt, v, it})
					reqs = append(reqs, &gen.Req{Type: gen.RegKey(it, rt.s.Name), Op: "fm_write", Val: v, Args: map[string]any{"nil": true}}, &gen.Req{Type: gen.RegKey(plain, rt.s.Name), Op: "write", Val: v})
				}
			}
		}
	}
	resps = ses.Do(reqs)
	for i, x := range nms {
		a, b := resps[2*i], resps[2*i+1]
		run.Eval("nil|"+x.it.Key+"|"+x.v.Key(false), true)
		if a.Err != "" || b.Err != "" || a.Panic != "" || b.Panic != "" {
			run.Violate(evid.Violation{Class: "nil-mask-error", What: fmt.Sprintf("Write with nil mask: %s %s %s %s", a.Err, b.Err, a.Panic, b.Panic), Replay: map[string]any{"struct": x.rt.s.Name, "value": x.v}})
			continue
		}
		ab, _ := hex.DecodeString(a.Bytes)
		bb, _ := hex.DecodeString(b.Bytes)
		da, _, _ := refsem.DecodeStruct(x.rt.s.Fields, ab)
		db, _, _ := refsem.DecodeStruct(x.rt.s.Fields, bb)
		if len(ab) != len(bb) || da == nil || db == nil || strictSame(idl.StructT(x.rt.s), db, da) != "" {
			run.Violate(evid.Violation{Class: "nil-mask-differs", What: fmt.Sprintf("%s: nil mask writes %x, code without the option writes %x", x.rt.s.Name, ab, bb), Replay: map[string]any{"struct": x.rt.s.Name, "value": x.v}})
			continue
		}
		outcomes["nil-mask-ok"]++
	}
	run.Set("outcome_classes", outcomes)
	if len(jobs) > 0 {
		j := jobs[len(jobs)/2]
		f := &filt{black: j.black}
		run.Sample(map[string]any{"struct": j.rt.s.Name, "paths": texts(j.paths), "black": j.black, "value": j.val.String(), "filtered": f.apply(idl.StructT(j.rt.s), refsem.Complete(j.rt.s, j.val), j.trie).String()})
	}
	run.Set("rule", "one evaluation = one (path set, white/black, value, configuration) written and read under the mask by the generated code; non-trivial iff the mask rejects at least one and passes at least one element of the value")
	run.Assume("only clean path sets (no '*' next to a specific child, no path ending where another continues) are judged; required fields filtered out are written in full (zero value with field_mask_zero_required)")
	run.Finish()
}

func cfgName(i int) string { return []string{"default", "zero_required", "halfway"}[i] }

// readExpectation: what the object holds after Read under the mask: filtered
// fields of default requiredness are at their zero value (Complete fills them).
func readExpectation(s *idl.Struct, want *refsem.Val) *refsem.Val { return refsem.Complete(s, want) }

// pathShape abstracts a path list to the step kinds (class of the violation).
func pathShape(ps []path) string {
	var out []string
	for _, p := range ps {
		var sb strings.Builder
		for _, s := range p.steps {
			switch s.kind {
			case "field":
				sb.WriteString(".f")
			case "idx":
				fmt.Fprintf(&sb, "[%d]", len(s.ids))
			case "skey", "ikey":
				fmt.Fprintf(&sb, "{%d}", len(s.ids)+len(s.strs))
			case "star":
				sb.WriteString("*")
			}
		}
		out = append(out, sb.String())
	}
	return strings.Join(out, "+")
}

func panicShape(p string) string {
	p = firstLine(p)
	if i := strings.Index(p, "["); i > 0 {
		p = p[:i]
	}
	return strings.TrimSpace(p)
}

func firstLine(s string) string {
	if i := strings.IndexByte(s, '\n'); i >= 0 {
		return s[:i]
	}
	return s
}
