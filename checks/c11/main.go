// C11 — plugins see the compiler's AST and options, and their answers are honoured.
//
// Exhaustive enumeration of environment answers: the "environment" of the
// compiler is the plugin process; its alphabet is the response shapes and
// faults listed below, the compiler-side alphabet is programs x option
// strings x -r x include compression.
//
//	level A (in-process, real marshalling code): every program and every
//	  document of the syntax universe: Request -> MarshalRequest ->
//	  UnmarshalRequest is the identity node for node, with and without include
//	  compression (the exact step sequence of external.Execute, through an
//	  export overlay), the compiler's own AST is unchanged afterwards and the
//	  sharing pattern of includes is restored; every Response shape round
//	  trips; every proper prefix of every response encoding is rejected.
//	level B (real processes): thriftgo built from /repo runs a recording
//	  plugin built against the SDK in /repo (declared as v0.4.2 so that the
//	  compression gate opens). What the plugin received and decoded is compared
//	  with the AST the front end builds for the same files and with the command
//	  line; each response shape / fault is played and the output tree, exit
//	  status, messages and the fate of the plugin process are compared with
//	  the expectation.
package main

import (
	"bytes"
	"context"
	_ "embed"
	"encoding/json"
	"flag"
	"fmt"
	"go/format"
	"os"
	"os/exec"
	"path/filepath"
	"sort"
	"strings"
	"sync"
	"time"

	"verif/internal/docs"
	"verif/internal/evid"
	"verif/internal/gen"
	"verif/internal/idl"
	"verif/internal/idlast"
	"verif/internal/progs"
	"verif/internal/universe"

	"github.com/cloudwego/thriftgo/parser"
	"github.com/cloudwego/thriftgo/plugin"
	"github.com/cloudwego/thriftgo/semantic"
	"github.com/cloudwego/thriftgo/version"
)

//go:embed plugsrc.go.txt
var plugSrc string

const trailer = "\xffTHRIFTGO_TRAILER_V1\xff"

func sharing(ast *parser.Thrift) []string {
	idx := map[*parser.Thrift]int{}
	var out []string
	var walk func(t *parser.Thrift) int
	walk = func(t *parser.Thrift) int {
		if i, ok := idx[t]; ok {
			return i
		}
		i := len(idx)
		idx[t] = i
		for _, inc := range t.Includes {
			if inc.Reference == nil {
				out = append(out, fmt.Sprintf("%d->nil:%s", i, inc.Path))
				continue
			}
			j, seen := idx[inc.Reference]
			if !seen {
				j = walk(inc.Reference)
			}
			out = append(out, fmt.Sprintf("%d->%d:%s", i, j, inc.Reference.Filename))
		}
		return i
	}
	if ast != nil {
		walk(ast)
	}
	return out
}

func frontEnd(mainPath string) (*parser.Thrift, error) {
	ast, err := parser.ParseFile(mainPath, nil, true)
	if err != nil {
		return nil, err
	}
	if _, err := semantic.NewChecker(semantic.Options{FixWarnings: true}).CheckAll(ast); err != nil {
		return nil, err
	}
	if err := semantic.ResolveSymbols(ast); err != nil {
		return nil, err
	}
	return ast, nil
}

func pack(opts string) []string {
	if opts == "" {
		return nil
	}
	var out []string
	for _, a := range strings.Split(opts, ",") {
		if i := strings.Index(a, "="); i >= 0 {
			out = append(out, a[:i]+"="+a[i+1:])
		} else {
			out = append(out, a+"=")
		}
	}
	return out
}

func sameStrings(a, b []string) bool {
	if len(a) != len(b) {
		return false
	}
	for i := range a {
		if a[i] != b[i] {
			return false
		}
	}
	return true
}

type result struct {
	exit    int
	out     string
	hung    bool
	elapsed time.Duration
}

func runCmd(timeout time.Duration, env []string, dir, bin string, args ...string) result {
	ctx, cancel := context.WithTimeout(context.Background(), timeout)
	defer cancel()
	cmd := exec.CommandContext(ctx, bin, args...)
	cmd.Dir = dir
	cmd.Env = env
	var buf bytes.Buffer
	cmd.Stdout, cmd.Stderr = &buf, &buf
	cmd.WaitDelay = 2 * time.Second
	t0 := time.Now()
	err := cmd.Run()
	r := result{out: buf.String(), elapsed: time.Since(t0)}
	if ctx.Err() != nil {
		r.hung = true
		r.exit = -1
		return r
	}
	if err != nil {
		if ee, ok := err.(*exec.ExitError); ok {
			r.exit = ee.ExitCode()
		} else {
			r.exit = -2
			r.out += "\n" + err.Error()
		}
	}
	return r
}

func readTree(root string) map[string]string {
	out := map[string]string{}
	filepath.Walk(root, func(p string, info os.FileInfo, err error) error {
		if err == nil && !info.IsDir() {
			b, _ := os.ReadFile(p)
			rel, _ := filepath.Rel(root, p)
			out[rel] = string(b)
		}
		return nil
	})
	return out
}

func crashed(out string) bool {
	return strings.Contains(out, "goroutine ") || strings.Contains(out, "panic:") || strings.Contains(out, "Recovered from panic") || strings.Contains(out, "fatal error:")
}

type pfile struct {
	Name    *string `json:"name,omitempty"`
	Point   *string `json:"point,omitempty"`
	Content string  `json:"content"`
}

type script struct {
	Files    []pfile  `json:"files"`
	Warnings []string `json:"warnings"`
	Error    *string  `json:"error,omitempty"`
	Stderr   string   `json:"stderr"`
	Exit     int      `json:"exit"`
	SleepMs  int      `json:"sleep_ms"`
	Raw      *string  `json:"raw,omitempty"`
	Prefix   string   `json:"prefix"`
	Truncate int      `json:"truncate"`
	Wrapper  bool     `json:"wrapper"`
}

func sp(s string) *string { return &s }

func pidAlive(pidFile string) (bool, string) {
	b, err := os.ReadFile(pidFile)
	if err != nil {
		return false, ""
	}
	pid := strings.TrimSpace(string(b))
	st, err := os.ReadFile("/proc/" + pid + "/stat")
	if err != nil {
		return false, pid
	}
	// state field after the closing parenthesis: Z = zombie (dead, not reaped)
	if i := strings.LastIndex(string(st), ")"); i >= 0 && len(st) > i+2 && st[i+2] == 'Z' {
		return false, pid
	}
	cl, _ := os.ReadFile("/proc/" + pid + "/cmdline")
	if !strings.Contains(string(cl), "thrift-gen-vrec") {
		return false, pid
	}
	return true, pid
}

func main() {
	flag.String("replay", "", "unused")
	run := evid.New("C11", "fault_enumeration")
	thorough := run.Thorough()
	scratch := os.Getenv("VERIF_SCRATCH")
	if scratch == "" {
		d, err := os.MkdirTemp("", "verif-c11-")
		if err != nil {
			run.Fatal("%v", err)
		}
		scratch = d
		defer os.RemoveAll(d)
	}
	tg, err := gen.BuildThriftgo(scratch)
	if err != nil {
		run.Fatal("%v", err)
	}
	outcomes := map[string]int64{}
	var mu sync.Mutex
	count := func(k string) { mu.Lock(); outcomes[k]++; mu.Unlock() }

	// ------------------------------------------------------------ programs on disk
	type dprog struct {
		name  string
		main  string // absolute
		texts map[string]string
	}
	var dps []*dprog
	all := progs.Programs()
	{
		// the ways of writing a constant that thriftgo accepts (probed one by one with the binary)
		pw := universe.Ways(universe.NewConstEnv("c11"))
		pb, err := gen.NewBatch(scratch+"/probe", tg)
		if err != nil {
			run.Fatal("%v", err)
		}
		var probes []*gen.Item
		for i := range pw {
			pe := universe.NewConstEnv("c11")
			universe.Attach(pe.Main, universe.Ways(pe)[i])
			probes = append(probes, pb.Add(&gen.Item{Key: fmt.Sprintf("probe%d", i), Prog: &idl.Program{Files: []*idl.File{pe.Main, pe.Inc}}, Recurse: true}))
		}
		pb.Generate()
		e := universe.NewConstEnv("c11")
		n := 0
		for i, w := range universe.Ways(e) {
			if probes[i].Exit == 0 {
				universe.Attach(e.Main, w)
				n++
			}
		}
		all = append(all, &progs.Prog{Name: "constants-of-every-shape", Files: []*idl.File{e.Main, e.Inc}})
		run.Set("constant_ways_accepted", n)
		env := universe.NewEnv("c11t")
		env.StandardRoots(env.Types1(false))
		all = append(all, &progs.Prog{Name: "type-shapes", Files: env.Program().Files})
	}
	for _, p := range all {
		dir := filepath.Join(scratch, "idl", p.Name)
		texts := docs.Texts(&idl.Program{Files: p.Files})
		for rel, t := range texts {
			fp := filepath.Join(dir, rel)
			os.MkdirAll(filepath.Dir(fp), 0o755)
			if err := os.WriteFile(fp, []byte(t), 0o644); err != nil {
				run.Fatal("%v", err)
			}
		}
		dps = append(dps, &dprog{p.Name, filepath.Join(dir, p.Files[0].Path), texts})
	}

	// ------------------------------------------------------------ level A
	check := func(key string, ast *parser.Thrift, rp map[string]any) {
		for _, compressed := range []bool{false, true} {
			if compressed && strings.HasPrefix(key, "doc:") {
				continue // parse-only documents have unresolved includes; the compiler never sends those
			}
			req := &plugin.Request{Version: "v", GeneratorParameters: []string{"a=b", "c="}, PluginParameters: []string{"x=1"}, Language: "go", OutputPath: "/o", Recursive: true, AST: ast}
			before, _ := plugin.MarshalRequest(req)
			shBefore := sharing(ast)
			var data []byte
			var err error
			if compressed {
				data, err = plugin.VerifMarshalCompressed(req)
			} else {
				data, err = plugin.MarshalRequest(req)
			}
			run.Eval(fmt.Sprintf("A|%s|compress=%v", key, compressed), len(ast.Includes) > 0 || len(before) > 200)
			cls := fmt.Sprintf("compress=%v", compressed)
			if err != nil {
				run.Violate(evid.Violation{Class: "marshal-error:" + cls, What: key + ": " + err.Error(), Replay: rp})
				continue
			}
			after, _ := plugin.MarshalRequest(req)
			// (byte equality of two encodings is C07's subject: compare what they decode to)
			r1, e1 := plugin.UnmarshalRequest(before)
			r2, e2 := plugin.UnmarshalRequest(after)
			if e1 != nil || e2 != nil {
				run.Violate(evid.Violation{Class: "unmarshal-error:" + cls, What: fmt.Sprintf("%s: %v %v", key, e1, e2), Replay: rp})
				continue
			}
			if pth, _ := idlast.Diff(r1, r2, nil); pth != "" || !sameStrings(shBefore, sharing(ast)) {
				run.Violate(evid.Violation{Class: "compiler-ast-changed-by-marshalling:" + cls, What: key + ": the compiler's own AST differs after the request was marshalled", Replay: rp})
				continue
			}
			var back *plugin.Request
			func() {
				defer func() {
					if r := recover(); r != nil {
						err = fmt.Errorf("panic: %v", r)
					}
				}()
				back, err = plugin.UnmarshalRequest(data)
			}()
			if err != nil {
				run.Violate(evid.Violation{Class: "unmarshal-error:" + cls, What: key + ": " + err.Error(), Replay: rp})
				continue
			}
			if p, w := idlast.Diff(req, back, nil); p != "" {
				run.Violate(evid.Violation{Class: "request-differs:" + cls + ":" + strings.ReplaceAll(p, "[]", ""), What: fmt.Sprintf("%s: decoded request differs at %s: %s", key, p, w), Replay: rp})
				continue
			}
			if compressed && !sameStrings(shBefore, sharing(back.AST)) {
				run.Violate(evid.Violation{Class: "sharing-not-restored", What: fmt.Sprintf("%s: include sharing %v became %v", key, shBefore, sharing(back.AST)), Replay: rp})
				continue
			}
			count("A-request-roundtrip-ok")
		}
	}
	for _, dp := range dps {
		ast, err := frontEnd(dp.main)
		if err != nil {
			run.Fatal("front end rejects %s: %v", dp.name, err)
		}
		check("prog:"+dp.name, ast, map[string]any{"program": dp.name, "files": dp.texts})
	}
	for _, d := range docs.Documents(thorough) {
		text := idl.Render(d.File)
		ast, err := parser.ParseString("doc.thrift", text)
		if err != nil {
			continue // C03's subject
		}
		check("doc:"+d.Name, ast, map[string]any{"document": d.Name, "idl": text})
	}
	// responses
	var respShapes []*plugin.Response
	files := [][]*plugin.Generated{nil, {{Name: sp("a.go"), Content: "x"}}, {{Name: sp("a.go"), Content: "x @@thriftgo_insertion_point(p)"}, {InsertionPoint: sp("p"), Content: "y"}},
		{{Name: sp(""), InsertionPoint: sp(""), Content: ""}, {Name: sp("b"), InsertionPoint: sp("q.r"), Content: "\x00\xff binary"}}}
	for _, e := range []*string{nil, sp(""), sp("boom")} {
		for _, w := range [][]string{nil, {}, {"w"}, {"w1", "", "w3"}} {
			for _, f := range files {
				respShapes = append(respShapes, &plugin.Response{Error: e, Warnings: w, Contents: f})
			}
		}
	}
	prefixes := 0
	for i, r := range respShapes {
		data, err := plugin.MarshalResponse(r)
		run.Eval(fmt.Sprintf("A|response|%d", i), r.Error != nil || len(r.Warnings) > 0 || len(r.Contents) > 0)
		if err != nil {
			run.Violate(evid.Violation{Class: "response-marshal-error", What: err.Error(), Replay: map[string]any{"shape": i}})
			continue
		}
		back, err := plugin.UnmarshalResponse(data)
		if err != nil {
			run.Violate(evid.Violation{Class: "response-unmarshal-error", What: err.Error(), Replay: map[string]any{"shape": i}})
			continue
		}
		if p, w := idlast.Diff(r, back, nil); p != "" {
			run.Violate(evid.Violation{Class: "response-differs:" + p, What: fmt.Sprintf("response shape %d differs at %s: %s", i, p, w), Replay: map[string]any{"shape": i}})
			continue
		}
		ok := true
		for n := 0; n < len(data); n++ {
			prefixes++
			var perr error
			func() {
				defer func() {
					if rr := recover(); rr != nil {
						perr = nil
						run.Violate(evid.Violation{Class: "response-prefix-panics", What: fmt.Sprintf("UnmarshalResponse panics on the first %d of %d bytes of response shape %d: %v", n, len(data), i, rr), Replay: map[string]any{"shape": i, "prefix": n}})
						ok = false
						perr = fmt.Errorf("panic")
					}
				}()
				_, perr = plugin.UnmarshalResponse(data[:n])
			}()
			if perr == nil {
				run.Violate(evid.Violation{Class: "response-prefix-accepted", What: fmt.Sprintf("UnmarshalResponse accepts the first %d of %d bytes of response shape %d", n, len(data), i), Replay: map[string]any{"shape": i, "prefix": n, "bytes": fmt.Sprintf("%x", data[:n])}})
				ok = false
			}
		}
		if ok {
			count("A-response-roundtrip-and-prefixes-ok")
		}
	}
	run.Set("response_prefixes_decoded", prefixes)

	// ------------------------------------------------------------ level B: binaries
	pdir := filepath.Join(scratch, "vplug")
	bindir := filepath.Join(scratch, "bin")
	os.MkdirAll(pdir, 0o755)
	os.MkdirAll(bindir, 0o755)
	os.WriteFile(filepath.Join(pdir, "main.go"), []byte(plugSrc), 0o644)
	os.WriteFile(filepath.Join(pdir, "go.mod"), []byte("module vplug\n\ngo 1.22\n\nrequire github.com/cloudwego/thriftgo v0.4.2\n\nreplace github.com/cloudwego/thriftgo => /repo\n\nreplace golang.org/x/sync v0.11.0 => golang.org/x/sync v0.10.0\n"), 0o644)
	if b, err := os.ReadFile("/repo/go.sum"); err == nil {
		os.WriteFile(filepath.Join(pdir, "go.sum"), b, 0o644)
	}
	{
		cmd := exec.Command("go", "build", "-o", filepath.Join(bindir, "thrift-gen-vrec"), ".")
		cmd.Dir = pdir
		cmd.Env = gen.GoEnv()
		if out, err := cmd.CombinedOutput(); err != nil {
			run.Fatal("building the recording plugin: %v\n%s", err, out)
		}
	}
	// the same plugin declared against an SDK that predates the data trailer (no include compression for it)
	{
		odir := filepath.Join(scratch, "vplug-old")
		os.MkdirAll(odir, 0o755)
		os.WriteFile(filepath.Join(odir, "main.go"), []byte(plugSrc), 0o644)
		os.WriteFile(filepath.Join(odir, "go.mod"), []byte("module vplugold\n\ngo 1.22\n\nrequire github.com/cloudwego/thriftgo v0.3.15\n\nreplace github.com/cloudwego/thriftgo => /repo\n\nreplace golang.org/x/sync v0.11.0 => golang.org/x/sync v0.10.0\n"), 0o644)
		if b, err := os.ReadFile("/repo/go.sum"); err == nil {
			os.WriteFile(filepath.Join(odir, "go.sum"), b, 0o644)
		}
		cmd := exec.Command("go", "build", "-o", filepath.Join(bindir, "thrift-gen-vold"), ".")
		cmd.Dir = odir
		cmd.Env = gen.GoEnv()
		if out, err := cmd.CombinedOutput(); err != nil {
			run.Fatal("building the old-SDK plugin: %v\n%s", err, out)
		}
	}
	if b, err := os.ReadFile(filepath.Join(bindir, "thrift-gen-vrec")); err == nil {
		os.WriteFile(filepath.Join(bindir, "thrift-gen-vrec2"), b, 0o755)
		os.WriteFile(filepath.Join(bindir, "thrift-gen-vrec3"), b, 0o755)
	}
	baseEnv := append(os.Environ(), "PATH="+bindir+":"+os.Getenv("PATH"))
	cwd, _ := os.Getwd() // thriftgo records file names relative to the working directory: run it where the expectation is computed
	caseN := 0
	newCase := func() (dir, out, rec string) {
		mu.Lock()
		caseN++
		n := caseN
		mu.Unlock()
		dir = filepath.Join(scratch, "cases", fmt.Sprint(n))
		out, rec = filepath.Join(dir, "out"), filepath.Join(dir, "rec", "thrift-gen-vrec")
		os.MkdirAll(rec, 0o755)
		return
	}

	// ---- B1: the request
	type reqCase struct {
		dp       *dprog
		rec      bool
		gopts    string
		popts    string
		compress bool
	}
	gopts := []string{"", "naming_style=apache", "package_prefix=x/y,keep_unknown_fields", "gen_setter=true,json_enum_as_text"}
	// "A|B|C": several plugins in one run (vrec, vrec2, vrec3) with options A, B, C
	popts := []string{"", "a=1", "k1=v1,k2,k3=v3", "x=,y=a=b", "dup=1,dup=2", "first=1|second=2,flag", "|only=second", "a=1,b|", "x=1||z=9"}
	var rcs []reqCase
	for _, dp := range dps {
		for _, rec := range []bool{false, true} {
			for gi, g := range gopts {
				for pi, p := range popts {
					for _, c := range []bool{false, true} {
						if !thorough && dp.name == "type-shapes" && (gi+pi)%4 != 0 {
							continue // the big program takes the diagonal in the quick tier
						}
						rcs = append(rcs, reqCase{dp, rec, g, p, c})
					}
				}
			}
		}
	}
	expAST := map[string]*parser.Thrift{}
	for _, dp := range dps {
		a, err := frontEnd(dp.main)
		if err != nil {
			run.Fatal("%v", err)
		}
		expAST[dp.name] = a
	}
	var astMu sync.Mutex // Diff only reads, but the expectation is shared: keep comparisons serial per program
	work := make(chan reqCase)
	var wg sync.WaitGroup
	for w := 0; w < 12; w++ {
		wg.Add(1)
		go func() {
			defer wg.Done()
			for c := range work {
				dir, out, rec := newCase()
				args := []string{"-g", "go"}
				if c.gopts != "" {
					args[1] = "go:" + c.gopts
				}
				plugOpts := strings.Split(c.popts, "|")
				for i, po := range plugOpts {
					p := []string{"vrec", "vrec2", "vrec3"}[i]
					if po != "" {
						p += ":" + po
					}
					args = append(args, "-p", p)
				}
				args = append(args, "-o", out)
				if c.rec {
					args = append(args, "-r")
				}
				args = append(args, c.dp.main)
				env := append(append([]string{}, baseEnv...), "VREC_DIR="+filepath.Dir(rec))
				if c.compress {
					env = append(env, "THRIFTGO_PLUGIN_COMPRESS_INCLUDE=1")
				} else {
					env = append(env, "THRIFTGO_PLUGIN_COMPRESS_INCLUDE=0")
				}
				r := runCmd(3*time.Minute, env, cwd, tg, args...)
				key := fmt.Sprintf("B|request|%s|r=%v|g=%s|p=%s|compress=%v", c.dp.name, c.rec, c.gopts, c.popts, c.compress)
				run.Eval(key, true)
				rp := map[string]any{"program": c.dp.name, "args": args, "compress": c.compress, "files": c.dp.texts}
				cls := fmt.Sprintf("%s:compress=%v", c.dp.name, c.compress)
				if r.hung || r.exit != 0 {
					run.Violate(evid.Violation{Class: "run-with-plugin-failed:" + cls, What: fmt.Sprintf("thriftgo %v: exit %d hung=%v\n%s", args, r.exit, r.hung, tail(r.out)), Replay: rp})
					os.RemoveAll(dir)
					continue
				}
				bad := false
				for pi, po := range plugOpts {
					prec := filepath.Join(filepath.Dir(rec), []string{"thrift-gen-vrec", "thrift-gen-vrec2", "thrift-gen-vrec3"}[pi])
					if b, err := os.ReadFile(prec + "/decode_error"); err == nil {
						run.Violate(evid.Violation{Class: "plugin-cannot-decode:" + cls, What: fmt.Sprintf("the plugin's UnmarshalRequest fails: %s", b), Replay: rp})
						bad = true
						break
					}
					raw, _ := os.ReadFile(prec + "/request.bin")
					dec, _ := os.ReadFile(prec + "/decoded.bin")
					if c.compress != bytes.HasSuffix(raw, []byte(trailer)) {
						run.Fatal("compression gate: compress=%v but trailer present=%v (the harness does not reach the path it claims)", c.compress, bytes.HasSuffix(raw, []byte(trailer)))
					}
					for which, data := range map[string][]byte{"decoded by the plugin": dec, "stdin bytes decoded by the check": raw} {
						req, err := plugin.UnmarshalRequest(data)
						if err != nil {
							run.Violate(evid.Violation{Class: "request-undecodable:" + cls, What: which + ": " + err.Error(), Replay: rp})
							bad = true
							break
						}
						var d string
						switch {
						case req.Version != version.ThriftgoVersion:
							d = fmt.Sprintf("Version %q, compiler is %q", req.Version, version.ThriftgoVersion)
						case req.Language != "go":
							d = fmt.Sprintf("Language %q", req.Language)
						case req.OutputPath != out:
							d = fmt.Sprintf("OutputPath %q, command line says %q", req.OutputPath, out)
						case req.Recursive != c.rec:
							d = fmt.Sprintf("Recursive %v, command line says %v", req.Recursive, c.rec)
						case !sameStrings(req.GeneratorParameters, pack(c.gopts)):
							d = fmt.Sprintf("GeneratorParameters %q, command line says %q", req.GeneratorParameters, pack(c.gopts))
						case !sameStrings(req.PluginParameters, pack(po)):
							d = fmt.Sprintf("PluginParameters %q, command line says %q", req.PluginParameters, pack(po))
						}
						if d != "" {
							run.Violate(evid.Violation{Class: "request-header:" + strings.SplitN(d, " ", 2)[0], What: fmt.Sprintf("%s (%s): %s", key, which, d), Replay: rp})
							bad = true
							break
						}
						astMu.Lock()
						pth, w := idlast.Diff(expAST[c.dp.name], req.AST, nil)
						astMu.Unlock()
						if pth != "" {
							run.Violate(evid.Violation{Class: "request-ast-differs:" + strings.ReplaceAll(pth, "[]", ""), What: fmt.Sprintf("%s (%s): AST differs from the front end's at %s: %s", key, which, pth, w), Replay: rp})
							bad = true
							break
						}
					}
					if !bad && c.compress {
						var sh []string
						b, _ := os.ReadFile(prec + "/sharing.json")
						json.Unmarshal(b, &sh)
						if !sameStrings(sh, sharing(expAST[c.dp.name])) {
							run.Violate(evid.Violation{Class: "sharing-not-restored:" + c.dp.name, What: fmt.Sprintf("%s: includes shared in the plugin %v, in the compiler %v", key, sh, sharing(expAST[c.dp.name])), Replay: rp})
							bad = true
						}
					}
					if bad {
						break
					}
				}
				if !bad {
					count("B-request-ok")
				}
				os.RemoveAll(dir)
			}
		}()
	}
	for _, c := range rcs {
		work <- c
	}
	close(work)
	wg.Wait()

	// ---- B1b: a plugin built against an SDK without the trailer must get the plain request,
	// whatever THRIFTGO_PLUGIN_COMPRESS_INCLUDE says
	for _, dp := range dps {
		for _, compress := range []bool{false, true} {
			dir, out, rec := newCase()
			rec = filepath.Join(filepath.Dir(rec), "thrift-gen-vold")
			os.MkdirAll(rec, 0o755)
			args := []string{"-g", "go", "-p", "vold:a=1", "-o", out, "-r", dp.main}
			env := append(append([]string{}, baseEnv...), "VREC_DIR="+filepath.Dir(rec))
			if compress {
				env = append(env, "THRIFTGO_PLUGIN_COMPRESS_INCLUDE=1")
			}
			r := runCmd(3*time.Minute, env, cwd, tg, args...)
			run.Eval(fmt.Sprintf("B|request-old-sdk|%s|compress=%v", dp.name, compress), true)
			rp := map[string]any{"program": dp.name, "args": args, "compress_env": compress, "plugin_sdk": "v0.3.15", "files": dp.texts}
			cls := fmt.Sprintf("%s:compress=%v", dp.name, compress)
			if r.hung || r.exit != 0 {
				run.Violate(evid.Violation{Class: "run-with-old-sdk-plugin-failed:" + cls, What: fmt.Sprintf("thriftgo %v: exit %d\n%s", args, r.exit, tail(r.out)), Replay: rp})
				os.RemoveAll(dir)
				continue
			}
			raw, _ := os.ReadFile(rec + "/request.bin")
			if bytes.HasSuffix(raw, []byte(trailer)) {
				run.Violate(evid.Violation{Class: "trailer-sent-to-old-sdk-plugin", What: "a plugin built against thriftgo v0.3.15 was sent the data trailer", Replay: rp})
				os.RemoveAll(dir)
				continue
			}
			dec, _ := os.ReadFile(rec + "/decoded.bin")
			req, err := plugin.UnmarshalRequest(dec)
			if err != nil {
				run.Violate(evid.Violation{Class: "request-undecodable:old-sdk:" + cls, What: err.Error(), Replay: rp})
				os.RemoveAll(dir)
				continue
			}
			if pth, w := idlast.Diff(expAST[dp.name], req.AST, nil); pth != "" {
				run.Violate(evid.Violation{Class: "request-ast-differs:old-sdk:" + strings.ReplaceAll(pth, "[]", ""), What: fmt.Sprintf("%s compress_env=%v, plugin built against v0.3.15: the AST it decodes differs from the front end's at %s: %s", dp.name, compress, pth, w), Replay: rp})
				os.RemoveAll(dir)
				continue
			}
			count("B-request-old-sdk-ok")
			os.RemoveAll(dir)
		}
	}

	// ---- B2: responses and faults, on the interplay program with -r
	ip := dps[0]
	baseDir, baseOut, _ := newCase()
	if r := runCmd(3*time.Minute, baseEnv, baseDir, tg, "-g", "go", "-o", baseOut, "-r", ip.main); r.exit != 0 {
		run.Fatal("baseline run failed: %s", r.out)
	}
	baseline := readTree(baseOut)
	var goFiles []string
	for f := range baseline {
		if strings.HasSuffix(f, ".go") {
			goFiles = append(goFiles, f)
		}
	}
	sort.Strings(goFiles)
	if len(goFiles) < 2 {
		run.Fatal("baseline has %d go files", len(goFiles))
	}
	type respCase struct {
		name   string
		sc     func(out string) script
		limit  string                                                                // --plugin-time-limit value ("" = default)
		expect func(out string, r result, tree map[string]string, rec string) string // "" = as expected
	}
	fails := func(needles ...string) func(string, result, map[string]string, string) string {
		return func(out string, r result, tree map[string]string, rec string) string {
			switch {
			case r.hung:
				return "thriftgo did not terminate"
			case r.exit == 0:
				return "thriftgo exits 0"
			case crashed(r.out):
				return "thriftgo dies with a Go trace: " + tail(r.out)
			}
			for _, needle := range needles {
				if needle != "" && !strings.Contains(r.out, needle) {
					return fmt.Sprintf("the message %q is not shown: %s", needle, tail(r.out))
				}
			}
			return ""
		}
	}
	sameAs := func(want func(out string) map[string]string, needles ...string) func(string, result, map[string]string, string) string {
		return func(out string, r result, tree map[string]string, rec string) string {
			if r.hung || r.exit != 0 {
				return fmt.Sprintf("thriftgo fails (exit %d hung=%v): %s", r.exit, r.hung, tail(r.out))
			}
			w := want(out)
			for f, c := range w {
				g, ok := tree[f]
				if !ok {
					return "file " + f + " is not written"
				}
				if g != c {
					return fmt.Sprintf("file %s differs: want %q, got %q", f, clip(c), clip(g))
				}
			}
			for f := range tree {
				if _, ok := w[f]; !ok {
					return "unexpected file " + f
				}
			}
			for _, n := range needles {
				if !strings.Contains(r.out, n) {
					return fmt.Sprintf("%q is not shown: %s", n, tail(r.out))
				}
			}
			return ""
		}
	}
	withBase := func(extra map[string]string) func(string) map[string]string {
		return func(string) map[string]string {
			m := map[string]string{}
			for k, v := range baseline {
				m[k] = v
			}
			for k, v := range extra {
				m[k] = v
			}
			return m
		}
	}
	// patched: the target file, with the marker lines removed and re-formatted, equals the baseline
	patched := func(target string, markers []string, where string) func(string, result, map[string]string, string) string {
		return func(out string, r result, tree map[string]string, rec string) string {
			if r.hung || r.exit != 0 {
				return fmt.Sprintf("thriftgo fails (exit %d): %s", r.exit, tail(r.out))
			}
			for f, c := range baseline {
				if f != target && tree[f] != c {
					return "file " + f + " changed although only " + target + " was patched"
				}
			}
			got := tree[target]
			pos := -1
			for _, m := range markers {
				if strings.Count(got, m) != 1 {
					return fmt.Sprintf("patch %q occurs %d times in %s", m, strings.Count(got, m), target)
				}
				p := strings.Index(got, m)
				if p < pos {
					return "patches for one insertion point are not in the order the plugin gave them"
				}
				pos = p
				got = strings.Replace(got, m, "", 1)
			}
			a, err1 := format.Source([]byte(got))
			b, err2 := format.Source([]byte(baseline[target]))
			if err1 != nil || err2 != nil {
				return fmt.Sprintf("patched file does not parse: %v %v", err1, err2)
			}
			if strings.Join(strings.Fields(string(a)), " ") != strings.Join(strings.Fields(string(b)), " ") {
				return "the file differs from the unpatched file by more than the patch"
			}
			t := strings.TrimSpace(tree[target])
			switch where {
			case "eof":
				if !strings.HasSuffix(t, strings.TrimSpace(markers[len(markers)-1])) {
					return "the eof patch is not at the end of the file"
				}
			case "bof":
				if i, j := strings.Index(t, strings.TrimSpace(markers[0])), strings.Index(t, "\npackage "); i < 0 || j < 0 || i > j {
					return "the bof patch is not before the package clause"
				}
			}
			return ""
		}
	}
	abs := func(out, rel string) *string { return sp(filepath.Join(out, rel)) }
	ipt := "@@thriftgo_insertion_point(p1)"
	valid := script{Files: []pfile{{Name: sp("/nonexistent-dir-never-written/x.txt"), Content: "x"}}, Warnings: []string{"w"}, Truncate: -1}
	cases := []respCase{
		{name: "empty-response", sc: func(o string) script { return script{Truncate: -1} }, expect: sameAs(withBase(nil))},
		{name: "one-new-file", sc: func(o string) script {
			return script{Truncate: -1, Files: []pfile{{Name: abs(o, "extra/x.txt"), Content: "hello\nworld"}}}
		}, expect: sameAs(withBase(map[string]string{"extra/x.txt": "hello\nworld"}))},
		{name: "three-new-files", sc: func(o string) script {
			return script{Truncate: -1, Files: []pfile{{Name: abs(o, "a/b/c.txt"), Content: "1"}, {Name: abs(o, "d/d.go"), Content: "package d\n"}, {Name: abs(o, "e.txt"), Content: ""}}}
		}, expect: sameAs(withBase(map[string]string{"a/b/c.txt": "1", "d/d.go": "package d\n", "e.txt": ""}))},
		{name: "own-insertion-point-unnamed-patch", sc: func(o string) script {
			return script{Truncate: -1, Files: []pfile{{Name: abs(o, "y.txt"), Content: "A " + ipt + " B"}, {Point: sp("p1"), Content: "MID"}}}
		}, expect: sameAs(withBase(map[string]string{"y.txt": "A MID B"}))},
		{name: "two-patches-one-point", sc: func(o string) script {
			return script{Truncate: -1, Files: []pfile{{Name: abs(o, "y.txt"), Content: "A " + ipt + " B"}, {Point: sp("p1"), Content: "1"}, {Point: sp("p1"), Content: "2"}}}
		}, expect: sameAs(withBase(map[string]string{"y.txt": "A 12 B"}))},
		{name: "named-patch-later", sc: func(o string) script {
			return script{Truncate: -1, Files: []pfile{{Name: abs(o, "y.txt"), Content: "A " + ipt + " B"}, {Name: abs(o, "z.txt"), Content: "z"}, {Name: abs(o, "y.txt"), Point: sp("p1"), Content: "late"}}}
		}, expect: sameAs(withBase(map[string]string{"y.txt": "A late B", "z.txt": "z"}))},
		{name: "unused-insertion-point-removed", sc: func(o string) script {
			return script{Truncate: -1, Files: []pfile{{Name: abs(o, "y.txt"), Content: "A " + ipt + " B"}}}
		}, expect: sameAs(withBase(map[string]string{"y.txt": "A  B"}))},
		{name: "patch-unknown-point", sc: func(o string) script {
			return script{Truncate: -1, Files: []pfile{{Name: abs(o, goFiles[0]), Point: sp("no.such.point"), Content: "// NEVER\n"}}}
		}, expect: sameAs(withBase(nil))},
		{name: "patch-generated-eof", sc: func(o string) script {
			return script{Truncate: -1, Files: []pfile{{Name: abs(o, goFiles[0]), Point: sp("eof"), Content: "\n// MARK-EOF\n"}}}
		}, expect: patched(goFiles[0], []string{"// MARK-EOF\n"}, "eof")},
		{name: "patch-generated-bof", sc: func(o string) script {
			return script{Truncate: -1, Files: []pfile{{Name: abs(o, goFiles[1]), Point: sp("bof"), Content: "// MARK-BOF\n"}}}
		}, expect: patched(goFiles[1], []string{"// MARK-BOF\n"}, "bof")},
		{name: "patch-generated-imports-twice", sc: func(o string) script {
			return script{Truncate: -1, Files: []pfile{{Name: abs(o, goFiles[0]), Point: sp("imports"), Content: "\n// MARK-I1\n"}, {Point: sp("imports"), Content: "// MARK-I2\n"}}}
		}, expect: patched(goFiles[0], []string{"// MARK-I1\n", "// MARK-I2\n"}, "")},
		{name: "warnings", sc: func(o string) script {
			return script{Truncate: -1, Warnings: []string{"first-warning-text", "second-warning-text"}}
		}, expect: sameAs(withBase(nil), "first-warning-text", "second-warning-text")},
		{name: "stderr-on-success", sc: func(o string) script { return script{Truncate: -1, Stderr: "note-on-stderr\n"} }, expect: sameAs(withBase(nil), "note-on-stderr")},
		{name: "error", sc: func(o string) script { return script{Truncate: -1, Error: sp("boom-from-plugin")} }, expect: fails("boom-from-plugin")},
		{name: "error-with-files-and-warnings", sc: func(o string) script {
			return script{Truncate: -1, Error: sp("boom-from-plugin"), Warnings: []string{"warning-next-to-the-error"}, Stderr: "stderr-next-to-the-error\n", Files: []pfile{{Name: abs(o, "x.txt"), Content: "x"}}}
		}, expect: fails("boom-from-plugin", "warning-next-to-the-error", "stderr-next-to-the-error")},
		{name: "empty-error-string", sc: func(o string) script { return script{Truncate: -1, Error: sp("")} }, expect: nil},
		{name: "exit-1-valid-response", sc: func(o string) script { s := valid; s.Exit = 1; return s }, expect: fails("")},
		{name: "exit-3-no-output", sc: func(o string) script { return script{Truncate: -1, Raw: sp(""), Exit: 3} }, expect: fails("")},
		// what a failing plugin printed is shown (it is all the user gets to see)
		{name: "exit-3-with-stderr", sc: func(o string) script {
			return script{Truncate: -1, Raw: sp("stdout-of-the-failing-plugin"), Stderr: "stderr-of-the-failing-plugin\n", Exit: 3}
		}, expect: fails("stderr-of-the-failing-plugin", "stdout-of-the-failing-plugin")},
		{name: "exit-0-no-output", sc: func(o string) script { return script{Truncate: -1, Raw: sp("")} }, expect: fails("")},
		{name: "exit-0-text-output", sc: func(o string) script { return script{Truncate: -1, Raw: sp("plugin: generating...\ndone\n")} }, expect: fails("")},
		{name: "exit-0-log-line-before-response", sc: func(o string) script { s := valid; s.Prefix = "log line\n"; return s }, expect: fails("")},
		{name: "within-limit", limit: "1m", sc: func(o string) script { return script{Truncate: -1, SleepMs: 100} }, expect: sameAs(withBase(nil))},
		{name: "no-limit", limit: "0", sc: func(o string) script { return script{Truncate: -1, SleepMs: 300} }, expect: sameAs(withBase(nil))},
	}
	// every proper prefix of a valid response (quick: a stride; thorough: all)
	vbytes, _ := plugin.MarshalResponse(&plugin.Response{Warnings: []string{"w"}, Contents: []*plugin.Generated{{Name: sp("/nonexistent-dir-never-written/x.txt"), Content: "x"}}})
	stride := 5
	if thorough {
		stride = 1
	}
	for n := 1; n < len(vbytes); n += stride {
		n := n
		cases = append(cases, respCase{name: fmt.Sprintf("truncated-%d-of-%d", n, len(vbytes)), sc: func(o string) script { s := valid; s.Truncate = n; return s }, expect: fails("")})
	}
	// time limit: the plugin (and a plugin that is a wrapper around a child) sleeps far beyond the limit
	killed := func(wrapper bool) func(string, result, map[string]string, string) string {
		return func(out string, r result, tree map[string]string, rec string) string {
			if d := fails("")(out, r, tree, rec); d != "" {
				return d
			}
			if _, err := os.Stat(rec + "/survived"); err == nil {
				return "the plugin ran to completion"
			}
			for i := 0; i < 50; i++ {
				if alive, _ := pidAlive(rec + "/pid"); !alive {
					return ""
				}
				time.Sleep(100 * time.Millisecond)
			}
			return "the plugin process is still alive after thriftgo gave up"
		}
	}
	cases = append(cases,
		respCase{name: "beyond-limit", limit: "300ms", sc: func(o string) script { return script{Truncate: -1, SleepMs: 45000} }, expect: killed(false)},
		respCase{name: "beyond-limit-wrapper-plugin", limit: "300ms", sc: func(o string) script { return script{Truncate: -1, SleepMs: 45000, Wrapper: true} }, expect: killed(true)},
	)
	rwork := make(chan respCase)
	var childPids []string
	for w := 0; w < 12; w++ {
		wg.Add(1)
		go func() {
			defer wg.Done()
			for c := range rwork {
				dir, out, rec := newCase()
				sc := c.sc(out)
				b, _ := json.Marshal(sc)
				os.WriteFile(rec+"/script.json", b, 0o644)
				args := []string{"-g", "go", "-p", "vrec", "-o", out, "-r"}
				if c.limit != "" {
					args = append(args, "--plugin-time-limit", c.limit)
				}
				args = append(args, ip.main)
				env := append(append([]string{}, baseEnv...), "VREC_DIR="+filepath.Dir(rec))
				r := runCmd(100*time.Second, env, dir, tg, args...)
				run.Eval("B|response|"+c.name, true)
				rp := map[string]any{"case": c.name, "script": sc, "args": args, "program": "interplay"}
				if b, err := os.ReadFile(rec + "/childpid"); err == nil {
					mu.Lock()
					childPids = append(childPids, strings.TrimSpace(string(b)))
					mu.Unlock()
				}
				if c.expect == nil {
					// observation only: an error that is set but empty
					mu.Lock()
					run.Set("observation_empty_error_string", fmt.Sprintf("exit %d, files written %d", r.exit, len(readTree(out))))
					mu.Unlock()
					os.RemoveAll(dir)
					continue
				}
				tree := readTree(out)
				cn := c.name
				if strings.HasPrefix(cn, "truncated-") {
					cn = "truncated"
				}
				if d := c.expect(out, r, tree, rec); d != "" {
					run.Violate(evid.Violation{Class: "response:" + cn, What: fmt.Sprintf("plugin answer %q: %s", c.name, d), Replay: rp})
				} else {
					count("B-response-" + cn + "-ok")
				}
				os.RemoveAll(dir)
			}
		}()
	}
	for _, c := range cases {
		rwork <- c
	}
	close(rwork)
	wg.Wait()
	// do not leave sleeping children of the wrapper case behind
	for _, p := range childPids {
		if cl, _ := os.ReadFile("/proc/" + p + "/cmdline"); strings.Contains(string(cl), "thrift-gen-vrec") {
			exec.Command("kill", "-9", p).Run()
		}
	}
	os.RemoveAll(baseDir)

	run.Set("programs", len(dps))
	run.Set("request_cases", len(rcs))
	run.Set("response_and_fault_cases", len(cases))
	run.Set("response_shapes_in_process", len(respShapes))
	run.Set("outcome_classes", outcomes)
	run.Sample(map[string]any{"request_case": "thriftgo -g go:package_prefix=x/y,keep_unknown_fields -p vrec:k1=v1,k2,k3=v3 -o <out> -r diamond/top.thrift with THRIFTGO_PLUGIN_COMPRESS_INCLUDE=1", "expected_plugin_parameters": pack("k1=v1,k2,k3=v3")})
	run.Sample(map[string]any{"fault_case": "truncated-41-of-N: the plugin writes the first 41 bytes of a valid response and exits 0; thriftgo must fail"})
	run.Set("rule", "one evaluation = one (program or document, compression) round trip, one response shape with all its proper prefixes, one thriftgo run with the recording plugin under one (program, -r, generator options, plugin options, compression), or one played plugin answer / fault")
	run.Assume("the AST the compiler hands to a plugin is the front end's (ParseFile + CheckAll{FixWarnings} + ResolveSymbols) AST of the same files; a difference introduced by the Go back end before the plugin runs would be reported as a difference")
	if !thorough {
		run.Note("quick tier: truncated responses through the real process pair at a stride of 5 bytes (all prefixes in-process); the type-shapes program takes a diagonal of the option product")
	}
	run.Finish()
}

func tail(s string) string {
	s = strings.TrimSpace(s)
	if len(s) > 600 {
		s = "..." + s[len(s)-600:]
	}
	return s
}

func clip(s string) string {
	if len(s) > 120 {
		return s[:120] + "..."
	}
	return s
}
