// C02 — generated Read/Write implement the Thrift wire format of the IDL.
//
// Bounded-exhaustive generate-compile-run: the type-kernel program (one
// struct per field shape x requiredness, plus union / exception / args /
// result roots) is generated under the default configuration and under every
// presentation-only option; for every kernel and every value of its small
// total domain the real generated Write/Read run in a driver process and are
// compared with the reference binary codec (internal/refsem):
//
//	(1) Decode(schema, Write(obj(v))) == v, encoding well-formed
//	(2) dump(Read(Encode(schema, v))) == v on fields, getters, IsSet, struct tags
//	(3) perturbed encodings: unknown fields of every wire type at every position,
//	    every retagging of the field, deleted field, reordered fields
//	(4) union with 0 or 2 members set => Write error
//	(5) presentation-only options do not change a wire byte
//
// Not asserted: error texts; truncated input; byte order of map entries;
// IsSet of an optional-with-default field that holds exactly its default.
package main

import (
	"encoding/hex"
	"flag"
	"fmt"
	"os"
	"sort"
	"strings"
	"time"

	"verif/internal/evid"
	"verif/internal/gen"
	"verif/internal/idl"
	"verif/internal/refsem"
	"verif/internal/universe"
)

type root struct {
	name   string // IDL name passed to WriteStructBegin
	s      *idl.Struct
	kernel *universe.Kernel
}

type vec struct {
	r   *root
	v   *refsem.Val
	ref []byte // reference encoding of Complete(v)
}

func main() {
	flag.String("replay", "", "unused: replay files of this check are self-describing")
	run := evid.New("C02", "exploration")
	scratch := os.Getenv("VERIF_SCRATCH")
	if scratch == "" {
		d, _ := os.MkdirTemp("", "verif-c02-")
		defer os.RemoveAll(d)
		scratch = d
	}
	thorough := run.Thorough()
	tg, err := gen.BuildThriftgo(scratch)
	if err != nil {
		run.Fatal("%v", err)
	}

	// ---- universe
	env := universe.NewEnv("c02")
	types := env.Types1(thorough)
	if thorough {
		types = append(types, env.Types2()...)
	} else {
		types = append(types, env.Types2()[:6]...)
	}
	kernels := env.Kernels(types, []idl.Req{idl.ReqDefault, idl.ReqRequired, idl.ReqOptional})
	var roots []*root
	for _, k := range kernels {
		roots = append(roots, &root{name: k.S.Name, s: k.S, kernel: k})
	}
	// optional / default fields with declared defaults of every base type
	i32 := idl.T(idl.I32)
	defs := []struct {
		n string
		t *idl.Type
		v *idl.Value
	}{
		{"bool", idl.T(idl.Bool), idl.VB(true)}, {"byte", idl.T(idl.Byte), idl.VI(7)}, {"i16", idl.T(idl.I16), idl.VI(-3)}, {"i32", i32, idl.VI(100)}, {"i64", idl.T(idl.I64), idl.VI(1 << 40)},
		{"double", idl.T(idl.Double), idl.VD(2.5)}, {"string", idl.T(idl.String), idl.VS("dflt")}, {"binary", idl.T(idl.Binary), idl.VS("bin")}, {"enum", idl.EnumT(env.E), idl.VE(env.E, env.E.Values[1])},
		{"list", idl.ListOf(i32), idl.VL(idl.VI(1), idl.VI(2))}, {"map", idl.MapOf(idl.T(idl.String), i32), idl.VM([2]*idl.Value{idl.VS("k"), idl.VI(1)})},
	}
	for _, d := range defs {
		for _, rq := range []idl.Req{idl.ReqOptional, idl.ReqDefault} {
			s := &idl.Struct{Cat: "struct", Name: fmt.Sprintf("D_%s_%d", d.n, rq), Fields: []*idl.Field{
				{ID: 1, ExplicitID: true, Name: "f", Type: d.t, Req: rq, Default: d.v}, {ID: 2, ExplicitID: true, Name: "tail", Type: i32}}}
			env.Main.Add(s)
			roots = append(roots, &root{name: s.Name, s: s, kernel: &universe.Kernel{S: s, Shape: "default_" + d.n, T: d.t, Req: rq}})
		}
	}
	// a wider struct: implicit, negative and large ids, all requiredness together
	wide := &idl.Struct{Cat: "struct", Name: "Wide", Fields: []*idl.Field{
		{Name: "a", Type: i32}, {Name: "b", Type: idl.T(idl.String), Req: idl.ReqOptional}, {ID: -1, ExplicitID: true, Name: "neg", Type: i32, Req: idl.ReqOptional},
		{ID: 300, ExplicitID: true, Name: "big", Type: idl.T(idl.I64), Req: idl.ReqRequired}, {Name: "after", Type: idl.StructT(env.Inner), Req: idl.ReqOptional}}}
	env.Main.Add(wide)
	roots = append(roots, &root{name: "Wide", s: wide})
	roots = append(roots, &root{name: "U", s: env.U}, &root{name: "X", s: env.X}, &root{name: "Inner", s: env.Inner})
	// field ids in every spelling the grammar allows: the wire carries the decimal value
	spelled := &idl.Struct{Cat: "struct", Name: "SpelledIds", Fields: []*idl.Field{
		{ID: 10, ExplicitID: true, IDText: "010", Name: "ten", Type: i32}, {ID: 17, ExplicitID: true, IDText: "0017", Name: "seventeen", Type: idl.T(idl.String), Req: idl.ReqOptional},
		{ID: 8, ExplicitID: true, IDText: "08", Name: "eight", Type: i32, Req: idl.ReqRequired}, {Name: "nine", Type: i32}, {ID: 32, ExplicitID: true, IDText: "0x20", Name: "hex", Type: i32},
		{ID: 64, ExplicitID: true, IDText: "0o100", Name: "oct", Type: i32}, {ID: -10, ExplicitID: true, IDText: "-010", Name: "negten", Type: i32, Req: idl.ReqOptional}}}
	env.Main.Add(spelled)
	roots = append(roots, &root{name: "SpelledIds", s: spelled})
	// struct-typed fields of every requiredness whose pointer is nil or set
	nilst := &idl.Struct{Cat: "struct", Name: "NilStructs", Fields: []*idl.Field{
		{ID: 1, ExplicitID: true, Name: "d", Type: idl.StructT(env.Inner)}, {ID: 2, ExplicitID: true, Name: "r", Type: idl.StructT(env.Inner), Req: idl.ReqRequired},
		{ID: 3, ExplicitID: true, Name: "o", Type: idl.StructT(env.Inner), Req: idl.ReqOptional}, {ID: 4, ExplicitID: true, Name: "u", Type: idl.StructT(env.U)}, {ID: 5, ExplicitID: true, Name: "x", Type: idl.StructT(env.X), Req: idl.ReqRequired},
		{ID: 6, ExplicitID: true, Name: "tail", Type: i32}}}
	env.Main.Add(nilst)
	roots = append(roots, &root{name: "NilStructs", s: nilst})
	// recursive type through optional fields
	node := &idl.Struct{Cat: "struct", Name: "Node", Fields: []*idl.Field{{ID: 1, ExplicitID: true, Name: "v", Type: i32}}}
	node.Fields = append(node.Fields, &idl.Field{ID: 2, ExplicitID: true, Name: "next", Type: idl.StructT(node), Req: idl.ReqOptional}, &idl.Field{ID: 3, ExplicitID: true, Name: "kids", Type: idl.ListOf(idl.StructT(node)), Req: idl.ReqOptional})
	env.Main.Add(node)
	roots = append(roots, &root{name: "Node", s: node})
	// synthesized args / result
	svc := &idl.Service{Name: "KSvc"}
	for i, t := range []universe.Named{{"i32", i32}, {"string", idl.T(idl.String)}, {"struct", idl.StructT(env.Inner)}, {"list", idl.ListOf(idl.StructT(env.Inner))}, {"enum", idl.EnumT(env.E)}, {"map", idl.MapOf(idl.T(idl.String), idl.T(idl.I64))}, {"bool", idl.T(idl.Bool)}, {"binary", idl.T(idl.Binary)}, {"tdcont", idl.TypedefT(env.TdL)}} {
		fn := &idl.Function{Name: fmt.Sprintf("m%d%s", i, t.Name), Ret: t.T,
			Args:   []*idl.Field{{ID: 1, ExplicitID: true, Name: "a", Type: t.T}, {Name: "b", Type: i32}},
			Throws: []*idl.Field{{ID: 1, ExplicitID: true, Name: "x", Type: idl.StructT(env.X)}}}
		svc.Functions = append(svc.Functions, fn)
		args := &idl.Struct{Cat: "struct", Name: fn.Name + "_args", Fields: fn.Args}
		res := &idl.Struct{Cat: "struct", Name: fn.Name + "_result", Fields: []*idl.Field{{ID: 0, ExplicitID: true, Name: "success", Type: t.T, Req: idl.ReqOptional}, {ID: 1, ExplicitID: true, Name: "x", Type: idl.StructT(env.X), Req: idl.ReqOptional}}}
		roots = append(roots, &root{name: args.Name, s: args}, &root{name: res.Name, s: res})
	}
	// argument and throws lists that mix explicit and implicit ids with gaps (implicit = previous + 1)
	{
		x2 := &idl.Struct{Cat: "exception", Name: "X2", Fields: []*idl.Field{{ID: 1, ExplicitID: true, Name: "why", Type: idl.T(idl.String)}}}
		env.Main.Add(x2)
		fn := &idl.Function{Name: "gaps", Ret: i32,
			Args:   []*idl.Field{{ID: 1, ExplicitID: true, Name: "a", Type: i32}, {ID: 5, ExplicitID: true, Name: "b", Type: idl.T(idl.String)}, {Name: "c", Type: idl.StructT(env.Inner)}, {Name: "d", Type: idl.T(idl.Bool)}, {ID: -2, ExplicitID: true, Name: "e", Type: i32}, {Name: "f", Type: i32}},
			Throws: []*idl.Field{{ID: 3, ExplicitID: true, Name: "x1", Type: idl.StructT(env.X)}, {Name: "x2", Type: idl.StructT(x2)}}}
		svc.Functions = append(svc.Functions, fn)
		args := &idl.Struct{Cat: "struct", Name: fn.Name + "_args", Fields: fn.Args}
		res := &idl.Struct{Cat: "struct", Name: fn.Name + "_result", Fields: []*idl.Field{{ID: 0, ExplicitID: true, Name: "success", Type: i32, Req: idl.ReqOptional}, {ID: 3, ExplicitID: true, Name: "x1", Type: idl.StructT(env.X), Req: idl.ReqOptional}, {ID: 4, ExplicitID: true, Name: "x2", Type: idl.StructT(x2), Req: idl.ReqOptional}}}
		roots = append(roots, &root{name: args.Name, s: args}, &root{name: res.Name, s: res})
	}
	env.Main.Add(svc)
	prog := env.Program()

	// ---- configurations that keep the default serializers
	configs := [][]string{nil, {"naming_style=golint"}, {"value_type_in_container"}, {"enum_as_int_32"}, {"keep_unknown_fields"}, {"with_reflection", "with_field_mask"}, {"reorder_fields"}}
	if thorough {
		for _, o := range []string{"naming_style=apache", "gen_setter", "nil_safe", "json_stringer", "validate_set=false", "typed_enum_string", "compatible_names", "reserve_comments", "gen_deep_equal", "with_reflection",
			"no_fmt", "skip_empty", "frugal_tag", "gen_db_tag", "json_enum_as_text", "snake_style_json_tag", "omitempty_for_optional=false", "scan_value_for_enum=false", "unescape_double_quote=false", "ignore_initialisms", "gen_type_meta", "enum_marshal", "enum_unmarshal", "lower_camel_style_json_tag", "gen_json_tag=false", "get_enum_annotation", "field_mask_halfway,with_field_mask,with_reflection"} {
			configs = append(configs, strings.Split(o, ","))
		}
	}
	b, err := gen.NewBatch(scratch, tg)
	if err != nil {
		run.Fatal("%v", err)
	}
	var items []*gen.Item
	for i, c := range configs {
		items = append(items, b.Add(&gen.Item{Key: fmt.Sprintf("c%d", i), Prog: prog, Opts: c, Recurse: true}))
	}
	t0 := time.Now()
	b.Generate()
	b.Discover()
	for i, it := range items {
		if it.Exit != 0 {
			if i == 0 {
				run.Fatal("thriftgo rejected the kernel program under the default configuration:\n%s", it.Stderr)
			}
			run.NotExhaustive(fmt.Sprintf("configuration %v rejected by thriftgo (exit %d): %s", configs[i], it.Exit, firstLine(it.Stderr)))
		}
	}
	if err := b.WriteDriver(); err != nil {
		run.Fatal("%v", err)
	}
	bin, br := b.BuildDriver()
	for tries := 0; !br.OK && tries < 3; tries++ {
		// generated code that does not compile is C01's finding; here it only costs coverage
		if len(br.PerItem) == 0 {
			run.Fatal("driver does not build:\n%s", tail(br.Output, 3000))
		}
		for k, msgs := range br.PerItem {
			for _, it := range items {
				if it.Key == k && it.BuildErr == "" {
					it.BuildErr = strings.Join(msgs, "\n")
					run.NotExhaustive(fmt.Sprintf("generated code of configuration %v does not compile (see C01): %s", it.Opts, firstLine(it.BuildErr)))
				}
			}
		}
		if items[0].BuildErr != "" {
			run.Fatal("generated code of the default configuration does not compile:\n%s", tail(br.Output, 3000))
		}
		_ = b.WriteDriver()
		bin, br = b.BuildDriver()
	}
	if !br.OK {
		run.Fatal("driver does not build:\n%s", tail(br.Output, 3000))
	}
	run.Set("generate_and_build_s", time.Since(t0).Seconds())
	drv, err := gen.StartDriver(bin)
	if err != nil {
		run.Fatal("%v", err)
	}
	defer drv.Close()

	// ---- vectors
	var vecs []*vec
	for _, r := range roots {
		if _, ok := items[0].Types[r.name]; !ok {
			run.Violate(evid.Violation{Class: "generated-type-missing", What: "no generated type writes struct " + r.name, Replay: map[string]any{"struct": r.name}})
			continue
		}
		for _, v := range refsem.StructDomain(r.s, 2, true) {
			c := refsem.Complete(r.s, v)
			vecs = append(vecs, &vec{r: r, v: v, ref: refsem.EncodeStruct(nil, r.s.Fields, c)})
		}
	}
	run.Set("roots", len(roots))
	run.Set("value_vectors", len(vecs))
	run.Set("configurations", len(configs))

	c := &checker{run: run, drv: drv, outcomes: map[string]int64{}}
	// (1)+(5) write under every configuration
	baseBytes := make([][]byte, len(vecs))
	for ci, it := range items {
		if it.Exit != 0 || it.BuildErr != "" {
			continue
		}
		var reqs []*gen.Req
		for _, v := range vecs {
			reqs = append(reqs, &gen.Req{Type: gen.RegKey(it, v.r.name), Op: "write", Val: v.v})
		}
		resps := c.do(reqs)
		for i, rs := range resps {
			v := vecs[i]
			key := fmt.Sprintf("write|%d|%s|%s", ci, v.r.name, v.v.Key(false))
			run.Eval(key, len(v.ref) > 1)
			if !c.ok(rs, "write", v, configs[ci]) {
				continue
			}
			got, _ := hex.DecodeString(rs.Bytes)
			c.checkWritten(v, got, configs[ci])
			if ci == 0 {
				baseBytes[i] = got
			} else if baseBytes[i] != nil && string(got) != string(baseBytes[i]) {
				// allowed to differ only in map entry order: decoded values must agree
				d1, _, e1 := refsem.DecodeStruct(v.r.s.Fields, baseBytes[i])
				d2, _, e2 := refsem.DecodeStruct(v.r.s.Fields, got)
				if e1 != nil || e2 != nil || refsem.SameStruct(v.r.s, d1, d2) != "" || len(got) != len(baseBytes[i]) {
					c.viol("option-changes-wire:"+strings.Join(configs[ci], ","), fmt.Sprintf("%s: option %v changes the bytes written for %v: %x vs %x", v.r.name, configs[ci], v.v, got, baseBytes[i]), v, configs[ci], nil)
				}
			}
		}
	}
	// (1b) a nil pointer in a required / default struct-typed field is written as an empty struct
	for ci, it := range items {
		if it.Exit != 0 || it.BuildErr != "" || (ci > 0 && !thorough) {
			continue
		}
		var reqs []*gen.Req
		type nv struct {
			r     *root
			id    int32
			fn    string
			v     *refsem.Val
			union bool
		}
		var nvs []nv
		for _, r := range roots {
			if r.s.Cat == "union" {
				continue
			}
			if _, ok := it.Types[r.name]; !ok {
				continue
			}
			dom := refsem.StructDomain(r.s, 1, false)
			if len(dom) == 0 {
				continue
			}
			ids := refsem.FieldIDs(r.s.Fields)
			for i, f := range r.s.Fields {
				if f.Req == idl.ReqOptional || f.Type.Final().Kind != idl.StructK {
					continue
				}
				v := dom[0].Clone()
				v.Set(ids[i], refsem.Nil())
				nvs = append(nvs, nv{r, ids[i], f.Name, v, f.Type.Final().Struct.Cat == "union"})
				reqs = append(reqs, &gen.Req{Type: gen.RegKey(it, r.name), Op: "write", Val: v})
			}
		}
		resps := c.do(reqs)
		for i, rs := range resps {
			x := nvs[i]
			run.Eval(fmt.Sprintf("write-nil-struct|%d|%s|%s", ci, x.r.name, x.fn), true)
			vv := &vec{r: x.r, v: x.v}
			if x.union {
				// a nil union has no member set: Write must refuse it (an error, not a panic, not bytes)
				switch {
				case rs.Panic != "":
					c.viol("write-panic:nil-union-field", fmt.Sprintf("%s: Write panics on a nil union in field %d (%s): %s", x.r.name, x.id, x.fn, rs.Panic), vv, configs[ci], nil)
				case rs.Err == "":
					c.viol("union-not-exactly-one-accepted:nil-union-field", fmt.Sprintf("%s: Write accepts a nil union in the non-optional field %d (%s): %s", x.r.name, x.id, x.fn, rs.Bytes), vv, configs[ci], nil)
				default:
					c.outcomes["write-nil-union-refused"]++
				}
				continue
			}
			if !c.ok(rs, "write", vv, configs[ci]) {
				continue
			}
			got, _ := hex.DecodeString(rs.Bytes)
			dec, _, err := refsem.DecodeStruct(x.r.s.Fields, got)
			if err != nil {
				c.viol("write-undecodable:nil-struct-field", fmt.Sprintf("%s: %v (%x)", x.r.name, err, got), vv, configs[ci], nil)
				continue
			}
			if dec.Get(x.id) == nil {
				c.viol("write-omits-non-optional-field:nil-struct", fmt.Sprintf("%s: field %d (%s) holds a nil pointer and is not optional: it is absent from the bytes written (%x)", x.r.name, x.id, x.fn, got), vv, configs[ci], map[string]any{"written": hex.EncodeToString(got)})
				continue
			}
			c.outcomes["write-nil-struct-ok"]++
		}
	}
	// (2) read under every configuration
	for ci, it := range items {
		if it.Exit != 0 || it.BuildErr != "" {
			continue
		}
		var reqs []*gen.Req
		for _, v := range vecs {
			reqs = append(reqs, &gen.Req{Type: gen.RegKey(it, v.r.name), Op: "read", Bytes: hex.EncodeToString(v.ref)})
		}
		resps := c.do(reqs)
		for i, rs := range resps {
			v := vecs[i]
			run.Eval(fmt.Sprintf("read|%d|%s|%s", ci, v.r.name, v.v.Key(false)), len(v.ref) > 1)
			if !c.ok(rs, "read", v, configs[ci]) {
				continue
			}
			c.checkRead(v, rs, configs[ci], v.v, "read")
		}
	}
	// (3) perturbations, default configuration
	c.perturb(items[0], vecs, thorough)
	// (4) unions
	c.unions(items[0], env)

	run.Set("outcome_classes", c.outcomes)
	if len(vecs) > 0 {
		v := vecs[len(vecs)/2]
		run.Sample(map[string]any{"struct": v.r.name, "value": v.v.String(), "reference_encoding": hex.EncodeToString(v.ref)})
		v = vecs[len(vecs)/7]
		run.Sample(map[string]any{"struct": v.r.name, "value": v.v.String(), "reference_encoding": hex.EncodeToString(v.ref)})
	}
	run.Set("rule", "one evaluation = one (configuration, struct, value, operation[, perturbation]) executed on the generated code and compared with the reference codec; non-trivial iff the encoding has >= 1 field")
	run.Assume("the driver builds and dumps objects by reflection over thrift struct tags; the binary protocol implementation is apache/thrift v0.13.0 (pinned runtime)")
	run.Assume("an optional field that is unset equals one holding its declared default (the generated representation cannot distinguish them)")
	run.Finish()
}

type checker struct {
	run      *evid.Run
	drv      *gen.Driver
	outcomes map[string]int64
}

func (c *checker) do(reqs []*gen.Req) []*gen.Resp {
	var out []*gen.Resp
	for i := 0; i < len(reqs); i += 4000 {
		j := i + 4000
		if j > len(reqs) {
			j = len(reqs)
		}
		r, err := c.drv.Do(reqs[i:j])
		if err != nil {
			c.run.Fatal("driver: %v", err)
		}
		out = append(out, r...)
	}
	return out
}

func shapeOf(v *vec) string {
	if v.r.kernel != nil {
		return v.r.kernel.Shape + "/" + map[idl.Req]string{idl.ReqDefault: "def", idl.ReqRequired: "req", idl.ReqOptional: "opt"}[v.r.kernel.Req]
	}
	return v.r.name
}

func (c *checker) viol(class, what string, v *vec, cfg []string, extra map[string]any) {
	rp := map[string]any{"struct": v.r.name, "value": v.v, "config": cfg, "reference_encoding": hex.EncodeToString(v.ref)}
	for k, x := range extra {
		rp[k] = x
	}
	c.run.Violate(evid.Violation{Class: class, What: what, Replay: rp})
}

func (c *checker) ok(rs *gen.Resp, op string, v *vec, cfg []string) bool {
	if rs.Panic != "" {
		c.viol(op+"-panic:"+shapeOf(v), fmt.Sprintf("%s of %s panicked: %s", op, v.r.name, rs.Panic), v, cfg, nil)
		return false
	}
	if strings.HasPrefix(rs.Err, "harness:") {
		c.run.Fatal("driver: %s (%s %s)", rs.Err, op, v.r.name)
	}
	if rs.Err != "" {
		c.viol(op+"-error:"+shapeOf(v), fmt.Sprintf("%s of %s value %v failed: %s", op, v.r.name, v.v, rs.Err), v, cfg, nil)
		return false
	}
	return true
}

func (c *checker) checkWritten(v *vec, got []byte, cfg []string) {
	if err := refsem.WellFormed(got); err != nil {
		c.viol("write-malformed:"+shapeOf(v), fmt.Sprintf("%s: bytes written are not a well-formed struct: %v (%x)", v.r.name, err, got), v, cfg, map[string]any{"written": hex.EncodeToString(got)})
		return
	}
	dec, unk, err := refsem.DecodeStruct(v.r.s.Fields, got)
	if err != nil {
		c.viol("write-undecodable:"+shapeOf(v), fmt.Sprintf("%s: reference codec cannot decode the bytes written: %v (%x)", v.r.name, err, got), v, cfg, map[string]any{"written": hex.EncodeToString(got)})
		return
	}
	if len(unk) > 0 {
		c.viol("write-wrong-id-or-type:"+shapeOf(v), fmt.Sprintf("%s: written field id %d has wire type %d, unknown to the schema", v.r.name, unk[0].ID, unk[0].Type), v, cfg, map[string]any{"written": hex.EncodeToString(got)})
		return
	}
	want := refsem.Complete(v.r.s, v.v)
	if d := refsem.SameStruct(v.r.s, want, dec); d != "" {
		c.viol("write-wrong-value:"+shapeOf(v), fmt.Sprintf("%s: written bytes decode to a different value: %s (want/got)", v.r.name, d), v, cfg, map[string]any{"written": hex.EncodeToString(got)})
		return
	}
	// required / default fields are always present on the wire
	if v.r.s.Cat != "union" {
		ids := refsem.FieldIDs(v.r.s.Fields)
		for i, f := range v.r.s.Fields {
			if f.Req != idl.ReqOptional && dec.Get(ids[i]) == nil {
				c.viol("write-omits-non-optional-field:"+shapeOf(v), fmt.Sprintf("%s: field %d (%s, not optional) is absent from the bytes written", v.r.name, ids[i], f.Name), v, cfg, map[string]any{"written": hex.EncodeToString(got)})
				return
			}
		}
	}
	c.outcomes["write-ok"]++
}

func (c *checker) checkRead(v *vec, rs *gen.Resp, cfg []string, expect *refsem.Val, op string) {
	want := refsem.Complete(v.r.s, expect)
	if d := refsem.SameStruct(v.r.s, want, rs.Val); d != "" {
		c.viol(op+"-wrong-value:"+shapeOf(v), fmt.Sprintf("%s: object after Read differs: %s (want/got)", v.r.name, d), v, cfg, nil)
		return
	}
	ids := refsem.FieldIDs(v.r.s.Fields)
	for i, f := range v.r.s.Fields {
		id := fmt.Sprint(ids[i])
		// struct tag
		if tag, ok := rs.Tags[id]; ok {
			p := strings.Split(tag, ",")
			req := "default"
			if len(p) > 2 && (p[2] == "required" || p[2] == "optional" || p[2] == "default") {
				req = p[2]
			}
			wreq := map[idl.Req]string{idl.ReqDefault: "default", idl.ReqRequired: "required", idl.ReqOptional: "optional"}[f.Req]
			if v.r.s.Cat == "union" {
				wreq = req // unions: members are optional whatever is written
			}
			if p[0] != f.Name || req != wreq {
				c.viol("struct-tag:"+shapeOf(v), fmt.Sprintf("%s.%s: struct tag %q does not state name %q / requiredness %s", v.r.name, f.Name, tag, f.Name, wreq), v, cfg, nil)
				return
			}
		} else {
			c.viol("struct-tag-missing:"+shapeOf(v), fmt.Sprintf("%s: no Go field carries thrift id %s", v.r.name, id), v, cfg, nil)
			return
		}
		// getter
		if g, ok := rs.Getters[id]; ok {
			ev := want.Get(ids[i])
			if ev != nil && ev.T == "n" && (f.Req == idl.ReqOptional || v.r.s.Cat == "union") {
				ev = nil // an optional field holding nil is unset: the getter answers with the default
			}
			if ev == nil {
				ev = refsem.FieldDefault(f)
			}
			if ev == nil {
				ev = refsem.Zero(f.Type)
			}
			if g.T == "n" && ev.T != "n" && !ev.IsNilish() {
				c.viol("getter:"+shapeOf(v), fmt.Sprintf("%s.Get<%s>() returned nil, want %v", v.r.name, f.Name, ev), v, cfg, nil)
				return
			}
			if !(g.T == "n" && ev.IsNilish()) {
				if d := refsem.Same(f.Type, ev, g); d != "" {
					c.viol("getter:"+shapeOf(v), fmt.Sprintf("%s.Get<%s>(): %s (want/got)", v.r.name, f.Name, d), v, cfg, nil)
					return
				}
			}
		}
		// IsSet for optional fields (not asserted when the value equals a declared default)
		if is, ok := rs.IsSet[id]; ok && (f.Req == idl.ReqOptional || v.r.s.Cat == "union") {
			ev := want.Get(ids[i])
			d := refsem.FieldDefault(f)
			if ev != nil && ev.T == "n" {
				ev = nil
			}
			if d == nil || (ev != nil && refsem.Same(f.Type, ev, d) != "") {
				if is != (ev != nil) {
					c.viol("isset:"+shapeOf(v), fmt.Sprintf("%s.IsSet<%s>() = %v but the field value is %v", v.r.name, f.Name, is, ev), v, cfg, nil)
					return
				}
			}
		}
	}
	c.outcomes[op+"-ok"]++
}

// sampleBodies: a valid body for every wire type.
func sampleBodies() map[byte][]byte {
	return map[byte][]byte{
		refsem.TBool: {1}, refsem.TByte: {0x7f}, refsem.TDouble: {0x3f, 0xf8, 0, 0, 0, 0, 0, 0}, refsem.TI16: {0, 9}, refsem.TI32: {0, 0, 0, 9}, refsem.TI64: {0, 0, 0, 0, 0, 0, 0, 9},
		refsem.TString: {0, 0, 0, 2, 'h', 'i'},
		refsem.TStruct: {refsem.TI32, 0, 1, 0, 0, 0, 5, refsem.TStruct, 0, 2, refsem.TString, 0, 1, 0, 0, 0, 1, 'z', 0, 0},
		refsem.TMap:    {refsem.TI32, refsem.TString, 0, 0, 0, 1, 0, 0, 0, 1, 0, 0, 0, 1, 'v'},
		refsem.TSet:    {refsem.TI64, 0, 0, 0, 1, 0, 0, 0, 0, 0, 0, 0, 3},
		refsem.TList:   {refsem.TStruct, 0, 0, 0, 2, 0, refsem.TBool, 0, 1, 1, 0},
	}
}

func field(w byte, id int16, body []byte) []byte {
	return append([]byte{w, byte(uint16(id) >> 8), byte(id)}, body...)
}

// splitFields cuts a struct encoding into its top-level fields (without STOP).
func splitFields(b []byte) [][]byte {
	var out [][]byte
	offs := topOffsets(b)
	for i := 0; i+1 < len(offs); i++ {
		out = append(out, b[offs[i]:offs[i+1]])
	}
	return out
}

func topOffsets(b []byte) []int {
	// walk top-level fields using WellFormed on growing prefixes is quadratic; decode sizes directly
	var offs []int
	pos := 0
	for pos < len(b) && b[pos] != refsem.TStop {
		offs = append(offs, pos)
		w := b[pos]
		n := bodyLen(b[pos+3:], w)
		if n < 0 {
			return nil
		}
		pos += 3 + n
	}
	return append(offs, pos)
}

func bodyLen(b []byte, w byte) int {
	be32 := func(x []byte) int { return int(uint32(x[0])<<24 | uint32(x[1])<<16 | uint32(x[2])<<8 | uint32(x[3])) }
	switch w {
	case refsem.TBool, refsem.TByte:
		return 1
	case refsem.TI16:
		return 2
	case refsem.TI32:
		return 4
	case refsem.TI64, refsem.TDouble:
		return 8
	case refsem.TString:
		return 4 + be32(b)
	case refsem.TStruct:
		pos := 0
		for b[pos] != refsem.TStop {
			n := bodyLen(b[pos+3:], b[pos])
			pos += 3 + n
		}
		return pos + 1
	case refsem.TList, refsem.TSet:
		n := be32(b[1:])
		pos := 5
		for i := 0; i < n; i++ {
			pos += bodyLen(b[pos:], b[0])
		}
		return pos
	case refsem.TMap:
		n := be32(b[2:])
		pos := 6
		for i := 0; i < n; i++ {
			pos += bodyLen(b[pos:], b[0])
			pos += bodyLen(b[pos:], b[1])
		}
		return pos
	}
	return -1
}

func join(fs [][]byte) []byte {
	var out []byte
	for _, f := range fs {
		out = append(out, f...)
	}
	return append(out, refsem.TStop)
}

func (c *checker) perturb(it *gen.Item, vecs []*vec, thorough bool) {
	bodies := sampleBodies()
	var wts []int
	for w := range bodies {
		wts = append(wts, int(w))
	}
	sort.Ints(wts)
	type pert struct {
		v       *vec
		kind    string
		bytes   []byte
		expect  *refsem.Val // expected object, nil => Read must fail
		mustErr bool
	}
	var ps []pert
	for vi, v := range vecs {
		if v.r.kernel == nil && v.r.name != "Wide" {
			continue
		}
		// one value per kernel for the heavy perturbations (the first with field 1 present), all values thorough
		if !thorough && vi > 0 && vecs[vi-1].r == v.r && vecs[vi-1].v.Get(1) != nil {
			continue
		}
		fs := splitFields(v.ref)
		if fs == nil {
			continue
		}
		full := refsem.Complete(v.r.s, v.v)
		// unknown field of every wire type at every position
		for _, w := range wts {
			for pos := 0; pos <= len(fs); pos++ {
				nf := append(append(append([][]byte{}, fs[:pos]...), field(byte(w), 77, bodies[byte(w)])), fs[pos:]...)
				ps = append(ps, pert{v: v, kind: fmt.Sprintf("unknown-field:wire%d", w), bytes: join(nf), expect: full})
			}
		}
		if v.r.kernel == nil {
			continue
		}
		// retag field 1 with every other wire type; delete it; reorder
		for i, f := range fs {
			if !(f[1] == 0 && f[2] == 1) {
				continue
			}
			without := full.Clone()
			delete(without.O, "1")
			mustErr := v.r.kernel.Req == idl.ReqRequired
			if v.r.kernel.Req == idl.ReqDefault {
				// a default-requiredness field that is absent keeps its declared default / zero
				without = refsem.Complete(v.r.s, without)
			}
			for _, w := range wts {
				if byte(w) == f[0] {
					continue
				}
				nf := append([][]byte{}, fs...)
				nf[i] = field(byte(w), 1, bodies[byte(w)])
				ps = append(ps, pert{v: v, kind: fmt.Sprintf("retag:wire%d", w), bytes: join(nf), expect: without, mustErr: mustErr})
			}
			nf := append(append([][]byte{}, fs[:i]...), fs[i+1:]...)
			ps = append(ps, pert{v: v, kind: "delete-field", bytes: join(nf), expect: without, mustErr: mustErr})
		}
		if len(fs) == 2 {
			ps = append(ps, pert{v: v, kind: "reorder", bytes: join([][]byte{fs[1], fs[0]}), expect: full})
		}
	}
	var reqs []*gen.Req
	for _, p := range ps {
		reqs = append(reqs, &gen.Req{Type: gen.RegKey(it, p.v.r.name), Op: "read", Bytes: hex.EncodeToString(p.bytes)})
	}
	resps := c.do(reqs)
	for i, rs := range resps {
		p := ps[i]
		c.run.Eval(fmt.Sprintf("pert|%s|%s|%s|%x", p.kind, p.v.r.name, p.v.v.Key(false), p.bytes), true)
		extra := map[string]any{"perturbation": p.kind, "perturbed_encoding": hex.EncodeToString(p.bytes)}
		if rs.Panic != "" {
			c.viol("read-panic:"+p.kind+":"+shapeOf(p.v), fmt.Sprintf("Read of %s (%s) panicked: %s", p.v.r.name, p.kind, rs.Panic), p.v, nil, extra)
			continue
		}
		if p.mustErr {
			if rs.Err == "" {
				c.viol("required-missing-accepted:"+strings.SplitN(p.kind, ":", 2)[0], fmt.Sprintf("%s: Read succeeded although the required field is absent (%s)", p.v.r.name, p.kind), p.v, nil, extra)
			} else {
				c.outcomes["required-missing-rejected"]++
			}
			continue
		}
		if rs.Err != "" {
			c.viol("tolerant-read-failed:"+p.kind+":"+shapeOf(p.v), fmt.Sprintf("%s: Read failed on %s: %s", p.v.r.name, p.kind, rs.Err), p.v, nil, extra)
			continue
		}
		want := p.expect
		if d := refsem.SameStruct(p.v.r.s, want, rs.Val); d != "" {
			c.viol("perturbed-read-wrong-value:"+strings.SplitN(p.kind, ":", 2)[0]+":"+shapeOf(p.v), fmt.Sprintf("%s after %s: %s (want/got)", p.v.r.name, p.kind, d), p.v, nil, extra)
			continue
		}
		c.outcomes["perturbed-read-ok"]++
	}
	c.run.Set("perturbations", len(ps))
}

func (c *checker) unions(it *gen.Item, env *universe.Env) {
	u := env.U
	cases := []struct {
		n   string
		v   *refsem.Val
		err bool
	}{
		{"none", refsem.Obj(), true},
		{"one-n", refsem.Obj().Set(1, refsem.Int(5)), false},
		{"one-s", refsem.Obj().Set(2, refsem.Str("x")), false},
		{"two", refsem.Obj().Set(1, refsem.Int(5)).Set(2, refsem.Str("x")), true},
	}
	var reqs []*gen.Req
	for _, cs := range cases {
		reqs = append(reqs, &gen.Req{Type: gen.RegKey(it, "U"), Op: "write", Val: cs.v})
	}
	resps := c.do(reqs)
	for i, rs := range resps {
		cs := cases[i]
		c.run.Eval("union|"+cs.n, true)
		v := &vec{r: &root{name: "U", s: u}, v: cs.v}
		if rs.Panic != "" {
			c.viol("union-write-panic", "Write of union panicked: "+rs.Panic, v, nil, nil)
			continue
		}
		if cs.err && rs.Err == "" {
			c.viol("union-not-exactly-one-accepted:"+cs.n, fmt.Sprintf("Write accepted a union with %s member(s) set (bytes %s)", cs.n, rs.Bytes), v, nil, nil)
		} else if !cs.err && rs.Err != "" {
			c.viol("union-write-error", "Write of a union with exactly one member failed: "+rs.Err, v, nil, nil)
		} else {
			c.outcomes["union-ok"]++
		}
	}
}

func firstLine(s string) string {
	s = strings.TrimSpace(s)
	if i := strings.IndexByte(s, '\n'); i >= 0 {
		return s[:i]
	}
	return s
}

func tail(s string, n int) string {
	if len(s) > n {
		return s[len(s)-n:]
	}
	return s
}
