// C18 — generated DeepEqual is structural equality.
//
// Generate-compile-run with gen_deep_equal: for every single-field kernel
// (every field shape x requiredness) and a few multi-field / nested structs,
// ALL ORDERED PAIRS of the struct's value domain are compared by the real
// generated DeepEqual and by the reference equality written from the property
// text; symmetry, reflexivity on copies, nil receivers and arguments; the
// set-uniqueness check of Write for every list of <= 3 elements of the
// element domain.
//
// Reference equality: equal contents for every field; lists and sets
// element-wise, maps key-wise, nested structs recursively; an unset optional
// scalar or struct differs from every set one; nil and empty containers are equal.
// Not asserted: NaN; -0.0 vs 0.0; an unset optional binary vs a set empty one.
package main

import (
	"flag"
	"fmt"
	"strings"

	"verif/internal/evid"
	"verif/internal/gen"
	"verif/internal/idl"
	"verif/internal/refsem"
	"verif/internal/universe"
)

// refEq: reference equality of two values of type t.
func refEq(t *idl.Type, a, b *refsem.Val) bool {
	t = t.Final()
	switch t.Kind {
	case idl.List, idl.Set:
		if a.IsNilish() || b.IsNilish() {
			return a.IsNilish() && b.IsNilish()
		}
		if len(a.L) != len(b.L) {
			return false
		}
		for i := range a.L {
			if !refEq(t.Elem, a.L[i], b.L[i]) {
				return false
			}
		}
		return true
	case idl.Map:
		if a.IsNilish() || b.IsNilish() {
			return a.IsNilish() && b.IsNilish()
		}
		if len(a.M) != len(b.M) {
			return false
		}
		for _, kv := range a.M {
			found := false
			for _, kw := range b.M {
				if refEq(t.Key, kv[0], kw[0]) {
					found = refEq(t.Elem, kv[1], kw[1])
					break
				}
			}
			if !found {
				return false
			}
		}
		return true
	case idl.StructK:
		an, bn := a == nil || a.T == "n", b == nil || b.T == "n"
		if an || bn {
			return an && bn
		}
		return refEqStruct(t.Struct, a, b)
	case idl.Binary, idl.String:
		return string(a.Bytes()) == string(b.Bytes())
	case idl.Double:
		return a.Float() == b.Float()
	}
	return a.Key(true) == b.Key(true)
}

func isContainer(t *idl.Type) bool {
	k := t.Final().Kind
	return k == idl.List || k == idl.Set || k == idl.Map
}

func refEqStruct(s *idl.Struct, a, b *refsem.Val) bool {
	ids := refsem.FieldIDs(s.Fields)
	for i, f := range s.Fields {
		x, y := a.Get(ids[i]), b.Get(ids[i])
		if isContainer(f.Type) {
			if x == nil {
				x = refsem.Nil()
			}
			if y == nil {
				y = refsem.Nil()
			}
			if !refEq(f.Type, x, y) {
				return false
			}
			continue
		}
		// a field with a declared default that was not given holds the default: the Go object
		// cannot tell "unset" from "set to the default" (IsSet compares with the default)
		if d := refsem.FieldDefault(f); d != nil && s.Cat != "union" {
			if x == nil || x.T == "n" {
				x = d
			}
			if y == nil || y.T == "n" {
				y = d
			}
		}
		xs, ys := x != nil && x.T != "n", y != nil && y.T != "n"
		if f.Req != idl.ReqOptional && s.Cat != "union" {
			// default/required scalar fields always hold a value (zero when not given)
			if !xs {
				x, xs = refsem.Zero(f.Type), refsem.Zero(f.Type).T != "n"
			}
			if !ys {
				y, ys = refsem.Zero(f.Type), refsem.Zero(f.Type).T != "n"
			}
		}
		if xs != ys {
			return false
		}
		if xs && !refEq(f.Type, x, y) {
			return false
		}
	}
	return true
}

// judged: pairs the property leaves open are skipped.
func judged(s *idl.Struct, a, b *refsem.Val) bool {
	ids := refsem.FieldIDs(s.Fields)
	for i, f := range s.Fields {
		if f.Type.Final().Kind == idl.Binary && f.Req == idl.ReqOptional {
			x, y := a.Get(ids[i]), b.Get(ids[i])
			xe := x != nil && x.T == "s" && len(x.Bytes()) == 0
			ye := y != nil && y.T == "s" && len(y.Bytes()) == 0
			xu := x == nil || x.T == "n"
			yu := y == nil || y.T == "n"
			if (xe && yu) || (ye && xu) {
				return false
			}
		}
	}
	return true
}

func hasBadDouble(v *refsem.Val) bool {
	if v == nil {
		return false
	}
	if v.T == "d" {
		f := v.Float()
		return f != f || (f == 0 && v.D != "0")
	}
	for _, e := range v.L {
		if hasBadDouble(e) {
			return true
		}
	}
	for _, kv := range v.M {
		if hasBadDouble(kv[0]) || hasBadDouble(kv[1]) {
			return true
		}
	}
	for _, f := range v.O {
		if hasBadDouble(f) {
			return true
		}
	}
	return false
}

type root struct {
	s       *idl.Struct
	shape   string
	vals    []*refsem.Val
	nanVals []*refsem.Val
}

func main() {
	flag.String("replay", "", "unused")
	run := evid.New("C18", "exploration")
	thorough := run.Thorough()
	ses := gen.NewSession(run, "c18")
	defer ses.Close()

	env := universe.NewEnv("c18")
	types := env.Types1(thorough)
	if thorough {
		types = append(types, env.Types2()...)
	} else {
		types = append(types, env.Types2()[:6]...)
	}
	var roots []*root
	reqNames := map[idl.Req]string{idl.ReqDefault: "def", idl.ReqRequired: "req", idl.ReqOptional: "opt"}
	for _, t := range types {
		for _, r := range []idl.Req{idl.ReqDefault, idl.ReqOptional} {
			s := &idl.Struct{Cat: "struct", Name: fmt.Sprintf("Q_%s_%s", t.Name, reqNames[r]), Fields: []*idl.Field{{ID: 1, ExplicitID: true, Name: "f", Type: t.T, Req: r}}}
			env.Main.Add(s)
			roots = append(roots, &root{s: s, shape: t.Name + "/" + reqNames[r]})
		}
	}
	// multi-field and nested structs: pairs differing in exactly one leaf at any depth
	i32, str := idl.T(idl.I32), idl.T(idl.String)
	deep := &idl.Struct{Cat: "struct", Name: "Deep", Fields: []*idl.Field{
		{ID: 1, ExplicitID: true, Name: "a", Type: i32}, {ID: 2, ExplicitID: true, Name: "b", Type: str, Req: idl.ReqOptional},
		{ID: 3, ExplicitID: true, Name: "in", Type: idl.StructT(env.Inner), Req: idl.ReqOptional}, {ID: 4, ExplicitID: true, Name: "l", Type: idl.ListOf(idl.StructT(env.Inner))},
		{ID: 5, ExplicitID: true, Name: "m", Type: idl.MapOf(str, idl.ListOf(i32)), Req: idl.ReqOptional}, {ID: 6, ExplicitID: true, Name: "u", Type: idl.StructT(env.U), Req: idl.ReqOptional},
		{ID: 7, ExplicitID: true, Name: "e", Type: idl.EnumT(env.E)}, {ID: 8, ExplicitID: true, Name: "d", Type: idl.T(idl.Double), Req: idl.ReqOptional}}}
	env.Main.Add(deep)
	roots = append(roots, &root{s: deep, shape: "Deep"}, &root{s: env.U, shape: "U"}, &root{s: env.X, shape: "X"}, &root{s: env.Inner, shape: "Inner"})
	prog := env.Program()

	configs := [][]string{{"gen_deep_equal"}, {"gen_deep_equal", "value_type_in_container"}, {"gen_deep_equal", "validate_set=false"}}
	if thorough {
		configs = append(configs, []string{"gen_deep_equal", "enum_as_int_32"}, []string{"gen_deep_equal", "keep_unknown_fields"}, []string{"gen_deep_equal", "naming_style=apache"}, []string{"gen_deep_equal", "nil_safe"})
	}
	var items []*gen.Item
	for i, c := range configs {
		items = append(items, ses.Batch.Add(&gen.Item{Key: fmt.Sprintf("c%d", i), Prog: prog, Opts: c, Recurse: true}))
	}
	ses.Start("c0")

	for _, r := range roots {
		for _, v := range refsem.StructDomain(r.s, 2, true) {
			if !hasBadDouble(v) {
				r.vals = append(r.vals, v)
			} else {
				r.nanVals = append(r.nanVals, v) // only compared with themselves (the same object)
			}
		}
	}
	outcomes := map[string]int64{}
	viol := func(class, what string, r *root, cfg []string, a, b *refsem.Val) {
		run.Violate(evid.Violation{Class: class, What: what, Replay: map[string]any{"struct": r.s.Name, "config": cfg, "a": a, "b": b}})
	}
	for ci, it := range items {
		if !gen.Usable(it) {
			continue
		}
		type pair struct {
			r    *root
			a, b *refsem.Val
			want bool
			kind string
		}
		var ps []pair
		for _, r := range roots {
			if _, ok := it.Types[r.s.Name]; !ok {
				run.Violate(evid.Violation{Class: "generated-type-missing", What: "no generated type for " + r.s.Name, Replay: map[string]any{"struct": r.s.Name}})
				continue
			}
			vals := r.vals
			if ci > 0 && !thorough && len(vals) > 12 {
				vals = vals[:12]
			}
			for _, a := range vals {
				for _, b := range vals {
					if !judged(r.s, a, b) {
						continue
					}
					ps = append(ps, pair{r, a, b, refEqStruct(r.s, a, b), "pair"})
					if a.Key(false) != b.Key(false) {
						// the same pair with every equal pointee shared between the two objects
						ps = append(ps, pair{r, a, b, refEqStruct(r.s, a, b), "alias"})
					}
				}
				ps = append(ps, pair{r, a, a.Clone(), true, "copy"})
				ps = append(ps, pair{r, a, a, true, "self"})
				ps = append(ps, pair{r, a, refsem.Nil(), false, "nil-arg"})
				ps = append(ps, pair{r, refsem.Nil(), a, false, "nil-receiver"})
			}
			// reflexivity on the very same object, also when it holds NaN
			for _, a := range r.nanVals {
				ps = append(ps, pair{r, a, a, true, "self"})
			}
			ps = append(ps, pair{r, refsem.Nil(), refsem.Nil(), true, "nil-nil"})
		}
		var reqs []*gen.Req
		for _, p := range ps {
			q := &gen.Req{Type: gen.RegKey(it, p.r.s.Name), Op: "deepequal", Val: p.a, Val2: p.b}
			if p.kind == "self" || p.kind == "alias" {
				q.Args = p.kind
			}
			reqs = append(reqs, q)
		}
		resps := ses.Do(reqs)
		for i, rs := range resps {
			p := ps[i]
			differ := p.a.Key(false) != p.b.Key(false)
			run.Eval(fmt.Sprintf("%d|%s|%s|%s|%s", ci, p.r.s.Name, p.kind, p.a.Key(false), p.b.Key(false)), differ || p.kind == "copy" || p.kind == "self")
			if rs.Panic != "" {
				viol("panic:"+p.kind+":"+p.r.shape, fmt.Sprintf("%s.DeepEqual panicked (%s): %s", p.r.s.Name, p.kind, firstLine(rs.Panic)), p.r, configs[ci], p.a, p.b)
				continue
			}
			if strings.HasPrefix(rs.Err, "harness:") {
				run.Fatal("driver: %s", rs.Err)
			}
			if rs.Bool == nil {
				viol("no-answer:"+p.r.shape, "DeepEqual returned nothing: "+rs.Err, p.r, configs[ci], p.a, p.b)
				continue
			}
			if *rs.Bool != p.want {
				dir := "true-for-different"
				if p.want {
					dir = "false-for-equal"
				}
				viol("wrong:"+dir+":"+p.kind+":"+p.r.shape, fmt.Sprintf("%s: DeepEqual(%v, %v) = %v, structural equality says %v", p.r.s.Name, p.a, p.b, *rs.Bool, p.want), p.r, configs[ci], p.a, p.b)
				continue
			}
			outcomes[fmt.Sprintf("%s-%v", p.kind, p.want)]++
		}
	}

	// set uniqueness on Write (validate_set on: items 0 and 1)
	type sv struct {
		r    *root
		v    *refsem.Val
		dup  bool
		item *gen.Item
	}
	var svs []sv
	for _, it := range items[:2] {
		if !gen.Usable(it) {
			continue
		}
		for _, r := range roots {
			f := r.s.Fields[0]
			if len(r.s.Fields) != 1 || f.Type.Final().Kind != idl.Set {
				continue
			}
			dom := refsem.Domain(f.Type.Final().Elem, 1, true)
			var el []*refsem.Val
			for _, e := range dom {
				if e != nil && e.T != "n" && !hasBadDouble(e) {
					el = append(el, e)
				}
			}
			if len(el) > 3 {
				el = el[:3]
			}
			var rec func(cur []*refsem.Val)
			rec = func(cur []*refsem.Val) {
				if len(cur) > 0 {
					dup := false
					for i := range cur {
						for j := i + 1; j < len(cur); j++ {
							if refEq(f.Type.Final().Elem, cur[i], cur[j]) {
								dup = true
							}
						}
					}
					svs = append(svs, sv{r, refsem.Obj().Set(1, refsem.List(cur...)), dup, it})
				}
				if len(cur) == 3 {
					return
				}
				for _, e := range el {
					rec(append(append([]*refsem.Val{}, cur...), e))
				}
			}
			rec(nil)
		}
	}
	var reqs []*gen.Req
	for _, x := range svs {
		reqs = append(reqs, &gen.Req{Type: gen.RegKey(x.item, x.r.s.Name), Op: "write", Val: x.v})
	}
	for i, rs := range ses.Do(reqs) {
		x := svs[i]
		run.Eval("set|"+x.item.Key+"|"+x.r.s.Name+"|"+x.v.Key(false), true)
		if rs.Panic != "" {
			viol("panic:set-write:"+x.r.shape, "Write of a set panicked: "+firstLine(rs.Panic), x.r, x.item.Opts, x.v, nil)
			continue
		}
		if x.dup && rs.Err == "" {
			viol("set-duplicate-accepted:"+x.r.shape, fmt.Sprintf("%s: Write accepted a set with two equal elements: %v", x.r.s.Name, x.v), x.r, x.item.Opts, x.v, nil)
		} else if !x.dup && rs.Err != "" {
			viol("set-unique-rejected:"+x.r.shape, fmt.Sprintf("%s: Write rejected a set of distinct elements %v: %s", x.r.s.Name, x.v, rs.Err), x.r, x.item.Opts, x.v, nil)
		} else {
			outcomes[fmt.Sprintf("set-dup-%v", x.dup)]++
		}
	}
	run.Set("roots", len(roots))
	run.Set("configurations", len(configs))
	run.Set("set_vectors", len(svs))
	run.Set("outcome_classes", outcomes)
	if len(roots) > 3 {
		r := roots[len(roots)/2]
		if len(r.vals) > 1 {
			run.Sample(map[string]any{"struct": r.s.Name, "a": r.vals[0].String(), "b": r.vals[1].String(), "reference": refEqStruct(r.s, r.vals[0], r.vals[1])})
		}
	}
	run.Set("rule", "one evaluation = one ordered pair (or copy / nil case / set vector) executed on the generated DeepEqual / Write; non-trivial iff the two values differ or are equal copies")
	run.Assume("NaN, -0.0 and the pair (unset optional binary, set empty binary) are outside the judged domain")
	run.Finish()
}

func firstLine(s string) string {
	if i := strings.IndexByte(s, '\n'); i >= 0 {
		return s[:i]
	}
	return s
}
