// C05 — symbol resolution binds every reference to the definition the IDL names.
//
// In-process, bounded-exhaustive: a family of multi-file programs (include
// chains and diamonds, the same base name in two directories, an unused
// include, typedef chains of length 1..3 whose links are local / cross-file in
// every combination, every reference form for types and constant identifiers,
// extends local / included) is built as a pointer model (the intended binding
// is known by construction), rendered, parsed with ParseBatchString, checked
// and resolved by the real semantic package, for ALL permutations of the
// typedef order (the order-sensitive part: typedefs are resolved by a fix
// point), both include orders and several placements of the other definitions.
// Oracle, for every type node: Category == category of the ultimate target,
// IsTypedef <=> names a typedef, Reference == (index of the defining include,
// name) when written with a prefix; for every identifier value: the recorded
// binding (IsEnum, Index, Sel, Name) resolves — by plain lookup in the recorded
// file — to the model's constant / enum value; Include.Used <=> something in
// the file refers to it; results identical for all permutations.
// Programs with an ambiguous identifier must be rejected.
package main

import (
	"flag"
	"fmt"
	"os"
	"runtime"
	"sort"
	"strings"
	"sync"

	"verif/internal/evid"
	"verif/internal/idl"

	"github.com/cloudwego/thriftgo/parser"
	"github.com/cloudwego/thriftgo/semantic"
)

func fld(id int32, name string, t *idl.Type, def *idl.Value) *idl.Field {
	return &idl.Field{ID: id, ExplicitID: true, Name: name, Type: t, Default: def}
}

type program struct {
	name  string
	files []*idl.File // files[0] = main
	main  *idl.File
}

type opts struct {
	tdPerm          []int // permutation of main's typedefs
	incSwap         bool  // swap the first two includes of main
	layout          int   // placement of other definitions relative to typedefs
	sameBase        bool  // add x/common.thrift and y/common.thrift
	viaLocalTypedef bool  // enum values written through a local typedef of an included (typedef'd) enum
	unusedIncl      bool
	dotted          bool // an include whose base name contains dots (palette.v2.thrift)
	valOnly         int  // 1: an include referred to only through constant identifiers is main's FIRST include, 2: its last
}

// build constructs the program under the given options.
func build(o opts) *program {
	i32, str := idl.T(idl.I32), idl.T(idl.String)
	a := &idl.File{Path: "a.thrift", Namespaces: []*idl.Namespace{{Lang: "go", Name: "p.a"}}}
	color := &idl.Enum{Name: "Color", Values: []*idl.EnumValue{{Name: "RED"}, {Name: "BLUE", Value: 3, Explicit: true}}}
	a.Add(color)
	as := &idl.Struct{Cat: "struct", Name: "AS", Fields: []*idl.Field{fld(1, "v", i32, nil)}}
	a.Add(as)
	ax := &idl.Struct{Cat: "exception", Name: "AX", Fields: []*idl.Field{fld(1, "m", str, nil)}}
	a.Add(ax)
	au := &idl.Struct{Cat: "union", Name: "AU", Fields: []*idl.Field{fld(1, "n", i32, nil)}}
	a.Add(au)
	aInt := &idl.Typedef{Name: "AInt", Type: i32}
	aHue := &idl.Typedef{Name: "AHue", Type: idl.EnumT(color)}
	aStruct := &idl.Typedef{Name: "AStruct", Type: idl.StructT(as)}
	aList := &idl.Typedef{Name: "AList", Type: idl.ListOf(idl.StructT(as))}
	for _, t := range []*idl.Typedef{aInt, aHue, aStruct, aList} {
		a.Add(t)
	}
	ac := &idl.Const{Name: "AC", Type: i32, Value: idl.VI(1)}
	acol := &idl.Const{Name: "ACOL", Type: idl.EnumT(color), Value: idl.VE(color, color.Values[1])}
	a.Add(ac)
	a.Add(acol)
	aBase := &idl.Service{Name: "ABase", Functions: []*idl.Function{{Name: "ping"}}}
	a.Add(aBase)

	b := &idl.File{Path: "b.thrift", Includes: []*idl.Include{{Path: "a.thrift", File: a}}, Namespaces: []*idl.Namespace{{Lang: "go", Name: "p.b"}}}
	bHue := &idl.Typedef{Name: "BHue", Type: idl.TypedefT(aHue)}
	bStruct := &idl.Typedef{Name: "BStruct", Type: idl.TypedefT(aStruct)}
	bMap := &idl.Typedef{Name: "BMap", Type: idl.MapOf(idl.EnumT(color), idl.TypedefT(aList))}
	b.Add(bHue)
	b.Add(bStruct)
	b.Add(bMap)
	bs := &idl.Struct{Cat: "struct", Name: "BS", Fields: []*idl.Field{fld(1, "f", idl.StructT(as), nil), fld(2, "c", idl.EnumT(color), idl.VE(color, color.Values[0]))}}
	b.Add(bs)
	bcol := &idl.Const{Name: "BCOL", Type: idl.EnumT(color), Value: idl.VE(color, color.Values[0])}
	b.Add(bcol)
	bSvc := &idl.Service{Name: "BSvc", Extends: aBase}
	b.Add(bSvc)

	m := &idl.File{Path: "main.thrift", Namespaces: []*idl.Namespace{{Lang: "go", Name: "p.m"}}}
	incs := []*idl.Include{{Path: "a.thrift", File: a}, {Path: "b.thrift", File: b}}
	if o.incSwap {
		incs[0], incs[1] = incs[1], incs[0]
	}
	files := []*idl.File{m, a, b}
	var c1s, c2s *idl.Struct
	if o.sameBase {
		x := &idl.File{Path: "x/common.thrift", Namespaces: []*idl.Namespace{{Lang: "go", Name: "p.x"}}}
		c1s = &idl.Struct{Cat: "struct", Name: "C1", Fields: []*idl.Field{fld(1, "v", i32, nil)}}
		x.Add(c1s)
		y := &idl.File{Path: "y/common.thrift", Namespaces: []*idl.Namespace{{Lang: "go", Name: "p.y"}}}
		c2s = &idl.Struct{Cat: "struct", Name: "C2", Fields: []*idl.Field{fld(1, "v", i32, nil)}}
		y.Add(c2s)
		incs = append(incs, &idl.Include{Path: "x/common.thrift", File: x}, &idl.Include{Path: "y/common.thrift", File: y})
		files = append(files, x, y)
	}
	if o.unusedIncl {
		u := &idl.File{Path: "u.thrift", Namespaces: []*idl.Namespace{{Lang: "go", Name: "p.u"}}}
		u.Add(&idl.Struct{Cat: "struct", Name: "US", Fields: []*idl.Field{fld(1, "v", i32, nil)}})
		incs = append(incs, &idl.Include{Path: "u.thrift", File: u})
		files = append(files, u)
	}
	var shade *idl.Enum
	var pvk *idl.Const
	var pvs *idl.Struct
	if o.dotted {
		pv := &idl.File{Path: "palette.v2.thrift", Namespaces: []*idl.Namespace{{Lang: "go", Name: "p.palettev2"}}}
		shade = &idl.Enum{Name: "Shade", Values: []*idl.EnumValue{{Name: "GREEN", Value: 2, Explicit: true}, {Name: "RED"}}}
		pv.Add(shade)
		pvk = &idl.Const{Name: "PVK", Type: i32, Value: idl.VI(9)}
		pv.Add(pvk)
		pvs = &idl.Struct{Cat: "struct", Name: "PS", Fields: []*idl.Field{fld(1, "v", i32, nil)}}
		pv.Add(pvs)
		incs = append(incs, &idl.Include{Path: "palette.v2.thrift", File: pv})
		files = append(files, pv)
	}
	var vk *idl.Const
	if o.valOnly > 0 {
		v := &idl.File{Path: "v.thrift", Namespaces: []*idl.Namespace{{Lang: "go", Name: "p.v"}}}
		vk = &idl.Const{Name: "VK", Type: i32, Value: idl.VI(11)}
		v.Add(vk)
		v.Add(&idl.Struct{Cat: "struct", Name: "VS", Fields: []*idl.Field{fld(1, "v", i32, nil)}})
		if o.valOnly == 1 {
			incs = append([]*idl.Include{{Path: "v.thrift", File: v}}, incs...)
		} else {
			incs = append(incs, &idl.Include{Path: "v.thrift", File: v})
		}
		files = append(files, v)
	}
	m.Includes = incs

	l := &idl.Enum{Name: "L", Values: []*idl.EnumValue{{Name: "X"}, {Name: "Y", Value: 9, Explicit: true}}}
	lt := &idl.Typedef{Name: "LT", Type: idl.EnumT(l)}
	ltt := &idl.Typedef{Name: "LTT", Type: idl.TypedefT(lt)}
	mHue := &idl.Typedef{Name: "MHue", Type: idl.TypedefT(bHue)} // local -> b -> a -> enum
	mStruct := &idl.Typedef{Name: "MStruct", Type: idl.TypedefT(bStruct)}
	mInt := &idl.Typedef{Name: "MInt", Type: idl.TypedefT(aInt)}
	ml := &idl.Typedef{Name: "ML", Type: idl.ListOf(idl.TypedefT(mStruct))}
	lCol := &idl.Typedef{Name: "LCol", Type: idl.EnumT(color)} // local typedef of an included enum
	tds := []*idl.Typedef{lt, ltt, mHue, mStruct, mInt, ml}
	ms := &idl.Struct{Cat: "struct", Name: "M", Fields: []*idl.Field{
		fld(1, "f1", idl.EnumT(l), idl.VE(l, l.Values[1])),
		fld(2, "f2", idl.TypedefT(lt), &idl.Value{K: idl.VEnumRef, Enum: l, EV: l.Values[0], Via: lt}),
		fld(3, "f3", idl.TypedefT(ltt), idl.VE(l, l.Values[1])),
		fld(4, "f4", idl.EnumT(color), idl.VE(color, color.Values[1])),
		fld(5, "f5", idl.TypedefT(aHue), &idl.Value{K: idl.VEnumRef, Enum: color, EV: color.Values[0], Via: aHue}),
		fld(6, "f6", idl.TypedefT(bHue), idl.VE(color, color.Values[1])),
		fld(7, "f7", idl.TypedefT(mHue), idl.VI(3)),
		fld(8, "f8", idl.StructT(as), nil),
		fld(9, "f9", idl.TypedefT(bStruct), nil),
		fld(10, "f10", idl.TypedefT(ml), nil),
		fld(11, "f11", idl.MapOf(idl.EnumT(color), idl.ListOf(idl.StructT(bs))), nil),
		fld(12, "f12", idl.TypedefT(mInt), idl.VC(ac)),
		fld(13, "f13", idl.TypedefT(bMap), nil),
		fld(14, "f14", idl.SetOf(idl.TypedefT(mStruct)), nil),
		fld(15, "f15", idl.StructT(ax), nil),
		fld(16, "f16", idl.StructT(au), nil),
		fld(17, "f17", idl.ListOf(idl.TypedefT(lt)), idl.VL(idl.VE(l, l.Values[0]), idl.VE(l, l.Values[1]))),
		fld(18, "f18", idl.MapOf(str, idl.EnumT(color)), idl.VM([2]*idl.Value{idl.VS("k"), idl.VE(color, color.Values[0])}, [2]*idl.Value{idl.VS("l"), idl.VC(bcol)})),
	}}
	if o.viaLocalTypedef {
		// typedefs that carry the very name of the enum they lead to, in two files (a chain of equal names)
		bSame := &idl.Typedef{Name: "Color", Type: idl.EnumT(color)}
		b.Add(bSame)
		mSame := &idl.Typedef{Name: "Color", Type: idl.TypedefT(bSame)}
		m.Add(mSame)
		ms.Fields = append(ms.Fields,
			fld(24, "f24", idl.TypedefT(mSame), &idl.Value{K: idl.VEnumRef, Enum: color, EV: color.Values[1], Via: mSame}),
			fld(25, "f25", idl.TypedefT(bSame), &idl.Value{K: idl.VEnumRef, Enum: color, EV: color.Values[0], Via: bSame}),
			fld(26, "f26", idl.EnumT(color), &idl.Value{K: idl.VEnumRef, Enum: color, EV: color.Values[1], Via: mSame}))
		m.Add(lCol)
		ms.Fields = append(ms.Fields,
			fld(21, "f21", idl.TypedefT(lCol), &idl.Value{K: idl.VEnumRef, Enum: color, EV: color.Values[1], Via: lCol}),
			fld(22, "f22", idl.TypedefT(mHue), &idl.Value{K: idl.VEnumRef, Enum: color, EV: color.Values[0], Via: mHue}),
			fld(23, "f23", idl.TypedefT(bHue), &idl.Value{K: idl.VEnumRef, Enum: color, EV: color.Values[1], Via: bHue}))
	}
	if o.sameBase {
		ms.Fields = append(ms.Fields, fld(19, "f19", idl.StructT(c1s), nil), fld(20, "f20", idl.StructT(c2s), nil))
	}
	lc := &idl.Const{Name: "LC", Type: i32, Value: idl.VI(5)}
	lstr := &idl.Const{Name: "LSTR", Type: str, Value: idl.VS("key")}
	ms.Fields = append(ms.Fields, fld(27, "f27", idl.ListOf(idl.StructT(bs)), idl.VL(idl.VM([2]*idl.Value{idl.VS("c"), idl.VC(acol)}))))
	consts := []*idl.Const{
		lc, lstr,
		{Name: "K1", Type: i32, Value: idl.VC(lc)},
		{Name: "K2", Type: i32, Value: idl.VC(ac)},
		{Name: "K3", Type: idl.EnumT(color), Value: idl.VC(acol)},
		{Name: "K4", Type: idl.EnumT(color), Value: idl.VC(bcol)},
		{Name: "K5", Type: idl.EnumT(l), Value: idl.VE(l, l.Values[0])},
		{Name: "K6", Type: idl.EnumT(color), Value: idl.VE(color, color.Values[1])},
		{Name: "K7", Type: idl.ListOf(idl.EnumT(color)), Value: idl.VL(idl.VE(color, color.Values[0]), idl.VC(acol), idl.VI(3))},
		{Name: "K8", Type: idl.StructT(bs), Value: idl.VM([2]*idl.Value{idl.VS("c"), idl.VE(color, color.Values[1])})},
		// identifiers inside struct / map literals that are themselves list elements
		{Name: "K9", Type: idl.ListOf(idl.StructT(bs)), Value: idl.VL(idl.VM([2]*idl.Value{idl.VS("c"), idl.VE(color, color.Values[1])}), idl.VM([2]*idl.Value{idl.VS("c"), idl.VC(acol)}, [2]*idl.Value{idl.VS("f"), idl.VM([2]*idl.Value{idl.VS("v"), idl.VC(ac)})}))},
		{Name: "K10", Type: idl.ListOf(idl.MapOf(str, idl.EnumT(color))), Value: idl.VL(idl.VM([2]*idl.Value{idl.VS("k"), idl.VC(bcol)}), idl.VM([2]*idl.Value{idl.VC(lstr), idl.VE(color, color.Values[0])}))},
		{Name: "K11", Type: idl.SetOf(idl.ListOf(idl.MapOf(idl.EnumT(l), i32))), Value: idl.VL(idl.VL(idl.VM([2]*idl.Value{idl.VE(l, l.Values[1]), idl.VC(lc)})))},
	}
	if shade != nil {
		consts = append(consts, &idl.Const{Name: "KD1", Type: idl.EnumT(shade), Value: idl.VE(shade, shade.Values[0])}, &idl.Const{Name: "KD2", Type: i32, Value: idl.VC(pvk)},
			&idl.Const{Name: "KD3", Type: idl.MapOf(idl.EnumT(shade), idl.ListOf(idl.EnumT(shade))), Value: idl.VM([2]*idl.Value{idl.VE(shade, shade.Values[1]), idl.VL(idl.VE(shade, shade.Values[0]))})})
		ms.Fields = append(ms.Fields, fld(31, "f31", idl.EnumT(shade), idl.VE(shade, shade.Values[1])), fld(32, "f32", idl.StructT(pvs), nil), fld(33, "f33", i32, idl.VC(pvk)))
	}
	if vk != nil {
		consts = append(consts, &idl.Const{Name: "KV1", Type: i32, Value: idl.VC(vk)}, &idl.Const{Name: "KV2", Type: idl.MapOf(str, i32), Value: idl.VM([2]*idl.Value{idl.VS("a"), idl.VC(vk)})})
		ms.Fields = append(ms.Fields, fld(30, "f30", i32, idl.VC(vk)))
	}
	svc := &idl.Service{Name: "S", Extends: aBase, Functions: []*idl.Function{{Name: "f", Ret: idl.TypedefT(mStruct), Args: []*idl.Field{fld(1, "a", idl.TypedefT(bHue), nil), fld(2, "b", idl.ListOf(idl.StructT(bs)), nil)}, Throws: []*idl.Field{fld(1, "e", idl.StructT(ax), nil)}}}}
	svc2 := &idl.Service{Name: "S2", Extends: bSvc}
	svc3 := &idl.Service{Name: "S3", Extends: svc}

	var permTd []*idl.Typedef
	for _, i := range o.tdPerm {
		permTd = append(permTd, tds[i])
	}
	addTds := func() {
		for _, t := range permTd {
			m.Add(t)
		}
	}
	addRest := func(part int) {
		switch part {
		case 0:
			m.Add(l)
		case 1:
			m.Add(ms)
		case 2:
			for _, c := range consts {
				m.Add(c)
			}
		case 3:
			m.Add(svc3) // derived before base in source order
			m.Add(svc)
			m.Add(svc2)
		}
	}
	order := [][]int{{-1, 0, 1, 2, 3}, {0, 1, 2, 3, -1}, {3, 2, 1, -1, 0}, {1, -1, 3, 0, 2}}[o.layout%4]
	for _, p := range order {
		if p < 0 {
			addTds()
		} else {
			addRest(p)
		}
	}
	return &program{name: fmt.Sprintf("perm=%v swap=%v layout=%d same=%v unused=%v via=%v valonly=%d dotted=%v", o.tdPerm, o.incSwap, o.layout, o.sameBase, o.unusedIncl, o.viaLocalTypedef, o.valOnly, o.dotted), files: files, main: m}
}

func perms(n int) [][]int {
	if n == 1 {
		return [][]int{{0}}
	}
	var out [][]int
	for _, p := range perms(n - 1) {
		for i := 0; i <= len(p); i++ {
			q := append(append(append([]int{}, p[:i]...), n-1), p[i:]...)
			out = append(out, q)
		}
	}
	return out
}

// ---------------------------------------------------------------- oracle

func category(t *idl.Type) parser.Category {
	f := t.Final()
	switch f.Kind {
	case idl.Bool:
		return parser.Category_Bool
	case idl.Byte:
		return parser.Category_Byte
	case idl.I16:
		return parser.Category_I16
	case idl.I32:
		return parser.Category_I32
	case idl.I64:
		return parser.Category_I64
	case idl.Double:
		return parser.Category_Double
	case idl.String:
		return parser.Category_String
	case idl.Binary:
		return parser.Category_Binary
	case idl.List:
		return parser.Category_List
	case idl.Set:
		return parser.Category_Set
	case idl.Map:
		return parser.Category_Map
	case idl.EnumK:
		return parser.Category_Enum
	case idl.StructK:
		switch f.Struct.Cat {
		case "union":
			return parser.Category_Union
		case "exception":
			return parser.Category_Exception
		}
		return parser.Category_Struct
	}
	return -1
}

type checker struct {
	cur    *idl.File
	ast    *parser.Thrift
	errs   []string
	used   map[*idl.File]bool
	result *strings.Builder // canonical resolved tree (for permutation invariance)
}

func (c *checker) fail(class, format string, a ...any) {
	c.errs = append(c.errs, class+"|"+fmt.Sprintf(format, a...))
}

func defFile(t *idl.Type) (*idl.File, string) {
	switch t.Kind {
	case idl.EnumK:
		return t.Enum.File, t.Enum.Name
	case idl.StructK:
		return t.Struct.File, t.Struct.Name
	case idl.TypedefK:
		return t.Typedef.File, t.Typedef.Name
	}
	return nil, ""
}

func (c *checker) includeIndex(f *idl.File) int {
	for i, inc := range c.cur.Includes {
		if inc.File == f {
			return i
		}
	}
	return -1
}

func (c *checker) typ(where string, mt *idl.Type, at *parser.Type) {
	if at == nil {
		c.fail("type-node-missing", "%s: no type node", where)
		return
	}
	want := category(mt)
	if at.Category != want {
		c.fail("category:"+want.String(), "%s: type %q has category %v, the definition it denotes is %v", where, at.Name, at.Category, want)
	}
	if (mt.Kind == idl.TypedefK) != at.GetIsTypedef() {
		c.fail("is-typedef", "%s: type %q IsTypedef=%v, model says %v", where, at.Name, at.GetIsTypedef(), mt.Kind == idl.TypedefK)
	}
	if f, name := defFile(mt); f != nil && f != c.cur {
		c.used[f] = true
		idx := c.includeIndex(f)
		if at.Reference == nil {
			c.fail("reference-missing", "%s: type %q is defined in %s but has no Reference", where, at.Name, f.Path)
		} else if int(at.Reference.Index) != idx || at.Reference.Name != name {
			c.fail("reference-wrong", "%s: type %q: Reference=(%d,%q), the defining include is #%d (%s) and the name %q", where, at.Name, at.Reference.Index, at.Reference.Name, idx, f.Path, name)
		}
	} else if f != nil && at.Reference != nil {
		c.fail("reference-on-local", "%s: local type %q carries Reference (%d,%q)", where, at.Name, at.Reference.Index, at.Reference.Name)
	}
	fmt.Fprintf(c.result, "%s:%v,%v,%v;", where, at.Category, at.GetIsTypedef(), at.Reference != nil)
	switch mt.Kind {
	case idl.List, idl.Set:
		c.typ(where+"<elem>", mt.Elem, at.ValueType)
	case idl.Map:
		c.typ(where+"<key>", mt.Key, at.KeyType)
		c.typ(where+"<val>", mt.Elem, at.ValueType)
	}
}

// value checks identifier bindings inside an initializer.
func (c *checker) value(where string, mv *idl.Value, av *parser.ConstValue) {
	if mv == nil || av == nil {
		return
	}
	switch mv.K {
	case idl.VList:
		for i := range mv.List {
			if av.TypedValue == nil || i >= len(av.TypedValue.List) {
				return
			}
			c.value(fmt.Sprintf("%s[%d]", where, i), mv.List[i], av.TypedValue.List[i])
		}
	case idl.VMap:
		for i := range mv.Map {
			if av.TypedValue == nil || i >= len(av.TypedValue.Map) {
				return
			}
			c.value(fmt.Sprintf("%s{%d}k", where, i), mv.Map[i][0], av.TypedValue.Map[i].Key)
			c.value(fmt.Sprintf("%s{%d}v", where, i), mv.Map[i][1], av.TypedValue.Map[i].Value)
		}
	case idl.VConstRef, idl.VEnumRef:
		ex := av.Extra
		text := idl.IdentText(c.cur, mv)
		if ex == nil {
			c.fail("binding-missing", "%s: identifier %q has no resolution result", where, text)
			return
		}
		// the file the recorded binding points into
		target := c.ast
		if ex.Index >= 0 {
			if int(ex.Index) >= len(c.ast.Includes) || c.ast.Includes[ex.Index].Reference == nil {
				c.fail("binding-index-out-of-range", "%s: identifier %q: Index %d is no include of this file", where, text, ex.Index)
				return
			}
			target = c.ast.Includes[ex.Index].Reference
		}
		form := "const"
		var wantFile *idl.File
		if mv.K == idl.VConstRef {
			wantFile = mv.Const.File
			if ex.IsEnum {
				c.fail("binding-kind", "%s: identifier %q names a constant but is recorded as an enum value", where, text)
				return
			}
			if _, ok := target.GetConstant(ex.Name); !ok || ex.Name != mv.Const.Name || !sameFile(target, wantFile) {
				c.fail("binding-wrong:const", "%s: identifier %q is recorded as (Index %d, Name %q) = constant %q of %s; it names %s of %s", where, text, ex.Index, ex.Name, ex.Name, target.Filename, mv.Const.Name, wantFile.Path)
				return
			}
		} else {
			form = "enum"
			if mv.Via != nil {
				form = "enum-via-typedef"
				if mv.Via.File != mv.Enum.File {
					form = "enum-via-typedef-across-files"
				}
			}
			if !ex.IsEnum {
				c.fail("binding-kind", "%s: identifier %q names an enum value but is recorded as a constant", where, text)
				return
			}
			// plain lookup: Sel must denote, in the recorded file, the enum itself or a typedef chain to it
			e := lookupEnum(target, ex.Sel, 0)
			if e == nil || e.Name != mv.Enum.Name || !hasValue(e, ex.Name) || ex.Name != mv.EV.Name {
				c.fail("binding-wrong:"+form, "%s: identifier %q is recorded as (IsEnum, Index %d, Sel %q, Name %q): no enum %q with that value is reachable as %q in %s; it names %s.%s of %s", where, text, ex.Index, ex.Sel, ex.Name, mv.Enum.Name, ex.Sel, target.Filename, mv.Enum.Name, mv.EV.Name, mv.Enum.File.Path)
				return
			}
			wantFile = mv.Enum.File
			if mv.Via != nil {
				wantFile = mv.Via.File
			}
		}
		if wantFile != c.cur {
			c.used[wantFile] = true
		}
		fmt.Fprintf(c.result, "%s:%s;", where, form)
	}
}

func sameFile(t *parser.Thrift, f *idl.File) bool {
	return strings.HasSuffix(t.Filename, f.Path)
}

func hasValue(e *parser.Enum, n string) bool {
	for _, v := range e.Values {
		if v.Name == n {
			return true
		}
	}
	return false
}

// lookupEnum resolves name in file t: an enum, or a typedef (followed through
// its own Reference) leading to an enum.
func lookupEnum(t *parser.Thrift, name string, depth int) *parser.Enum {
	if depth > 8 {
		return nil
	}
	if e, ok := t.GetEnum(name); ok {
		return e
	}
	if td, ok := t.GetTypedef(name); ok && td.Type != nil {
		if r := td.Type.Reference; r != nil && int(r.Index) < len(t.Includes) && t.Includes[r.Index].Reference != nil {
			return lookupEnum(t.Includes[r.Index].Reference, r.Name, depth+1)
		}
		return lookupEnum(t, td.Type.Name, depth+1)
	}
	return nil
}

func (c *checker) fields(where string, mf []*idl.Field, af []*parser.Field) {
	if len(mf) != len(af) {
		c.fail("field-count", "%s: %d fields in the AST, %d in the model", where, len(af), len(mf))
		return
	}
	for i := range mf {
		w := where + "." + mf[i].Name
		c.typ(w, mf[i].Type, af[i].Type)
		c.value(w+"=", mf[i].Default, af[i].Default)
	}
}

// checkFile walks model file and resolved AST in parallel.
func checkFile(f *idl.File, ast *parser.Thrift) (*checker, string) {
	c := &checker{cur: f, ast: ast, used: map[*idl.File]bool{}, result: &strings.Builder{}}
	var tds []*idl.Typedef
	var cs []*idl.Const
	var sts, uns, exs []*idl.Struct
	var svs []*idl.Service
	for _, d := range f.Defs {
		switch {
		case d.Typedef != nil:
			tds = append(tds, d.Typedef)
		case d.Const != nil:
			cs = append(cs, d.Const)
		case d.Struct != nil:
			switch d.Struct.Cat {
			case "union":
				uns = append(uns, d.Struct)
			case "exception":
				exs = append(exs, d.Struct)
			default:
				sts = append(sts, d.Struct)
			}
		case d.Service != nil:
			svs = append(svs, d.Service)
		}
	}
	if len(tds) != len(ast.Typedefs) || len(cs) != len(ast.Constants) || len(sts) != len(ast.Structs) || len(svs) != len(ast.Services) {
		c.fail("definition-count", "definition counts differ between model and AST")
		return c, ""
	}
	type entry struct{ name, text string }
	var entries []entry
	section := func(name string, f func()) {
		c.result.Reset()
		f()
		entries = append(entries, entry{name, c.result.String()})
	}
	for i, t := range tds {
		i, t := i, t
		section("typedef "+t.Name, func() { c.typ("typedef "+t.Name, t.Type, ast.Typedefs[i].Type) })
	}
	for i, k := range cs {
		i, k := i, k
		section("const "+k.Name, func() {
			c.typ("const "+k.Name, k.Type, ast.Constants[i].Type)
			c.value("const "+k.Name+"=", k.Value, ast.Constants[i].Value)
		})
	}
	for i, s := range sts {
		i, s := i, s
		section("struct "+s.Name, func() { c.fields("struct "+s.Name, s.Fields, ast.Structs[i].Fields) })
	}
	for i, s := range uns {
		i, s := i, s
		section("union "+s.Name, func() { c.fields("union "+s.Name, s.Fields, ast.Unions[i].Fields) })
	}
	for i, s := range exs {
		i, s := i, s
		section("exception "+s.Name, func() { c.fields("exception "+s.Name, s.Fields, ast.Exceptions[i].Fields) })
	}
	for i, s := range svs {
		i, s := i, s
		section("service "+s.Name, func() {
			as := ast.Services[i]
			if s.Extends != nil && s.Extends.File != f {
				c.used[s.Extends.File] = true
				idx := c.includeIndex(s.Extends.File)
				if as.Reference == nil || int(as.Reference.Index) != idx || as.Reference.Name != s.Extends.Name {
					c.fail("extends-reference", "service %s extends %s of include #%d: Reference=%v", s.Name, s.Extends.Name, idx, as.Reference)
				}
			}
			if len(s.Functions) != len(as.Functions) {
				c.fail("function-count", "service %s", s.Name)
				return
			}
			for j, fn := range s.Functions {
				w := "service " + s.Name + "." + fn.Name
				if fn.Ret != nil {
					c.typ(w+"()", fn.Ret, as.Functions[j].FunctionType)
				}
				c.fields(w+"(args)", fn.Args, as.Functions[j].Arguments)
				c.fields(w+"(throws)", fn.Throws, as.Functions[j].Throws)
			}
		})
	}
	// Include.Used <=> something in the file refers to it
	for i, inc := range f.Includes {
		if i >= len(ast.Includes) {
			break
		}
		if got := ast.Includes[i].GetUsed(); got != c.used[inc.File] {
			c.fail("include-used", "include %q: Used=%v but the file %s to it", inc.Path, got, map[bool]string{true: "refers", false: "does not refer"}[c.used[inc.File]])
		}
		entries = append(entries, entry{"include " + inc.Path, fmt.Sprint(ast.Includes[i].GetUsed())})
	}
	sort.Slice(entries, func(i, j int) bool { return entries[i].name < entries[j].name })
	var sb strings.Builder
	for _, e := range entries {
		sb.WriteString(e.name + " => " + e.text + "\n")
	}
	return c, sb.String()
}

func analyse(p *program) (ast *parser.Thrift, stage string, err error, pan string) {
	defer func() {
		if x := recover(); x != nil {
			pan = fmt.Sprint(x)
		}
	}()
	texts := map[string]string{}
	for _, f := range p.files {
		texts[f.Path] = idl.Render(f)
	}
	ast, err = parser.ParseBatchString(p.main.Path, texts, nil)
	if err != nil {
		return nil, "parse", err, ""
	}
	if _, err = semantic.NewChecker(semantic.Options{FixWarnings: true}).CheckAll(ast); err != nil {
		return ast, "check", err, ""
	}
	if err = semantic.ResolveSymbols(ast); err != nil {
		return ast, "resolve", err, ""
	}
	return ast, "", nil, ""
}

func main() {
	replay := flag.String("replay", "", "unused")
	_ = replay
	run := evid.New("C05", "exploration")
	thorough := run.Thorough()
	var optsList []opts
	ps := perms(6)
	for pi, p := range ps {
		for _, swap := range []bool{false, true} {
			for layout := 0; layout < 4; layout++ {
				if !thorough && (pi+layout)%4 != 0 && !(pi < 24) {
					continue
				}
				optsList = append(optsList, opts{tdPerm: p, incSwap: swap, layout: layout})
			}
		}
	}
	for _, p := range ps[:24] {
		optsList = append(optsList, opts{tdPerm: p, viaLocalTypedef: true}, opts{tdPerm: p, viaLocalTypedef: true, incSwap: true, layout: 3})
		optsList = append(optsList, opts{tdPerm: p, sameBase: true}, opts{tdPerm: p, unusedIncl: true, incSwap: true, layout: 2}, opts{tdPerm: p, sameBase: true, unusedIncl: true, layout: 1})
		optsList = append(optsList, opts{tdPerm: p, valOnly: 1}, opts{tdPerm: p, valOnly: 2, layout: 2}, opts{tdPerm: p, valOnly: 1, unusedIncl: true, layout: 3})
		optsList = append(optsList, opts{tdPerm: p, dotted: true}, opts{tdPerm: p, dotted: true, incSwap: true, layout: 1})
	}
	var mu sync.Mutex
	trees := map[string]string{} // variant (swap/same/unused) -> canonical tree
	outcomes := map[string]int64{}
	var wg sync.WaitGroup
	ch := make(chan opts, 64)
	for w := 0; w < runtime.NumCPU(); w++ {
		wg.Add(1)
		go func() {
			defer wg.Done()
			for o := range ch {
				p := build(o)
				ast, stage, err, pan := analyse(p)
				run.Eval(p.name, true)
				rp := map[string]any{"program": p.name, "main.thrift": idl.Render(p.main)}
				if pan != "" {
					run.Violate(evid.Violation{Class: "panic:" + firstLine(pan), What: "semantic analysis panicked: " + pan, Replay: rp})
					continue
				}
				if err != nil {
					run.Violate(evid.Violation{Class: "valid-program-rejected:" + stage, What: fmt.Sprintf("%s: %v", stage, firstLine(err.Error())), Replay: rp})
					continue
				}
				c, tree := checkFile(p.main, ast)
				for _, e := range c.errs {
					parts := strings.SplitN(e, "|", 2)
					run.Violate(evid.Violation{Class: parts[0], What: parts[1], Replay: rp})
				}
				// included files are checked too (their own resolution)
				for _, f := range p.files[1:] {
					for t := range ast.DepthFirstSearch() {
						if sameFile(t, f) {
							c2, _ := checkFile(f, t)
							for _, e := range c2.errs {
								parts := strings.SplitN(e, "|", 2)
								run.Violate(evid.Violation{Class: parts[0] + "@" + f.Path, What: parts[1], Replay: rp})
							}
						}
					}
				}
				if len(c.errs) == 0 {
					// incSwap changes include indices but the tree text only records whether a
					// Reference is present, so all permutations, layouts and include orders of
					// one file set must agree
					variant := fmt.Sprintf("same=%v unused=%v via=%v valonly=%v dotted=%v", o.sameBase, o.unusedIncl, o.viaLocalTypedef, o.valOnly > 0, o.dotted)
					mu.Lock()
					if prev, ok := trees[variant]; !ok {
						trees[variant] = tree
					} else if prev != tree {
						run.Violate(evid.Violation{Class: "order-dependent", What: "the resolved tree depends on the order of definitions / includes: " + diffLine(prev, tree), Replay: rp})
					}
					outcomes["resolved-ok"]++
					mu.Unlock()
				}
			}
		}()
	}
	for _, o := range optsList {
		ch <- o
	}
	close(ch)
	wg.Wait()

	// ambiguous identifiers must be rejected: local enum named like an include prefix
	for _, swap := range []bool{false, true} {
		p := build(opts{tdPerm: perms(6)[0], incSwap: swap})
		amb := &idl.Enum{Name: "a", Values: []*idl.EnumValue{{Name: "AC"}}}
		p.main.Add(amb)
		p.main.Add(&idl.Const{Name: "KAMB", Type: idl.T(idl.I32), Value: &idl.Value{K: idl.VRawIdent, Raw: "a.AC"}})
		_, stage, err, pan := analyse(p)
		run.Eval("ambiguous|"+fmt.Sprint(swap), true)
		if pan != "" {
			run.Violate(evid.Violation{Class: "panic:ambiguous", What: pan, Replay: map[string]any{"main.thrift": idl.Render(p.main)}})
		} else if err == nil {
			run.Violate(evid.Violation{Class: "ambiguous-identifier-accepted", What: "identifier a.AC names both enum value a.AC and constant AC of include a.thrift, but resolution succeeded", Replay: map[string]any{"main.thrift": idl.Render(p.main)}})
		} else {
			outcomes["ambiguous-rejected@"+stage]++
		}
	}
	run.Set("programs", len(optsList)+2)
	run.Set("outcome_classes", outcomes)
	p0 := build(optsList[0])
	run.Sample(map[string]any{"program": p0.name, "main.thrift": idl.Render(p0.main)})
	run.Set("rule", "one evaluation = one program (typedef permutation x include order x layout x file set) parsed, checked, resolved and compared with the bindings the model knows by construction; every program has cross-definition references")
	run.Assume("a recorded enum-value binding is judged by plain lookup of Sel in the recorded file (enum, or typedef chain followed through the typedef's own Reference)")
	run.Finish()
	_ = os.Exit
}

func firstLine(s string) string {
	if i := strings.IndexByte(s, '\n'); i >= 0 {
		return s[:i]
	}
	return s
}

func diffLine(a, b string) string {
	x, y := strings.Split(a, "\n"), strings.Split(b, "\n")
	for i := range x {
		if i >= len(y) || x[i] != y[i] {
			o := ""
			if i < len(y) {
				o = y[i]
			}
			return fmt.Sprintf("%q vs %q", x[i], o)
		}
	}
	return "length"
}
