// C08 — generated client and processor carry a call end to end.
//
// Generate-compile-run: services with void / value / oneway methods, 0..3
// arguments with explicit / implicit / negative ids, 0..2 throws, extends
// within the file, across an include and over two levels, and names that are
// Go keywords or generated identifiers. The harness generates a recording
// handler from the generated interface (types copied from its AST), connects
// the generated client to the generated processor over a synchronous
// in-memory transport that captures both directions, and runs
//   - every method x every scripted outcome (each value of the result domain,
//     each declared exception, an undeclared error) x argument values,
//   - every sequence of <= 2 (thorough 3) calls over a representative call
//     alphabet (incl. an unknown method name) on one connection.
//
// Oracle: the handler saw the IDL arguments; the caller got the scripted
// result / the declared exception with equal fields / an application
// exception; oneway => no reply bytes; inherited methods dispatch; on the wire
// <IDL method name, CALL/ONEWAY/REPLY/EXCEPTION, seqid> + args/result structs
// with IDL ids and success = 0 (parsed by the reference codec).
package main

import (
	"encoding/binary"
	"encoding/hex"
	"encoding/json"
	"flag"
	"fmt"
	"sort"
	"strings"

	"verif/internal/evid"
	"verif/internal/gen"
	"verif/internal/idl"
	"verif/internal/refsem"
)

func fld(id int32, name string, t *idl.Type) *idl.Field {
	return &idl.Field{ID: id, ExplicitID: true, Name: name, Type: t}
}

type method struct {
	svc    *idl.Service
	fn     *idl.Function
	goName string
	args   *idl.Struct // synthesized args struct (model)
	result *idl.Struct // synthesized result struct (model); nil for oneway
}

type call struct {
	m      *method
	raw    []byte // unknown-method request
	args   []*refsem.Val
	script map[string]any
	kind   string // return | throw | error | raw
	ret    *refsem.Val
	exc    *idl.Field
	excVal *refsem.Val
}

type callResult struct {
	HandlerMethod string        `json:"handler_method"`
	HandlerArgs   []*refsem.Val `json:"handler_args"`
	HandlerCalls  int           `json:"handler_calls"`
	Result        *refsem.Val   `json:"result"`
	ErrType       string        `json:"err_type"`
	ErrText       string        `json:"err_text"`
	ErrVal        *refsem.Val   `json:"err_val"`
	AppExcType    int           `json:"app_exc_type"`
	Req           string        `json:"req"`
	Rep           string        `json:"rep"`
	Panic         string        `json:"panic"`
	Leftover      int           `json:"leftover"`
}

type msg struct {
	name  string
	typ   byte
	seqid int32
	body  []byte
}

func parseMsg(b []byte) (*msg, error) {
	if len(b) < 12 {
		return nil, fmt.Errorf("message too short (%d bytes)", len(b))
	}
	v := binary.BigEndian.Uint32(b)
	if v&0xffff0000 != 0x80010000 {
		return nil, fmt.Errorf("bad version word %08x", v)
	}
	n := int(binary.BigEndian.Uint32(b[4:]))
	if n < 0 || 8+n+4 > len(b) {
		return nil, fmt.Errorf("bad name length %d", n)
	}
	return &msg{name: string(b[8 : 8+n]), typ: byte(v & 0xff), seqid: int32(binary.BigEndian.Uint32(b[8+n:])), body: b[12+n:]}, nil
}

func mkMsg(name string, typ byte, seq int32, body []byte) []byte {
	b := binary.BigEndian.AppendUint32(nil, 0x80010000|uint32(typ))
	b = binary.BigEndian.AppendUint32(b, uint32(len(name)))
	b = append(b, name...)
	b = binary.BigEndian.AppendUint32(b, uint32(seq))
	return append(b, body...)
}

func main() {
	flag.String("replay", "", "unused")
	run := evid.New("C08", "exploration")
	thorough := run.Thorough()
	ses := gen.NewSession(run, "c08")
	defer ses.Close()
	ses.Batch.WithServices = true

	i32, i64, str := idl.T(idl.I32), idl.T(idl.I64), idl.T(idl.String)
	inc := &idl.File{Path: "inc.thrift", Namespaces: []*idl.Namespace{{Lang: "go", Name: "c08.inc"}}}
	incX := &idl.Struct{Cat: "exception", Name: "IncX", Fields: []*idl.Field{fld(1, "why", str)}}
	inc.Add(incX)
	incBase := &idl.Service{Name: "IncBase", Functions: []*idl.Function{{Name: "incPing", Ret: i32, Args: []*idl.Field{fld(1, "a", i32)}, Throws: []*idl.Field{fld(1, "x", idl.StructT(incX))}}}}
	inc.Add(incBase)
	main := &idl.File{Path: "k.thrift", Includes: []*idl.Include{{Path: "inc.thrift", File: inc}}, Namespaces: []*idl.Namespace{{Lang: "go", Name: "c08.k"}}}
	E := &idl.Enum{Name: "E", Values: []*idl.EnumValue{{Name: "A"}, {Name: "B", Value: 5, Explicit: true}}}
	main.Add(E)
	inner := &idl.Struct{Cat: "struct", Name: "Inner", Fields: []*idl.Field{fld(1, "a", i32), {ID: 2, ExplicitID: true, Name: "b", Type: str, Req: idl.ReqOptional}}}
	main.Add(inner)
	x1 := &idl.Struct{Cat: "exception", Name: "X1", Fields: []*idl.Field{fld(1, "code", i32), {ID: 2, ExplicitID: true, Name: "msg", Type: str, Req: idl.ReqOptional}}}
	x2 := &idl.Struct{Cat: "exception", Name: "X2", Fields: []*idl.Field{fld(1, "detail", idl.ListOf(str))}}
	main.Add(x1)
	main.Add(x2)
	td := &idl.Typedef{Name: "TdL", Type: idl.ListOf(idl.StructT(inner))}
	main.Add(td)
	base := &idl.Service{Name: "Base", Extends: incBase, Functions: []*idl.Function{{Name: "baseEcho", Ret: str, Args: []*idl.Field{fld(1, "s", str)}, Throws: []*idl.Field{fld(1, "x", idl.StructT(x1))}}}}
	main.Add(base)
	thr2 := func() []*idl.Field { return []*idl.Field{fld(1, "x", idl.StructT(x1)), fld(2, "y", idl.StructT(x2))} }
	svc := &idl.Service{Name: "Main", Extends: base}
	leafs := []struct {
		n string
		t *idl.Type
	}{{"bool", idl.T(idl.Bool)}, {"byte", idl.T(idl.Byte)}, {"i16", idl.T(idl.I16)}, {"i32", i32}, {"i64", i64}, {"double", idl.T(idl.Double)}, {"string", str}, {"binary", idl.T(idl.Binary)},
		{"enum", idl.EnumT(E)}, {"struct", idl.StructT(inner)}, {"list", idl.ListOf(i32)}, {"liststruct", idl.ListOf(idl.StructT(inner))}, {"set", idl.SetOf(str)}, {"map", idl.MapOf(str, i32)},
		{"mapstruct", idl.MapOf(i32, idl.StructT(inner))}, {"typedef", idl.TypedefT(td)}, {"incexc", idl.StructT(incX)}}
	for _, l := range leafs {
		svc.Functions = append(svc.Functions, &idl.Function{Name: "ret_" + l.n, Ret: l.t, Args: []*idl.Field{fld(1, "a", l.t)}, Throws: thr2()})
	}
	svc.Functions = append(svc.Functions,
		&idl.Function{Name: "v0"},
		&idl.Function{Name: "v1", Args: []*idl.Field{fld(1, "a", i32)}, Throws: []*idl.Field{fld(1, "x", idl.StructT(x1))}},
		&idl.Function{Name: "three", Ret: i64, Args: []*idl.Field{fld(1, "a", i32), {Name: "b", Type: str}, fld(-5, "c", idl.StructT(inner))}, Throws: thr2()},
		&idl.Function{Name: "implicit", Ret: str, Args: []*idl.Field{{Name: "a", Type: i32}, {Name: "b", Type: str}}},
		&idl.Function{Name: "fire", Oneway: true, Args: []*idl.Field{fld(1, "a", i32), fld(2, "b", str)}},
		&idl.Function{Name: "fire0", Oneway: true},
		&idl.Function{Name: "throwsOnly", Throws: []*idl.Field{fld(3, "y", idl.StructT(x2))}},
	)
	main.Add(svc)
	names := &idl.Service{Name: "Names"}
	for i, n := range []string{"type", "func", "range", "Read", "Write", "String", "p", "err", "ctx", "r", "_result", "success", "New", "get_args", "Process", "Client", "select", "a_b", "aB", "url", "nil"} {
		fname := n
		if strings.HasPrefix(n, "_") {
			// a method name with a leading underscore becomes an unexported Go method,
			// which no handler outside the package can implement: used as argument name only
			fname = "m" + n
		}
		names.Functions = append(names.Functions, &idl.Function{Name: fname, Ret: i32, Args: []*idl.Field{fld(1, n, i32), fld(2, "other"+fmt.Sprint(i), str)}, Throws: []*idl.Field{fld(1, "exc", idl.StructT(x1))}})
	}
	main.Add(names)
	prog := &idl.Program{Files: []*idl.File{main, inc}}

	configs := [][]string{nil}
	if thorough {
		configs = append(configs, []string{"naming_style=golint"}, []string{"naming_style=apache"}, []string{"compatible_names"}, []string{"keep_unknown_fields"}, []string{"nil_safe"})
	}
	var items []*gen.Item
	for i, c := range configs {
		items = append(items, ses.Batch.Add(&gen.Item{Key: fmt.Sprintf("s%d", i), Prog: prog, Opts: c, Recurse: true}))
	}
	ses.Start("s0")

	outcomes := map[string]int64{}
	for ci, it := range items {
		if !gen.Usable(it) {
			continue
		}
		// map IDL functions to Go method names by order in the generated interfaces
		goSvc := map[string]*gen.GoService{}
		for _, s := range ses.Batch.Services {
			if s.Item == it {
				goSvc[s.Name] = s
			}
		}
		find := func(sv *idl.Service) *gen.GoService {
			// interface name is discovered by method count + order; names are tried through the known styles
			for _, g := range goSvc {
				if strings.EqualFold(strings.ReplaceAll(g.Name, "_", ""), strings.ReplaceAll(sv.Name, "_", "")) && len(g.Methods) == len(sv.Functions) {
					return g
				}
			}
			return nil
		}
		var methods []*method
		bySvc := map[*idl.Service][]*method{}
		missing := false
		for _, sv := range []*idl.Service{incBase, base, svc, names} {
			g := find(sv)
			if g == nil {
				run.Violate(evid.Violation{Class: "service-interface-missing:" + sv.Name, What: fmt.Sprintf("no generated interface with %d methods for service %s", len(sv.Functions), sv.Name), Replay: map[string]any{"service": sv.Name, "config": configs[ci]}})
				missing = true
				continue
			}
			for i, fn := range sv.Functions {
				m := &method{svc: sv, fn: fn, goName: g.Methods[i].Name}
				m.args = &idl.Struct{Cat: "struct", Name: fn.Name + "_args", Fields: fn.Args}
				if !fn.Oneway {
					m.result = &idl.Struct{Cat: "struct", Name: fn.Name + "_result"}
					if fn.Ret != nil {
						m.result.Fields = append(m.result.Fields, &idl.Field{ID: 0, ExplicitID: true, Name: "success", Type: fn.Ret, Req: idl.ReqOptional})
					}
					for _, t := range fn.Throws {
						c := *t
						c.Req = idl.ReqOptional
						m.result.Fields = append(m.result.Fields, &c)
					}
				}
				methods = append(methods, m)
				bySvc[sv] = append(bySvc[sv], m)
			}
		}
		if missing {
			continue
		}
		mainKey := it.Key + "/" + find(svc).Name
		namesKey := it.Key + "/" + find(names).Name

		argVals := func(m *method, rich bool) [][]*refsem.Val {
			// product over argument domains, capped by taking the i-th value of every argument together
			var doms [][]*refsem.Val
			n := 1
			for _, a := range m.fn.Args {
				d := refsem.Domain(a.Type, 1, rich)
				var d2 []*refsem.Val
				for _, v := range d {
					if v != nil && !(v.T == "n" && a.Type.Final().Kind == idl.StructK) {
						d2 = append(d2, v)
					}
				}
				doms = append(doms, d2)
				if len(d2) > n {
					n = len(d2)
				}
			}
			var out [][]*refsem.Val
			for i := 0; i < n; i++ {
				var vs []*refsem.Val
				for _, d := range doms {
					vs = append(vs, d[i%len(d)])
				}
				out = append(out, vs)
			}
			return out
		}
		excKey := func(f *idl.Field) string { return gen.RegKey(it, f.Type.Final().Struct.Name) }
		mkCalls := func(m *method) []*call {
			var cs []*call
			avs := argVals(m, true)
			// every result value with the first argument vector; every argument vector with the first result
			var rets []*refsem.Val
			if m.fn.Ret != nil {
				for _, v := range refsem.Domain(m.fn.Ret, 1, true) {
					if v != nil && !(v.T == "n" && m.fn.Ret.Final().Kind == idl.StructK) {
						rets = append(rets, v)
					}
				}
			} else {
				rets = []*refsem.Val{nil}
			}
			for i, rv := range rets {
				av := avs[i%len(avs)]
				cs = append(cs, &call{m: m, args: av, kind: "return", ret: rv, script: map[string]any{"kind": "return", "val": rv}})
			}
			for i := len(rets); i < len(avs); i++ {
				cs = append(cs, &call{m: m, args: avs[i], kind: "return", ret: rets[0], script: map[string]any{"kind": "return", "val": rets[0]}})
			}
			if !m.fn.Oneway {
				for _, t := range m.fn.Throws {
					for _, ev := range refsem.StructDomain(t.Type.Final().Struct, 1, true)[:2] {
						cs = append(cs, &call{m: m, args: avs[0], kind: "throw", exc: t, excVal: ev, script: map[string]any{"kind": "throw", "exc": excKey(t), "val": ev}})
					}
				}
				cs = append(cs, &call{m: m, args: avs[0], kind: "error", script: map[string]any{"kind": "error"}})
			} else {
				// a oneway handler that fails: still no reply of any kind
				cs = append(cs, &call{m: m, args: avs[0], kind: "oneway-error", script: map[string]any{"kind": "error"}})
			}
			return cs
		}
		svcKeyOf := func(m *method) string {
			if m.svc == names {
				return namesKey
			}
			return mainKey // Main's client also carries Base and IncBase methods
		}
		// ---- single-call sweep
		type job struct {
			key   string
			calls []*call
		}
		var jobs []job
		for _, m := range methods {
			for _, c := range mkCalls(m) {
				jobs = append(jobs, job{svcKeyOf(m), []*call{c}})
			}
		}
		// ---- call sequences on one connection
		pick := func(name string, kind string) *call {
			for _, m := range methods {
				if m.fn.Name == name {
					for _, c := range mkCalls(m) {
						if c.kind == kind {
							return c
						}
					}
				}
			}
			panic("no call " + name)
		}
		// an unknown method WITH arguments (i32 field 1 = 5, string field 2 = "xy"): the processor must
		// consume them, or the next message on the connection is read out of their bytes
		unknown := &call{kind: "raw", raw: mkMsg("noSuchMethod", 1, 77, []byte{8, 0, 1, 0, 0, 0, 5, 11, 0, 2, 0, 0, 0, 2, 'x', 'y', 0})}
		alphabet := []*call{pick("ret_struct", "return"), pick("v0", "return"), pick("three", "throw"), pick("ret_string", "error"), pick("fire", "return"), pick("fire", "oneway-error"), pick("baseEcho", "return"), pick("incPing", "throw"), unknown}
		depth := 2
		if thorough {
			depth = 3
		}
		var rec func(cur []*call)
		rec = func(cur []*call) {
			if len(cur) >= 2 {
				jobs = append(jobs, job{mainKey, append([]*call{}, cur...)})
			}
			if len(cur) == depth {
				return
			}
			for _, c := range alphabet {
				rec(append(cur, c))
			}
		}
		rec(nil)
		jobs = append(jobs, job{mainKey, []*call{unknown}})

		var reqs []*gen.Req
		for _, j := range jobs {
			var cs []map[string]any
			for _, c := range j.calls {
				if c.kind == "raw" {
					cs = append(cs, map[string]any{"raw": hex.EncodeToString(c.raw)})
				} else {
					cs = append(cs, map[string]any{"method": c.m.goName, "args": c.args, "script": c.script})
				}
			}
			reqs = append(reqs, &gen.Req{Op: "rpc", Args: map[string]any{"service": j.key, "calls": cs}})
		}
		resps := ses.Do(reqs)
		for ji, rs := range resps {
			j := jobs[ji]
			var names []string
			for _, c := range j.calls {
				if c.kind == "raw" {
					names = append(names, "<unknown>")
				} else {
					names = append(names, c.m.fn.Name+":"+c.kind)
				}
			}
			hist := strings.Join(names, ",")
			if rs.Panic != "" || rs.Err != "" {
				if strings.HasPrefix(rs.Err, "harness:") {
					run.Fatal("driver: %s", rs.Err)
				}
				run.Violate(evid.Violation{Class: "rpc-crash:" + hist, What: fmt.Sprintf("history [%s]: %s %s", hist, rs.Panic, rs.Err), Replay: map[string]any{"history": hist, "config": configs[ci]}})
				continue
			}
			raw, _ := json.Marshal(rs.Extra["calls"])
			var crs []*callResult
			_ = json.Unmarshal(raw, &crs)
			if len(crs) != len(j.calls) {
				run.Fatal("driver returned %d results for %d calls", len(crs), len(j.calls))
			}
			var lastSeq int32 = -1 << 30
			okAll := true
			for k, c := range j.calls {
				cr := crs[k]
				v := func(class, what string) {
					okAll = false
					rp := map[string]any{"history": hist, "call_index": k, "config": configs[ci], "request": cr.Req, "reply": cr.Rep}
					if c.m != nil {
						rp["method"] = c.m.fn.Name
						rp["args"] = c.args
						rp["script"] = c.script
					}
					run.Violate(evid.Violation{Class: class, What: fmt.Sprintf("history [%s] call %d: %s", hist, k, what), Replay: rp})
				}
				if cr.Panic != "" {
					v("panic:"+names[k], "panicked: "+cr.Panic)
					continue
				}
				if cr.ErrType == "harness" {
					run.Fatal("driver: %s", cr.ErrText)
				}
				req, _ := hex.DecodeString(cr.Req)
				rep, _ := hex.DecodeString(cr.Rep)
				if cr.Leftover != 0 {
					v("request-bytes-left-unread:"+names[k], fmt.Sprintf("the processor left %d byte(s) of the request unread on the connection", cr.Leftover))
					continue
				}
				if c.kind == "raw" {
					pm, err := parseMsg(rep)
					if err != nil || pm.typ != 3 {
						v("unknown-method-no-exception", fmt.Sprintf("unknown method name: reply is not an EXCEPTION message (%v, %x)", err, rep))
					} else if pm.seqid != 77 {
						v("unknown-method-seqid", fmt.Sprintf("exception reply to an unknown method has seqid %d, request had 77", pm.seqid))
					}
					continue
				}
				m := c.m
				// --- handler side
				if cr.HandlerCalls != 1 {
					v("handler-calls:"+m.fn.Name, fmt.Sprintf("handler was called %d times", cr.HandlerCalls))
					continue
				}
				if !strings.HasSuffix(cr.HandlerMethod, "."+m.goName) {
					v("dispatch-wrong-method:"+m.fn.Name, fmt.Sprintf("call of %s reached handler method %s", m.fn.Name, cr.HandlerMethod))
					continue
				}
				if len(cr.HandlerArgs) != len(m.fn.Args) {
					v("handler-argc:"+m.fn.Name, fmt.Sprintf("handler got %d arguments, IDL has %d", len(cr.HandlerArgs), len(m.fn.Args)))
					continue
				}
				badArg := false
				for ai, a := range m.fn.Args {
					want := refsem.CompleteValue(a.Type, c.args[ai])
					if d := refsem.Same(a.Type, want, cr.HandlerArgs[ai]); d != "" {
						v("handler-arg-value:"+m.fn.Name, fmt.Sprintf("argument %s: %s (passed / seen by handler)", a.Name, d))
						badArg = true
						break
					}
				}
				if badArg {
					continue
				}
				// --- wire: request
				qm, err := parseMsg(req)
				if err != nil {
					v("request-malformed:"+m.fn.Name, err.Error())
					continue
				}
				// a oneway request may be CALL or ONEWAY: the pinned runtime (apache/thrift
				// v0.13.0 TStandardClient.Send) writes CALL for every request, the generated
				// code does not choose
				if qm.name != m.fn.Name || !(qm.typ == 1 || (m.fn.Oneway && qm.typ == 4)) {
					v("request-header:"+m.fn.Name, fmt.Sprintf("request header <%q, type %d>, want <%q, CALL%s>", qm.name, qm.typ, m.fn.Name, map[bool]string{true: " or ONEWAY", false: ""}[m.fn.Oneway]))
					continue
				}
				if qm.seqid <= lastSeq {
					v("seqid-not-increasing", fmt.Sprintf("request seqid %d after %d", qm.seqid, lastSeq))
				}
				lastSeq = qm.seqid
				argObj := refsem.Obj()
				ids := refsem.FieldIDs(m.fn.Args)
				for ai := range m.fn.Args {
					argObj.Set(ids[ai], c.args[ai])
				}
				dec, unk, err := refsem.DecodeStruct(m.args.Fields, qm.body)
				if err != nil || len(unk) > 0 {
					v("request-args-undecodable:"+m.fn.Name, fmt.Sprintf("args struct does not decode with the IDL ids: %v unknown=%v", err, unk))
					continue
				}
				if d := refsem.SameStruct(m.args, refsem.CompleteValue(idl.StructT(m.args), argObj), dec); d != "" {
					v("request-args-value:"+m.fn.Name, "args struct on the wire: "+d)
					continue
				}
				// --- oneway: no reply
				if m.fn.Oneway {
					if len(rep) != 0 {
						v("oneway-reply:"+m.fn.Name, fmt.Sprintf("oneway call produced %d reply bytes", len(rep)))
					} else if cr.ErrType != "" {
						v("oneway-error:"+m.fn.Name, "oneway call returned an error: "+cr.ErrText)
					}
					continue
				}
				pm, err := parseMsg(rep)
				if err != nil {
					v("reply-malformed:"+m.fn.Name, err.Error())
					continue
				}
				if pm.name != m.fn.Name || pm.seqid != qm.seqid {
					v("reply-header:"+m.fn.Name, fmt.Sprintf("reply <%q, seq %d> to request <%q, seq %d>", pm.name, pm.seqid, qm.name, qm.seqid))
					continue
				}
				switch c.kind {
				case "return":
					if cr.ErrType != "" {
						v("unexpected-error:"+m.fn.Name, fmt.Sprintf("caller got %s: %s", cr.ErrType, cr.ErrText))
						continue
					}
					if pm.typ != 2 {
						v("reply-type:"+m.fn.Name, fmt.Sprintf("reply message type %d, want REPLY(2)", pm.typ))
						continue
					}
					rdec, runk, err := refsem.DecodeStruct(m.result.Fields, pm.body)
					if err != nil || len(runk) > 0 {
						v("result-undecodable:"+m.fn.Name, fmt.Sprintf("result struct does not decode (success=0, exceptions by IDL id): %v unknown=%v", err, runk))
						continue
					}
					if m.fn.Ret != nil {
						want := refsem.CompleteValue(m.fn.Ret, c.ret)
						if d := refsem.Same(m.fn.Ret, want, cr.Result); d != "" && !(want.IsNilish() && cr.Result.IsNilish()) {
							v("result-value:"+m.fn.Name, "caller's result: "+d+" (scripted / received)")
							continue
						}
						if got := rdec.Get(0); got == nil && !want.IsNilish() {
							v("result-success-missing:"+m.fn.Name, "result struct has no field 0 (success)")
							continue
						}
					}
				case "throw":
					if pm.typ != 2 {
						v("reply-type:"+m.fn.Name, fmt.Sprintf("declared exception: reply message type %d, want REPLY(2)", pm.typ))
						continue
					}
					if cr.ErrVal == nil {
						v("exception-lost:"+m.fn.Name, fmt.Sprintf("handler returned declared exception %s, caller got %q (%s)", c.exc.Type.Final().Struct.Name, cr.ErrType, cr.ErrText))
						continue
					}
					es := c.exc.Type.Final().Struct
					if !strings.HasSuffix(strings.ToLower(strings.ReplaceAll(cr.ErrType, "_", "")), strings.ToLower(es.Name)) {
						v("exception-type:"+m.fn.Name, fmt.Sprintf("caller got %s, handler returned %s", cr.ErrType, es.Name))
						continue
					}
					if d := refsem.SameStruct(es, refsem.Complete(es, c.excVal), cr.ErrVal); d != "" {
						v("exception-fields:"+m.fn.Name, "exception fields: "+d)
						continue
					}
					rdec, _, err := refsem.DecodeStruct(m.result.Fields, pm.body)
					if err != nil || rdec.Get(c.exc.ID) == nil {
						v("exception-wire-id:"+m.fn.Name, fmt.Sprintf("result struct does not carry the exception under its IDL id %d (%v)", c.exc.ID, err))
						continue
					}
					// the result is a union in spirit: the reply to a call that threw carries that exception and nothing else
					if len(rdec.O) != 1 {
						var ids []string
						for k := range rdec.O {
							ids = append(ids, k)
						}
						sort.Strings(ids)
						v("reply-carries-more-than-the-exception:"+m.fn.Name, fmt.Sprintf("the handler returned the declared exception (field %d); the REPLY's result struct carries fields %v", c.exc.ID, ids))
						continue
					}
				case "error":
					if pm.typ != 3 {
						v("undeclared-error-reply-type:"+m.fn.Name, fmt.Sprintf("undeclared handler error: reply message type %d, want EXCEPTION(3)", pm.typ))
						continue
					}
					if !strings.Contains(cr.ErrType, "pplicationException") {
						v("undeclared-error-not-application-exception:"+m.fn.Name, fmt.Sprintf("caller got %q (%s)", cr.ErrType, cr.ErrText))
						continue
					}
				}
			}
			run.Eval(fmt.Sprintf("%d|%s|%d", ci, hist, ji), true)
			if okAll {
				outcomes[fmt.Sprintf("history-len-%d-ok", len(j.calls))]++
			}
		}
		run.Add("histories", int64(len(jobs)))
		run.Add("methods", int64(len(methods)))
	}
	run.Set("configurations", len(configs))
	run.Set("outcome_classes", outcomes)
	run.Sample(map[string]any{"history": "ret_struct:return,three:throw,<unknown>", "note": "each call: arguments, scripted outcome, captured request / reply bytes"})
	run.Sample(map[string]any{"service": "Names", "methods": "type func range Read Write String p err ctx r _result success New get_args Process Client select a_b aB url nil"})
	run.Set("rule", "one evaluation = one call history executed through the generated client and processor; all histories reach the handler or are rejected, so all are non-trivial")
	run.Assume("the handler is generated by the harness from the generated interface's AST; the transport invokes the processor synchronously at Flush")
	run.Finish()
}
