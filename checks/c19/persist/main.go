// c19 persist: the real Generator.Persist with the real Go back end as
// post-processor, on every response of a small alphabet of file kinds
// (sequences up to length 3, no_fmt on / off): success must mean that every
// file is on disk, complete, with its own content (gofmt'ed iff it is a Go
// file that parses and formatting is on).
package main

import (
	"encoding/json"
	"fmt"
	"go/format"
	"os"
	"path/filepath"

	"github.com/cloudwego/thriftgo/generator"
	"github.com/cloudwego/thriftgo/generator/backend"
	"github.com/cloudwego/thriftgo/generator/golang"
	"github.com/cloudwego/thriftgo/parser"
	"github.com/cloudwego/thriftgo/plugin"
)

type kind struct {
	name    string
	file    string
	content string
}

type viol struct {
	Class  string         `json:"class"`
	What   string         `json:"what"`
	Replay map[string]any `json:"replay"`
}

func main() {
	root := os.Args[1]
	kinds := []kind{
		{"formatted-go", "a.go", "package a\n\nfunc F() {}\n"},
		{"unformatted-go", "b.go", "package b\nfunc   G( ) {  }\n"},
		{"invalid-go", "c.go", "package c\n\nfunc {\n// a plugin wrote something gofmt cannot parse\n"},
		{"text", "d.txt", "not go  at all {\n"},
		{"empty-go", "e.go", ""},
	}
	var seqs [][]int
	for l := 1; l <= 3; l++ {
		idx := make([]int, l)
		var rec func(p int)
		rec = func(p int) {
			if p == l {
				seqs = append(seqs, append([]int{}, idx...))
				return
			}
			for i := range kinds {
				idx[p] = i
				rec(p + 1)
			}
		}
		rec(0)
	}
	quiet := backend.DummyLogFunc()
	var viols []viol
	evals := 0
	n := 0
	for _, noFmt := range []bool{false, true} {
		g := new(generator.Generator)
		if err := g.RegisterBackend(new(golang.GoBackend)); err != nil {
			panic(err)
		}
		ast, err := parser.ParseString("z.thrift", "namespace go z\nstruct Z { 1: i32 a }\n")
		if err != nil {
			panic(err)
		}
		var opts []plugin.Option
		if noFmt {
			opts = append(opts, plugin.Option{Name: "no_fmt"})
		}
		req := &plugin.Request{Version: "v", OutputPath: filepath.Join(root, "warmup"), AST: ast, Language: "go"}
		res := g.Generate(&generator.Arguments{Out: &generator.LangSpec{Language: "go", Options: opts}, Req: req, Log: quiet})
		if res.GetError() != "" {
			panic(res.GetError())
		}
		for _, seq := range seqs {
			n++
			dir := filepath.Join(root, fmt.Sprint(n))
			r := plugin.NewResponse()
			want := map[string]string{}
			var names []string
			for pos, ki := range seq {
				k := kinds[ki]
				p := filepath.Join(dir, fmt.Sprintf("f%d", pos), k.file)
				c := k.content + fmt.Sprintf("// %d\n", pos) // own content per file
				if k.name == "empty-go" {
					c = ""
				}
				name := p
				r.Contents = append(r.Contents, &plugin.Generated{Name: &name, Content: c})
				w := c
				if !noFmt && filepath.Ext(p) == ".go" {
					if f, err := format.Source([]byte(c)); err == nil {
						w = string(f)
					}
				}
				want[p] = w
				names = append(names, k.name)
			}
			evals++
			err := g.Persist(r)
			rp := map[string]any{"no_fmt": noFmt, "files": names}
			if err != nil {
				viols = append(viols, viol{"persist-fails-on-writable-files", fmt.Sprintf("Persist(%v, no_fmt=%v) fails: %v", names, noFmt, err), rp})
				os.RemoveAll(dir)
				continue
			}
			for p, w := range want {
				b, err := os.ReadFile(p)
				if err != nil {
					viols = append(viols, viol{"success-but-file-missing", fmt.Sprintf("Persist(%v, no_fmt=%v) returns success but %s is not on disk", names, noFmt, filepath.Base(p)), rp})
					break
				}
				if string(b) != w {
					viols = append(viols, viol{"success-but-content-wrong:" + filepath.Base(p), fmt.Sprintf("Persist(%v, no_fmt=%v) returns success but %s holds %q, its content is %q", names, noFmt, filepath.Base(p), clip(string(b)), clip(w)), rp})
					break
				}
			}
			os.RemoveAll(dir)
		}
	}
	json.NewEncoder(os.Stdout).Encode(map[string]any{"evaluations": evals, "violations": viols})
}

func clip(s string) string {
	if len(s) > 80 {
		return s[:80] + "..."
	}
	return s
}
