// c19 persist: the real Generator.Persist with the real Go back end as
// post-processor, on every response of a small alphabet of file kinds
// (sequences up to length 3, no_fmt on / off): success must mean that every
// file is on disk, complete, with its own content (gofmt'ed iff it is a Go
// file that parses and formatting is on).
package main

import (
	"encoding/json"
	"fmt"
	"go/format"
	"os"
	"path/filepath"

	"github.com/cloudwego/thriftgo/generator"
	"github.com/cloudwego/thriftgo/generator/backend"
	"github.com/cloudwego/thriftgo/generator/golang"
	"github.com/cloudwego/thriftgo/parser"
	"github.com/cloudwego/thriftgo/plugin"
	"github.com/cloudwego/thriftgo/utils/dir_utils"
)

type kind struct {
	name    string
	file    string
	content string
}

type viol struct {
	Class  string         `json:"class"`
	What   string         `json:"what"`
	Replay map[string]any `json:"replay"`
}

func main() {
	root := os.Args[1]
	kinds := []kind{
		{"formatted-go", "a.go", "package a\n\nfunc F() {}\n"},
		{"unformatted-go", "b.go", "package b\nfunc   G( ) {  }\n"},
		{"invalid-go", "c.go", "package c\n\nfunc {\n// a plugin wrote something gofmt cannot parse\n"},
		{"text", "d.txt", "not go  at all {\n"},
		{"empty-go", "e.go", ""},
	}
	var seqs [][]int
	for l := 1; l <= 3; l++ {
		idx := make([]int, l)
		var rec func(p int)
		rec = func(p int) {
			if p == l {
				seqs = append(seqs, append([]int{}, idx...))
				return
			}
			for i := range kinds {
				idx[p] = i
				rec(p + 1)
			}
		}
		rec(0)
	}
	quiet := backend.DummyLogFunc()
	var viols []viol
	evals := 0
	n := 0
	for _, noFmt := range []bool{false, true} {
		g := new(generator.Generator)
		if err := g.RegisterBackend(new(golang.GoBackend)); err != nil {
			panic(err)
		}
		ast, err := parser.ParseString("z.thrift", "namespace go z\nstruct Z { 1: i32 a }\n")
		if err != nil {
			panic(err)
		}
		var opts []plugin.Option
		if noFmt {
			opts = append(opts, plugin.Option{Name: "no_fmt"})
		}
		req := &plugin.Request{Version: "v", OutputPath: filepath.Join(root, "warmup"), AST: ast, Language: "go"}
		res := g.Generate(&generator.Arguments{Out: &generator.LangSpec{Language: "go", Options: opts}, Req: req, Log: quiet})
		if res.GetError() != "" {
			panic(res.GetError())
		}
		for _, seq := range seqs {
			n++
			dir := filepath.Join(root, fmt.Sprint(n))
			r := plugin.NewResponse()
			want := map[string]string{}
			var names []string
			for pos, ki := range seq {
				k := kinds[ki]
				p := filepath.Join(dir, fmt.Sprintf("f%d", pos), k.file)
				c := k.content + fmt.Sprintf("// %d\n", pos) // own content per file
				if k.name == "empty-go" {
					c = ""
				}
				name := p
				r.Contents = append(r.Contents, &plugin.Generated{Name: &name, Content: c})
				w := c
				if !noFmt && filepath.Ext(p) == ".go" {
					if f, err := format.Source([]byte(c)); err == nil {
						w = string(f)
					}
				}
				want[p] = w
				names = append(names, k.name)
			}
			evals++
			err := g.Persist(r)
			rp := map[string]any{"no_fmt": noFmt, "files": names}
			if err != nil {
				viols = append(viols, viol{"persist-fails-on-writable-files", fmt.Sprintf("Persist(%v, no_fmt=%v) fails: %v", names, noFmt, err), rp})
				os.RemoveAll(dir)
				continue
			}
			for p, w := range want {
				b, err := os.ReadFile(p)
				if err != nil {
					viols = append(viols, viol{"success-but-file-missing", fmt.Sprintf("Persist(%v, no_fmt=%v) returns success but %s is not on disk", names, noFmt, filepath.Base(p)), rp})
					break
				}
				if string(b) != w {
					viols = append(viols, viol{"success-but-content-wrong:" + filepath.Base(p), fmt.Sprintf("Persist(%v, no_fmt=%v) returns success but %s holds %q, its content is %q", names, noFmt, filepath.Base(p), clip(string(b)), clip(w)), rp})
					break
				}
			}
			os.RemoveAll(dir)
		}
	}
	// SDK mode: an announced working directory (dir_utils.SetGlobalwd) that is not the process's, and
	// relative file names: every file belongs under the announced directory
	{
		wd := filepath.Join(root, "announced")
		cwd := filepath.Join(root, "process-cwd")
		os.MkdirAll(wd, 0o755)
		os.MkdirAll(cwd, 0o755)
		old, _ := os.Getwd()
		os.Chdir(cwd)
		dir_utils.SetGlobalwd(wd)
		g := new(generator.Generator)
		g.RegisterBackend(new(golang.GoBackend))
		ast, _ := parser.ParseString("z.thrift", "namespace go z\nstruct Z { 1: i32 a }\n")
		req := &plugin.Request{Version: "v", OutputPath: "warmup", AST: ast, Language: "go"}
		res := g.Generate(&generator.Arguments{Out: &generator.LangSpec{Language: "go"}, Req: req, Log: quiet})
		if res.GetError() == "" {
			for _, seq := range seqs {
				if len(seq) > 2 {
					continue
				}
				r := plugin.NewResponse()
				want := map[string]string{}
				var names []string
				for pos, ki := range seq {
					k := kinds[ki]
					rel := filepath.Join("gen", fmt.Sprintf("s%d", evals), fmt.Sprintf("f%d", pos), k.file)
					c := k.content + fmt.Sprintf("// %d\n", pos)
					if k.name == "empty-go" {
						c = ""
					}
					name := rel
					r.Contents = append(r.Contents, &plugin.Generated{Name: &name, Content: c})
					w := c
					if filepath.Ext(rel) == ".go" {
						if f, err := format.Source([]byte(c)); err == nil {
							w = string(f)
						}
					}
					want[rel] = w
					names = append(names, k.name)
				}
				evals++
				rp := map[string]any{"announced_wd": "announced", "process_cwd": "process-cwd", "files": names, "relative_names": true}
				if err := g.Persist(r); err != nil {
					viols = append(viols, viol{"persist-fails-on-writable-files:sdk-wd", fmt.Sprintf("Persist(%v) with an announced working directory fails: %v", names, err), rp})
					continue
				}
				for rel, w := range want {
					b, err := os.ReadFile(filepath.Join(wd, rel))
					if err != nil {
						where := "nowhere"
						if _, e2 := os.Stat(filepath.Join(cwd, rel)); e2 == nil {
							where = "under the process's working directory"
						}
						viols = append(viols, viol{"success-but-file-not-under-announced-wd", fmt.Sprintf("Persist(%v) returns success; %s is not under the announced working directory (found %s)", names, rel, where), rp})
						break
					}
					if string(b) != w {
						viols = append(viols, viol{"success-but-content-wrong:sdk-wd", fmt.Sprintf("%s under the announced directory holds %q, want %q", rel, clip(string(b)), clip(w)), rp})
						break
					}
				}
			}
		}
		os.Chdir(old)
	}
	json.NewEncoder(os.Stdout).Encode(map[string]any{"evaluations": evals, "violations": viols})
}

func clip(s string) string {
	if len(s) > 80 {
		return s[:80] + "..."
	}
	return s
}
