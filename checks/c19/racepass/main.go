// Free-running pass for C19: the *unrewritten* OnFinished / Generator.Persist
// executed many times on real goroutines under the race detector. Sampling —
// it does not decide the property; it complements the cooperative scheduler,
// whose hand-offs are happens-before edges that would hide data races.
package main

import (
	"encoding/json"
	"flag"
	"fmt"
	"os"
	"path/filepath"
	"runtime"
	"sort"
	"sync"
	"sync/atomic"

	"github.com/cloudwego/thriftgo/generator"
	"github.com/cloudwego/thriftgo/generator/backend"
	"github.com/cloudwego/thriftgo/plugin"
)

type env struct {
	mu       sync.Mutex
	n        int
	outcome  []int
	returned atomic.Bool
	writes   map[string][]string
	failures []error
	late     int
	ppErr    []error
	wErr     []error
}

func (e *env) PostProcess(path string, content []byte) ([]byte, error) {
	runtime.Gosched()
	if e.returned.Load() {
		e.mu.Lock()
		e.late++
		e.mu.Unlock()
	}
	var i int
	fmt.Sscanf(path, "p%d", &i)
	if e.outcome[i] == 1 {
		e.mu.Lock()
		e.failures = append(e.failures, e.ppErr[i])
		e.mu.Unlock()
		return nil, e.ppErr[i]
	}
	out := append([]byte("pp("), content...)
	return append(out, ')'), nil
}

func (e *env) write(path string, content []byte) error {
	runtime.Gosched()
	if e.returned.Load() {
		e.mu.Lock()
		e.late++
		e.mu.Unlock()
	}
	var i int
	fmt.Sscanf(path, "p%d", &i)
	e.mu.Lock()
	defer e.mu.Unlock()
	e.writes[path] = append(e.writes[path], string(content))
	if e.outcome[i] == 2 {
		e.failures = append(e.failures, e.wErr[i])
		return e.wErr[i]
	}
	return nil
}

type viol struct {
	Class string `json:"class"`
	What  string `json:"what"`
}

func main() {
	iters := flag.Int("iters", 100, "iterations per scenario")
	flag.Parse()
	var runs int
	var viols []viol
	add := func(c, w string) {
		if len(viols) < 5 {
			viols = append(viols, viol{c, w})
		}
	}
	for _, procs := range []int{1, 2, 4, 16} {
		runtime.GOMAXPROCS(procs)
		for n := 0; n <= 5; n++ {
			for c := 1; c <= 3; c++ {
				for it := 0; it < *iters/10+1; it++ {
					oc := make([]int, n)
					x := it
					for i := range oc {
						oc[i] = x % 3
						x /= 3
					}
					e := &env{n: n, outcome: oc, writes: map[string][]string{}}
					paths, contents := make([]string, n), make([]string, n)
					for i := 0; i < n; i++ {
						paths[i], contents[i] = fmt.Sprintf("p%d", i), fmt.Sprintf("c%d", i)
						e.ppErr = append(e.ppErr, fmt.Errorf("pp-fail-%d", i))
						e.wErr = append(e.wErr, fmt.Errorf("write-fail-%d", i))
					}
					var pp backend.PostProcessor = e
					ret := generator.VerifOnFinished(pp, c, paths, contents, e.write)
					e.returned.Store(true)
					runs++
					runtime.Gosched()
					e.mu.Lock()
					if e.late > 0 {
						add("work-after-return", "a post-process or write ran after OnFinished returned")
					}
					if ret == nil {
						if len(e.failures) > 0 {
							add("error-lost", "a step failed but OnFinished returned nil")
						}
						for i := 0; i < n; i++ {
							w := e.writes[paths[i]]
							if len(w) != 1 || w[0] != "pp(c"+fmt.Sprint(i)+")" {
								add("success-but-incomplete", fmt.Sprintf("nil returned, writes of %s = %v", paths[i], w))
							}
						}
					} else if len(e.failures) == 0 {
						add("spurious-error", "no step failed but an error was returned")
					}
					e.mu.Unlock()
				}
			}
		}
	}
	// Generator.Persist on a real directory: path handling
	dir, err := os.MkdirTemp("", "verif-c19-persist-")
	if err == nil {
		defer os.RemoveAll(dir)
		g := &generator.Generator{}
		generator.VerifSetLog(g)
		res := plugin.NewResponse()
		var names []string
		for i := 0; i < 40; i++ {
			nm := filepath.Join(dir, fmt.Sprintf("d%d", i%7), fmt.Sprintf("f%d.txt", i))
			names = append(names, nm)
			n := nm
			res.Contents = append(res.Contents, &plugin.Generated{Name: &n, Content: fmt.Sprintf("content-%d", i)})
		}
		if err := g.Persist(res); err != nil {
			add("persist-error", err.Error())
		}
		sort.Strings(names)
		for _, nm := range names {
			b, err := os.ReadFile(nm)
			var i int
			fmt.Sscanf(filepath.Base(nm), "f%d.txt", &i)
			if err != nil || string(b) != fmt.Sprintf("content-%d", i) {
				add("persist-content", fmt.Sprintf("%s: %q %v", nm, b, err))
			}
		}
		// empty name => error before any write
		res2 := plugin.NewResponse()
		ok := filepath.Join(dir, "later.txt")
		empty := ""
		res2.Contents = append(res2.Contents, &plugin.Generated{Name: &empty, Content: "x"}, &plugin.Generated{Name: &ok, Content: "y"})
		if err := g.Persist(res2); err == nil {
			add("persist-empty-name", "Persist accepted an item without a name")
		}
		runs += 2
	}
	b, _ := json.Marshal(map[string]any{"runs": runs, "violations": viols})
	fmt.Println(string(b))
}
