// C19 worker: explores every schedule of the real (mechanically rewritten)
// asyncPostProcess.OnFinished for a list of scenarios read from stdin (JSON
// lines) and prints one JSON result per scenario.
package main

import (
	"bufio"
	"crypto/sha256"
	"encoding/json"
	"errors"
	"flag"
	"fmt"
	"os"
	"sort"
	"strings"

	"github.com/cloudwego/thriftgo/generator"
	"github.com/cloudwego/thriftgo/generator/backend"
	vs "github.com/cloudwego/thriftgo/verifvs"
)

// Scenario is one closed system: n jobs, a concurrency limit, an outcome per job.
type Scenario struct {
	N       int    `json:"n"`
	C       int    `json:"c"`
	Outcome []int  `json:"outcome"` // 0 ok, 1 post-process fails, 2 write fails
	PPNil   bool   `json:"pp_nil"`
	Mode    string `json:"mode"`  // "bounded" | "unbounded"
	Bound   int    `json:"bound"` // preemption bound for "bounded"
	// Replay, when set, runs exactly this choice list.
	Replay  []int `json:"replay,omitempty"`
	MaxExec int64 `json:"max_exec,omitempty"`
}

type Viol struct {
	Class   string   `json:"class"`
	What    string   `json:"what"`
	Choices []int    `json:"choices"`
	Trace   []string `json:"trace"`
}

type Result struct {
	Scenario    Scenario         `json:"scenario"`
	Schedules   int64            `json:"schedules"`
	Transitions int64            `json:"transitions"`
	States      int64            `json:"states"`
	Pruned      int64            `json:"pruned"`
	MaxPoints   int              `json:"max_points"`
	MaxThreads  int              `json:"max_threads"`
	Contended   int64            `json:"contended"` // schedules where >=2 threads were enabled at some point
	Outcomes    map[string]int64 `json:"outcomes"`
	Violations  []Viol           `json:"violations"`
	ViolCount   map[string]int64 `json:"viol_count"`
	Complete    bool             `json:"complete"`
	SampleTrace []string         `json:"sample_trace"`
	Err         string           `json:"err,omitempty"`
}

type write struct{ path, content string }

type env struct {
	sc       Scenario
	returned bool
	ret      error
	writes   []write
	ppCalls  []string
	late     []string
	failures []error
	ppErrs   []error
	wErrs    []error
}

type pproc struct{ e *env }

func (p pproc) PostProcess(path string, content []byte) ([]byte, error) {
	e := p.e
	vs.Point("pp:" + path + ":" + string(content))
	if e.returned {
		e.late = append(e.late, "post-process of "+path+" after OnFinished returned")
	}
	e.ppCalls = append(e.ppCalls, path)
	if i := e.job(path); i >= 0 && e.sc.Outcome[i] == 1 {
		e.failures = append(e.failures, e.ppErrs[i])
		return nil, e.ppErrs[i]
	}
	return []byte("pp(" + string(content) + ")"), nil
}

func (e *env) job(path string) int {
	for i := 0; i < e.sc.N; i++ {
		if path == fmt.Sprintf("p%d", i) {
			return i
		}
	}
	return -1
}

func (e *env) write(path string, content []byte) error {
	vs.Point("write:" + path + ":" + string(content))
	if e.returned {
		e.late = append(e.late, "write of "+path+" after OnFinished returned")
	}
	e.writes = append(e.writes, write{path, string(content)})
	if i := e.job(path); i >= 0 && e.sc.Outcome[i] == 2 {
		e.failures = append(e.failures, e.wErrs[i])
		return e.wErrs[i]
	}
	return nil
}

func (e *env) key() string {
	// multiset of completed writes / post-process calls / failures, plus return state
	w := make([]string, 0, len(e.writes))
	for _, x := range e.writes {
		w = append(w, x.path+"="+x.content)
	}
	sort.Strings(w)
	p := append([]string{}, e.ppCalls...)
	sort.Strings(p)
	f := make([]string, 0, len(e.failures))
	for _, x := range e.failures {
		f = append(f, x.Error())
	}
	sort.Strings(f)
	r := "-"
	if e.returned {
		r = fmt.Sprint(e.ret)
	}
	return fmt.Sprintf("E[%v|%v|%v|%s|%d]", w, p, f, r, len(e.late))
}

func newEnv(sc Scenario) *env {
	e := &env{sc: sc}
	for i := 0; i < sc.N; i++ {
		e.ppErrs = append(e.ppErrs, fmt.Errorf("pp-fail-%d", i))
		e.wErrs = append(e.wErrs, fmt.Errorf("write-fail-%d", i))
	}
	return e
}

func runOnce(sc Scenario, wantKeys bool, choose vs.Chooser) (*vs.Exec, *env) {
	e := newEnv(sc)
	paths := make([]string, sc.N)
	contents := make([]string, sc.N)
	for i := range paths {
		paths[i] = fmt.Sprintf("p%d", i)
		contents[i] = fmt.Sprintf("c%d", i)
	}
	var pp backend.PostProcessor
	if !sc.PPNil {
		pp = pproc{e}
	}
	x := vs.Run(func() {
		r := generator.VerifOnFinished(pp, sc.C, paths, contents, e.write)
		e.returned = true
		e.ret = r
	}, e.key, wantKeys, choose)
	return x, e
}

// judge is the oracle, applied to every complete execution.
func judge(sc Scenario, x *vs.Exec, e *env) (class, what string) {
	if x.Hung {
		return "", "" // reported as harness limitation by caller
	}
	if len(x.Panics) > 0 {
		return "panic", strings.Join(x.Panics, "; ")
	}
	if x.Deadlock {
		return "deadlock", "no thread can run: " + strings.Join(x.Blocked, ", ")
	}
	if len(e.late) > 0 {
		return "work-after-return", e.late[0]
	}
	if !e.returned {
		return "no-return", "OnFinished never returned"
	}
	expect := func(i int) string {
		c := fmt.Sprintf("c%d", i)
		if !sc.PPNil {
			return "pp(" + c + ")"
		}
		return c
	}
	seen := map[string]int{}
	for _, w := range e.writes {
		i := e.job(w.path)
		if i < 0 {
			return "foreign-path", fmt.Sprintf("write to %q which is no job's path", w.path)
		}
		seen[w.path]++
		if seen[w.path] > 1 {
			return "double-write", fmt.Sprintf("%s written twice", w.path)
		}
		if w.content != expect(i) {
			return "content-mixed", fmt.Sprintf("%s written with %q, want %q", w.path, w.content, expect(i))
		}
	}
	ppSeen := map[string]int{}
	for _, p := range e.ppCalls {
		ppSeen[p]++
		if ppSeen[p] > 1 {
			return "double-postprocess", p + " post-processed twice"
		}
	}
	if e.ret == nil {
		if len(e.failures) > 0 {
			return "error-lost", fmt.Sprintf("a step failed (%v) but OnFinished returned nil", e.failures[0])
		}
		for i := 0; i < sc.N; i++ {
			if seen[fmt.Sprintf("p%d", i)] != 1 {
				return "success-but-incomplete", fmt.Sprintf("OnFinished returned nil but p%d was not written", i)
			}
		}
		return "", ""
	}
	// non-nil return
	if len(e.failures) == 0 {
		return "spurious-error", fmt.Sprintf("no step failed but OnFinished returned %v", e.ret)
	}
	ok := false
	for _, f := range e.failures {
		if errors.Is(e.ret, f) || e.ret == f {
			ok = true
		}
	}
	if !ok {
		return "wrong-error", fmt.Sprintf("returned error %v is none of the injected failures %v", e.ret, e.failures)
	}
	return "", ""
}

func outcomeOf(e *env) string {
	w := make([]string, 0, len(e.writes))
	for _, x := range e.writes {
		w = append(w, x.path)
	}
	sort.Strings(w)
	return fmt.Sprintf("ret=%v writes=%v", e.ret, w)
}

type explorer struct {
	sc      Scenario
	res     *Result
	visited map[[16]byte]struct{}
	prune   bool
	bound   int
	limit   int64
	stop    bool
}

func (ex *explorer) record(x *vs.Exec, e *env) {
	r := ex.res
	r.Schedules++
	if len(x.Points) > r.MaxPoints {
		r.MaxPoints = len(x.Points)
	}
	if x.NumThreads() > r.MaxThreads {
		r.MaxThreads = x.NumThreads()
	}
	cont := false
	for _, p := range x.Points {
		tids := map[int]bool{}
		for _, a := range p.Alts {
			tids[a.Tid] = true
		}
		if len(tids) >= 2 {
			cont = true
			break
		}
	}
	if cont {
		r.Contended++
	}
	if x.Aborted {
		r.Pruned++
		return
	}
	if x.Hung {
		r.Err = "a thread ran 120 s without reaching a scheduling point (unmodelled blocking or spin)"
		ex.stop = true
		return
	}
	r.Outcomes[outcomeOf(e)]++
	if r.SampleTrace == nil {
		r.SampleTrace = append([]string{}, x.Trace...)
	}
	if class, what := judge(ex.sc, x, e); class != "" {
		r.ViolCount[class]++
		if r.ViolCount[class] <= 2 {
			r.Violations = append(r.Violations, Viol{class, what, append([]int{}, x.Choices...), append([]string{}, x.Trace...)})
		}
	}
}

func k16(s string) [16]byte {
	h := sha256.Sum256([]byte(s))
	var k [16]byte
	copy(k[:], h[:16])
	return k
}

// run replays prefix, then always takes alternative 0. In pruning mode a
// decision point beyond the prefix whose state key was seen before aborts.
func (ex *explorer) run(prefix []int) (*vs.Exec, *env) {
	i := 0
	x, e := runOnce(ex.sc, ex.prune, func(x *vs.Exec, p *vs.PointInfo) int {
		defer func() { i++ }()
		if i < len(prefix) {
			if prefix[i] >= len(p.Alts) {
				panic(fmt.Sprintf("replay divergence at point %d: choice %d of %d", i, prefix[i], len(p.Alts)))
			}
			return prefix[i]
		}
		if ex.prune {
			k := k16(p.Key)
			if _, ok := ex.visited[k]; ok {
				return -1
			}
			ex.visited[k] = struct{}{}
			ex.res.States++
		}
		ex.res.Transitions++
		return 0
	})
	return x, e
}

func preemptions(x *vs.Exec, upto int) int {
	n := 0
	for i := 0; i < upto; i++ {
		p := x.Points[i]
		if p.RunningEnabled && x.Choices[i] >= p.NRunning {
			n++
		}
	}
	return n
}

func (ex *explorer) explore(prefix []int) {
	if ex.stop {
		return
	}
	if ex.limit > 0 && ex.res.Schedules >= ex.limit {
		ex.stop = true
		ex.res.Complete = false
		return
	}
	x, e := ex.run(prefix)
	ex.record(x, e)
	if ex.stop {
		return
	}
	npts := len(x.Points)
	cost := 0
	if !ex.prune {
		cost = preemptions(x, len(prefix))
	}
	for i := len(prefix); i < npts; i++ {
		p := x.Points[i]
		for alt := 1; alt < len(p.Alts); alt++ {
			if !ex.prune {
				c := cost
				if p.RunningEnabled && alt >= p.NRunning {
					c++
				}
				if c > ex.bound {
					continue
				}
			}
			np := make([]int, i+1)
			copy(np, x.Choices[:i])
			np[i] = alt
			ex.explore(np)
			if ex.stop {
				return
			}
		}
		// choice 0 at point i: a preemption only if running was enabled and alt 0 is not its own
		if !ex.prune && p.RunningEnabled && x.Choices[i] >= p.NRunning {
			cost++
		}
	}
}

func do(sc Scenario) *Result {
	res := &Result{Scenario: sc, Outcomes: map[string]int64{}, ViolCount: map[string]int64{}, Complete: true}
	defer func() {
		if r := recover(); r != nil {
			res.Err = fmt.Sprint(r)
			res.Complete = false
		}
	}()
	if sc.Replay != nil {
		ex := &explorer{sc: sc, res: res}
		x, e := ex.run(sc.Replay)
		ex.record(x, e)
		res.SampleTrace = x.Trace
		return res
	}
	// determinism self-check: the default schedule twice must give identical traces
	{
		ex := &explorer{sc: sc, res: &Result{Outcomes: map[string]int64{}, ViolCount: map[string]int64{}}}
		x1, e1 := ex.run(nil)
		x2, e2 := ex.run(nil)
		if strings.Join(x1.Trace, "|") != strings.Join(x2.Trace, "|") || e1.key() != e2.key() {
			res.Err = "nondeterministic replay of the default schedule"
			res.Complete = false
			return res
		}
	}
	ex := &explorer{sc: sc, res: res, prune: sc.Mode == "unbounded", bound: sc.Bound, limit: sc.MaxExec}
	if ex.prune {
		ex.visited = map[[16]byte]struct{}{}
	}
	ex.explore(nil)
	return res
}

func main() {
	flag.Parse()
	in := bufio.NewScanner(os.Stdin)
	in.Buffer(make([]byte, 1<<20), 1<<26)
	out := json.NewEncoder(os.Stdout)
	for in.Scan() {
		var sc Scenario
		if err := json.Unmarshal(in.Bytes(), &sc); err != nil {
			fmt.Fprintln(os.Stderr, "bad scenario:", err)
			os.Exit(3)
		}
		_ = out.Encode(do(sc))
	}
}
