// C19 — concurrent persist under every schedule (stateless schedule
// exploration of the real code under a controlled scheduler).
//
// Driver: rewrites /repo/generator/generator.go (working tree) with
// internal/schedrw, builds the worker with -overlay, shards scenarios over
// worker processes, aggregates evidence, then runs a free-running -race pass
// of the unrewritten code (sampling, reported separately, not deciding).
package main

import (
	"bufio"
	"bytes"
	"context"
	"encoding/json"
	"flag"
	"fmt"
	"os"
	"os/exec"
	"path/filepath"
	"runtime"
	"sort"
	"strings"
	"sync"
	"time"

	"verif/internal/evid"
	"verif/internal/schedrw"
)

type Scenario struct {
	N       int    `json:"n"`
	C       int    `json:"c"`
	Outcome []int  `json:"outcome"`
	PPNil   bool   `json:"pp_nil"`
	Mode    string `json:"mode"`
	Bound   int    `json:"bound"`
	Replay  []int  `json:"replay,omitempty"`
	MaxExec int64  `json:"max_exec,omitempty"`
}

type Viol struct {
	Class   string   `json:"class"`
	What    string   `json:"what"`
	Choices []int    `json:"choices"`
	Trace   []string `json:"trace"`
}

type Result struct {
	Scenario    Scenario         `json:"scenario"`
	Schedules   int64            `json:"schedules"`
	Transitions int64            `json:"transitions"`
	States      int64            `json:"states"`
	Pruned      int64            `json:"pruned"`
	MaxPoints   int              `json:"max_points"`
	MaxThreads  int              `json:"max_threads"`
	Contended   int64            `json:"contended"`
	Outcomes    map[string]int64 `json:"outcomes"`
	Violations  []Viol           `json:"violations"`
	ViolCount   map[string]int64 `json:"viol_count"`
	Complete    bool             `json:"complete"`
	SampleTrace []string         `json:"sample_trace"`
	Err         string           `json:"err,omitempty"`
}

func goEnv() []string {
	return append(os.Environ(), "GOFLAGS=-mod=mod", "GOPROXY=off", "GOSUMDB=off", "GOTOOLCHAIN=local")
}

func main() {
	replay := flag.String("replay", "", "replay file")
	run := evid.New("C19", "model_checking")
	scratch := os.Getenv("VERIF_SCRATCH")
	if scratch == "" {
		d, err := os.MkdirTemp("", "verif-c19-")
		if err != nil {
			run.Fatal("%v", err)
		}
		defer os.RemoveAll(d)
		scratch = d
	}

	// 1. rewrite the working-tree file
	src, st, err := schedrw.Rewrite("/repo", "github.com/cloudwego/thriftgo/generator", "/generator.go")
	if err != nil {
		run.Fatal("rewrite: %v", err)
	}
	rwPath := filepath.Join(scratch, "generator_rw.go")
	if err := os.WriteFile(rwPath, src, 0o644); err != nil {
		run.Fatal("%v", err)
	}
	ov := map[string]map[string]string{"Replace": {
		"/repo/generator/generator.go":    rwPath,
		"/repo/generator/export_verif.go": "/verif/overlays/generator/export_verif.go",
		"/repo/verifvs/vs.go":             "/verif/overlays/verifvs/vs.go",
	}}
	ovb, _ := json.Marshal(ov)
	ovPath := filepath.Join(scratch, "c19-overlay.json")
	_ = os.WriteFile(ovPath, ovb, 0o644)
	run.Set("rewrite", st)
	worker := filepath.Join(scratch, "c19worker")
	cmd := exec.Command("go", "build", "-tags", "verif", "-overlay", ovPath, "-o", worker, "./checks/c19/worker")
	cmd.Dir = "/verif"
	cmd.Env = goEnv()
	if out, err := cmd.CombinedOutput(); err != nil {
		// does the unrewritten tree build? then the rewriter met something it does not model
		plain := exec.Command("go", "build", "-o", os.DevNull, "github.com/cloudwego/thriftgo/generator")
		plain.Dir = "/verif"
		plain.Env = goEnv()
		if out2, err2 := plain.CombinedOutput(); err2 != nil {
			run.Fatal("tree does not build: %s", out2)
		}
		fmt.Fprintf(os.Stderr, "rewritten generator.go does not build (construct outside the modelled set):\n%s\n", out)
		run.NotExhaustive("unsupported: rewritten generator.go does not compile: " + firstLine(string(out)))
		run.Set("states", 0)
		run.Set("transitions", 0)
		run.Set("traces_validated_against_impl", 0)
		run.EvalN("", 0, 0)
		run.Finish()
	}
	if len(st.Unsupported) > 0 || st.Select+st.GoStmt+st.MakeChan == 0 {
		run.NotExhaustive(fmt.Sprintf("rewriter: unsupported=%v select=%d go=%d makechan=%d (nothing concurrent found to explore?)", st.Unsupported, st.Select, st.GoStmt, st.MakeChan))
	}

	if *replay != "" {
		doReplay(worker, *replay)
		return
	}

	// 2. scenarios
	maxN, maxC, bound := 4, 3, 2
	budget := 8 * time.Minute
	if run.Thorough() {
		maxN, maxC, bound = 5, 4, 3
		budget = 60 * time.Minute
	}
	run.SetBudget(budget)
	var scs []Scenario
	for n := 0; n <= maxN; n++ {
		for c := 1; c <= maxC; c++ {
			for _, ppNil := range []bool{false, true} {
				k := 3
				if ppNil {
					k = 2
				}
				total := 1
				for i := 0; i < n; i++ {
					total *= k
				}
				for code := 0; code < total; code++ {
					oc := make([]int, n)
					x := code
					for i := 0; i < n; i++ {
						oc[i] = x % k
						x /= k
						if ppNil && oc[i] == 1 {
							oc[i] = 2
						}
					}
					if n <= 4 {
						// the bounded pass needs no state key, so it is the one that stays
						// sound if the key abstraction were wrong; n=5 is pruned-pass only
						scs = append(scs, Scenario{N: n, C: c, Outcome: oc, PPNil: ppNil, Mode: "bounded", Bound: bound})
					}
					scs = append(scs, Scenario{N: n, C: c, Outcome: oc, PPNil: ppNil, Mode: "unbounded"})
				}
			}
		}
	}
	// simplest first; VERIF_SEED only rotates the shard order
	if run.Seed != 0 && len(scs) > 0 {
		r := int(uint64(run.Seed) % uint64(len(scs)))
		scs = append(scs[r:], scs[:r]...)
	}

	// 3. run shards
	nw := runtime.NumCPU()
	work := make(chan Scenario)
	resc := make(chan Result, 64)
	var wg sync.WaitGroup
	for w := 0; w < nw; w++ {
		wg.Add(1)
		go func() {
			defer wg.Done()
			for sc := range work {
				if run.OverBudget() {
					continue
				}
				b, _ := json.Marshal(sc)
				c := exec.Command(worker)
				c.Env = append(os.Environ(), "GOMAXPROCS=1")
				c.Stdin = bytes.NewReader(append(b, '\n'))
				var stderr bytes.Buffer
				c.Stderr = &stderr
				out, err := c.Output()
				var r Result
				if err != nil || json.Unmarshal(bytes.TrimSpace(out), &r) != nil {
					r = Result{Scenario: sc, Err: fmt.Sprintf("worker failed: %v: %s", err, firstLine(stderr.String()))}
				}
				resc <- r
			}
		}()
	}
	go func() {
		for _, sc := range scs {
			work <- sc
		}
		close(work)
		wg.Wait()
		close(resc)
	}()

	var schedules, transitions, states, contended int64
	outcomes := map[string]bool{}
	done := 0
	var perScenario []map[string]any
	maxBoundDone := map[string]bool{}
	var sample []string
	for r := range resc {
		done++
		if r.Err != "" {
			run.NotExhaustive(fmt.Sprintf("scenario %v: %s", scKey(r.Scenario), r.Err))
			if strings.Contains(r.Err, "worker failed") || strings.Contains(r.Err, "nondeterministic") || strings.Contains(r.Err, "divergence") {
				fmt.Fprintf(os.Stderr, "HARNESS-ERROR property=C19: %s %s\n", scKey(r.Scenario), r.Err)
			}
			continue
		}
		schedules += r.Schedules
		transitions += r.Transitions
		states += r.States
		contended += r.Contended
		for o := range r.Outcomes {
			outcomes[o] = true
		}
		if !r.Complete {
			run.NotExhaustive("scenario " + scKey(r.Scenario) + " hit its execution cap")
		}
		maxBoundDone[r.Scenario.Mode] = true
		if len(perScenario) < 400 {
			perScenario = append(perScenario, map[string]any{"scenario": scKey(r.Scenario), "schedules": r.Schedules, "states": r.States, "max_points": r.MaxPoints, "threads": r.MaxThreads, "outcomes": len(r.Outcomes)})
		}
		if r.Scenario.N >= 2 && sample == nil && r.Scenario.Mode == "bounded" {
			sample = r.SampleTrace
			run.Sample(map[string]any{"scenario": r.Scenario, "default_schedule_trace": r.SampleTrace})
		}
		for _, v := range r.Violations {
			sc := r.Scenario
			sc.Replay = v.Choices
			run.Violate(evid.Violation{Class: v.Class, What: fmt.Sprintf("%s [scenario %s]", v.What, scKey(r.Scenario)),
				Replay: map[string]any{"scenario": sc, "trace": v.Trace}})
		}
		for cl, n := range r.ViolCount {
			run.Add("violating_schedules_"+cl, n)
		}
	}
	if done < len(scs) {
		run.NotExhaustive(fmt.Sprintf("%d of %d scenarios explored within the time budget", done, len(scs)))
	}
	sort.Slice(perScenario, func(i, j int) bool { return perScenario[i]["scenario"].(string) < perScenario[j]["scenario"].(string) })
	run.EvalN("C19", schedules, contended)
	run.Set("schedules", schedules)
	if states == 0 {
		states = 1
	}
	run.Set("states", states)
	if transitions == 0 {
		transitions = 1
	}
	run.Set("transitions", transitions)
	run.Set("traces_validated_against_impl", schedules)
	run.Set("scenarios", len(scs))
	run.Set("scenarios_done", done)
	run.Set("bounds", map[string]any{"jobs": fmt.Sprintf("0..%d", maxN), "concurrency": fmt.Sprintf("1..%d", maxC), "preemption_bound_completed": bound, "unbounded_state_pruned_pass": "all scenarios", "outcomes_per_job": "ok | post-process fails | write fails (all assignments)"})
	run.Set("distinct_outcomes", len(outcomes))
	run.Set("per_scenario", perScenario)
	run.Set("rule", "one evaluation = one complete schedule of the rewritten real OnFinished executed under the controlled scheduler and judged by the oracle; non-trivial = at some decision point >=2 different threads were enabled")
	run.Assume("scheduling points at every channel/select/WaitGroup/Mutex operation, goroutine start and environment call (PostProcess, write); plain memory accesses between them are atomic blocks (data races are looked for separately in the free-running -race pass)")
	run.Assume("state key for the pruned pass = per-thread (ops executed, hash of observations, pending op), channel contents, WaitGroup counters, environment multiset; threads are deterministic given their observations")

	// 3b. the real Persist with the real Go back end as post-processor, sequentially, on every
	// response over an alphabet of file kinds: success means every file is complete on disk
	persistPass(run, scratch)

	// 4. free-running race pass (sampling; never decides, but a detected race is a real defect)
	if run.ViolationCount() == 0 {
		racePass(run, scratch)
	} else {
		run.Set("race_pass", "skipped: the exploration already found violations")
	}
	run.Finish()
}

func scKey(s Scenario) string {
	return fmt.Sprintf("n=%d c=%d outcome=%v ppnil=%v %s/%d", s.N, s.C, s.Outcome, s.PPNil, s.Mode, s.Bound)
}

func firstLine(s string) string {
	s = strings.TrimSpace(s)
	if i := strings.IndexByte(s, '\n'); i >= 0 {
		// keep the most informative line: skip "# pkg" headers
		lines := strings.Split(s, "\n")
		for _, l := range lines {
			if !strings.HasPrefix(l, "#") {
				return l
			}
		}
		return s[:i]
	}
	return s
}

func persistPass(run *evid.Run, scratch string) {
	bin := filepath.Join(scratch, "c19persist")
	cmd := exec.Command("go", "build", "-o", bin, "./checks/c19/persist")
	cmd.Dir = "/verif"
	cmd.Env = goEnv()
	if out, err := cmd.CombinedOutput(); err != nil {
		run.Fatal("persist pass does not build: %s", out)
	}
	root := filepath.Join(scratch, "persist-out")
	os.MkdirAll(root, 0o755)
	defer os.RemoveAll(root)
	ctx, cancel := context.WithTimeout(context.Background(), 10*time.Minute)
	defer cancel()
	c := exec.CommandContext(ctx, bin, root)
	var outb, errb bytes.Buffer
	c.Stdout, c.Stderr = &outb, &errb
	if err := c.Run(); err != nil {
		if ctx.Err() != nil {
			run.Violate(evid.Violation{Class: "persist-hangs", What: "sequential Persist calls did not finish within 10 minutes", Replay: map[string]any{}})
			return
		}
		run.Violate(evid.Violation{Class: "persist-crashes", What: "the real Persist crashed: " + firstLine(errb.String()), Replay: map[string]any{"stderr": errb.String()}})
		return
	}
	var res struct {
		Evaluations int `json:"evaluations"`
		Violations  []struct {
			Class  string         `json:"class"`
			What   string         `json:"what"`
			Replay map[string]any `json:"replay"`
		} `json:"violations"`
	}
	if err := json.Unmarshal(outb.Bytes(), &res); err != nil {
		run.Fatal("persist pass output: %v", err)
	}
	run.EvalN("persist-real-backend", int64(res.Evaluations), int64(res.Evaluations))
	run.Set("persist_real_backend_responses", res.Evaluations)
	for _, v := range res.Violations {
		run.Violate(evid.Violation{Class: "persist:" + v.Class, What: v.What, Replay: v.Replay})
	}
}

func racePass(run *evid.Run, scratch string) {
	bin := filepath.Join(scratch, "c19race")
	ov := filepath.Join(scratch, "c19-race-overlay.json")
	_ = os.WriteFile(ov, []byte(`{"Replace": {"/repo/generator/export_verif.go": "/verif/overlays/generator/export_verif.go"}}`), 0o644)
	cmd := exec.Command("go", "build", "-race", "-tags", "verif", "-overlay", ov, "-o", bin, "./checks/c19/racepass")
	cmd.Dir = "/verif"
	cmd.Env = goEnv()
	if out, err := cmd.CombinedOutput(); err != nil {
		run.Note("race pass not built: " + firstLine(string(out)))
		return
	}
	iters := "150"
	if run.Thorough() {
		iters = "1500"
	}
	ctx, cancel := context.WithTimeout(context.Background(), 4*time.Minute)
	defer cancel()
	c := exec.CommandContext(ctx, bin, "-iters", iters)
	c.Env = append(os.Environ(), "GORACE=halt_on_error=0 exitcode=66")
	var outb, errb bytes.Buffer
	c.Stdout, c.Stderr = &outb, &errb
	err := c.Run()
	if ctx.Err() != nil {
		// a free-running hang is not judged here: deadlocks are decided by the explorer
		run.Set("race_pass", map[string]any{"kind": "free-running -race sampling", "summary": "timed out after 4 min (a real deadlock hangs a free run; see the exploration result)"})
		return
	}
	sc := bufio.NewScanner(&outb)
	var summary map[string]any
	for sc.Scan() {
		_ = json.Unmarshal(sc.Bytes(), &summary)
	}
	run.Set("race_pass", map[string]any{"kind": "free-running -race sampling of the unrewritten Generator.Persist / OnFinished (not the deciding step)", "summary": summary})
	if strings.Contains(errb.String(), "WARNING: DATA RACE") {
		// keep the first report
		rep := errb.String()
		if i := strings.Index(rep, "=================="); i >= 0 {
			rep = rep[i:]
		}
		if len(rep) > 3000 {
			rep = rep[:3000]
		}
		run.Violate(evid.Violation{Class: "data-race", What: "the race detector reported a data race in a free-running Persist", Replay: map[string]any{"report": rep}})
		return
	}
	if summary != nil {
		if v, _ := summary["violations"].([]any); len(v) > 0 {
			run.Violate(evid.Violation{Class: "free-run-" + fmt.Sprint(v[0].(map[string]any)["class"]), What: fmt.Sprint(v[0].(map[string]any)["what"]), Replay: v[0]})
		}
	}
	if err != nil && summary == nil {
		run.Note("race pass failed to run: " + firstLine(errb.String()))
	}
}

func doReplay(worker, path string) {
	b, err := os.ReadFile(path)
	if err != nil {
		fmt.Fprintln(os.Stderr, err)
		os.Exit(3)
	}
	var r struct {
		Replay struct {
			Scenario Scenario `json:"scenario"`
		} `json:"replay"`
	}
	if err := json.Unmarshal(b, &r); err != nil {
		fmt.Fprintln(os.Stderr, err)
		os.Exit(3)
	}
	sb, _ := json.Marshal(r.Replay.Scenario)
	c := exec.Command(worker)
	c.Env = append(os.Environ(), "GOMAXPROCS=1")
	c.Stdin = bytes.NewReader(append(sb, '\n'))
	out, err := c.Output()
	if err != nil {
		fmt.Fprintln(os.Stderr, "worker:", err)
		os.Exit(3)
	}
	var res Result
	_ = json.Unmarshal(bytes.TrimSpace(out), &res)
	fmt.Println(strings.Join(res.SampleTrace, "\n"))
	if len(res.Violations) > 0 {
		fmt.Printf("VIOLATION property=C19 replay=%s\n  class=%s: %s\n", path, res.Violations[0].Class, res.Violations[0].What)
		os.Exit(1)
	}
	if res.Err != "" {
		fmt.Println("replay error:", res.Err)
		os.Exit(3)
	}
	fmt.Println("replay: property holds on this schedule")
}
